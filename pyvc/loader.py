"""
pyvc.loader -- mechanical extraction of one function from /repo's current working tree.

Every run re-reads the module's source file, finds the function's ``def`` by qualified name,
applies the rewrite below and compiles the result in a copy of the *real, imported* module
namespace, so every global the function mentions (enum members, constants, exception classes,
sibling functions, imported modules) is the real runtime object unless the harness replaces it by
a contract stub.

The rewrite (complete list -- nothing else is changed or dropped):
  R1  parameter/return/variable annotations are removed (``x: T = v`` becomes ``x = v``;
      a bare ``x: T`` is dropped);
  R2  ``a is b`` / ``a is not b``  ->  ``__vc_is__(a, b)`` / ``not __vc_is__(a, b)``  (identity of
      proxies against None/True/False/enum members; plain identity otherwise);
  R7  ``'<literal>'.join(xs)``  ->  ``__vc_join__('<literal>', xs)`` (concatenation of symbolic strings)
  R3  f-strings  ->  ``__vc_fstr__(...)`` (concatenation when parts are symbolic strings, an
      opaque fresh string for other symbolic parts, ordinary formatting otherwise);
  R4  the builtins ``len isinstance max min int float str bool abs sum any all sorted list tuple``
      are looked up in the namespace, where symbolic-aware versions shadow them (they defer to the
      real builtin for concrete arguments);
  R5  loops for which the harness supplies a loop contract are cut in the Hoare style:
      ``while c: B``  ->  ``__vc_loop_head__(k, locals())`` (invariant asserted, modified locals
      havocked, invariant assumed); one symbolic iteration of ``B``; ``__vc_loop_back__(k, ...)``
      (invariant asserted, path ends) at the back edge and at every ``continue``; paths leaving by
      ``break``/``return``/``raise`` continue after the loop.  ``for``/``async for`` likewise, with
      the element drawn by the loop contract.
  R6  decorators listed in `strip_decorators` (default: property, staticmethod, classmethod,
      functools.cached_property) are removed so the plain function is obtained.
"""
from __future__ import annotations

from ._safe import isinstance

import ast
import builtins
import importlib
import inspect
import os
import sys
import types
from typing import Any, Callable

from .engine import E, Unsupported, PathEnd
from . import values as V

def repo_root() -> str:
    return os.environ.get('PYVC_REPO', '/repo')

_src_cache: dict[str, tuple[str, ast.Module]] = {}
_code_cache: dict[tuple, Any] = {}


def module_source(modname: str) -> tuple[Any, str, ast.Module]:
    mod = importlib.import_module(modname)
    path = inspect.getsourcefile(mod)
    if path is None or not os.path.realpath(path).startswith(os.path.realpath(repo_root()) + os.sep):
        raise RuntimeError(f'{modname} is not loaded from {repo_root()}: {path}')
    if path not in _src_cache:
        text = open(path, encoding='utf-8').read()
        _src_cache[path] = (text, ast.parse(text, filename=path))
    text, tree = _src_cache[path]
    return mod, path, tree


def find_def(tree: ast.Module, qualname: str):
    parts = qualname.split('.')
    body = tree.body
    node = None
    for i, p in enumerate(parts):
        # 'name@k' selects the k-th (0-based) definition of that name in the body: a property getter and its setter
        # are two defs of ONE name (`@property def x` ... `@x.setter def x`); without '@k' the last one wins, as before
        p, _, nth = p.partition('@')
        found, seen = None, 0
        for n in body:
            if isinstance(n, (ast.FunctionDef, ast.AsyncFunctionDef, ast.ClassDef)) and n.name == p:
                if nth == '' or seen == int(nth):
                    found = n   # the last definition wins, as in Python
                seen += 1
        if found is None:
            raise Unsupported(f'definition {qualname!r} not found in module (renamed or removed?)')
        node = found
        body = found.body
    if not isinstance(node, (ast.FunctionDef, ast.AsyncFunctionDef)):
        raise Unsupported(f'{qualname!r} is not a function')
    return node


class LoopSpec:
    """
    Contract of one loop: callbacks get the dict of the function's locals.
      invariant(loc) -> SBool/bool         asserted at entry and at every back edge, assumed at the head
      havoc(loc) -> dict                   new values for the locals the loop may modify (others stay);
                                           heap objects are havocked in place by the callback
      element(loc) -> value                (for-loops) the arbitrary element of this iteration
      variant(loc) -> SNum                 optional, must decrease and stay >= 0
    """
    def __init__(self, anchor: str, invariant=None, havoc=None, element=None, variant=None,
                 on_exit=None, name='', at_backedge=None, rebinds=(), dedup_key=None, at_entry=None):
        self.anchor = anchor
        self.invariant = invariant or (lambda loc: True)
        self.havoc = havoc or (lambda loc: {})
        self.element = element
        self.variant = variant
        self.on_exit = on_exit
        # dedup_key(locals) -> hashable: the iteration from the havocked loop head depends only on this key (and on
        # the havocked state), so it is explored once per key, not once per path that reaches the loop
        self.dedup_key = dedup_key
        self.at_entry = at_entry            # obligations about the state in which the loop is first reached
        self.rebinds = tuple(rebinds)       # extra locals (not assigned in the loop body) that havoc() may re-bind
        self.at_backedge = at_backedge      # per-iteration obligations, called at the back edge before the invariant
        self.name = name or anchor


class _Rewriter(ast.NodeTransformer):
    def __init__(self, loops: dict[int, LoopSpec], srcseg: Callable[[ast.AST], str]):
        self.loops = loops
        self.loop_no = 0
        self.seg = srcseg
        self.loop_stack: list[int | None] = []
        self.matched: set[int] = set()

    # R1
    def visit_arg(self, node):
        node.annotation = None
        return node

    def visit_AnnAssign(self, node):
        self.generic_visit(node)
        if node.value is None:
            return None
        return ast.copy_location(ast.Assign(targets=[node.target], value=node.value), node)

    def _fn(self, node):
        node.returns = None
        # nested function: its loops are not numbered / cut; `continue` inside belongs to its own loops
        saved = self.loop_stack
        self.loop_stack = []
        self.generic_visit(node)
        self.loop_stack = saved
        return node

    visit_FunctionDef = _fn
    visit_AsyncFunctionDef = _fn

    def visit_Lambda(self, node):
        self.generic_visit(node)
        return node

    # R2
    def visit_Compare(self, node):
        self.generic_visit(node)
        if len(node.ops) == 1 and isinstance(node.ops[0], (ast.Is, ast.IsNot)):
            call = ast.Call(func=ast.Name('__vc_is__', ast.Load()), args=[node.left, node.comparators[0]], keywords=[])
            if isinstance(node.ops[0], ast.IsNot):
                call = ast.UnaryOp(op=ast.Not(), operand=call)
            return ast.copy_location(call, node)
        if len(node.ops) == 1 and isinstance(node.ops[0], (ast.In, ast.NotIn)):
            call = ast.Call(func=ast.Name('__vc_in__', ast.Load()), args=[node.left, node.comparators[0]], keywords=[])
            if isinstance(node.ops[0], ast.NotIn):
                call = ast.UnaryOp(op=ast.Not(), operand=call)
            return ast.copy_location(call, node)
        return node

    # R3
    def visit_JoinedStr(self, node):
        self.generic_visit(node)
        parts = []
        for v in node.values:
            if isinstance(v, ast.Constant):
                parts.append(v)
            else:
                spec = v.format_spec if v.format_spec is not None else ast.Constant(None)
                parts.append(ast.Tuple(elts=[v.value, ast.Constant(v.conversion), spec], ctx=ast.Load()))
        return ast.copy_location(
            ast.Call(func=ast.Name('__vc_fstr__', ast.Load()), args=[ast.List(elts=parts, ctx=ast.Load())], keywords=[]),
            node)

    # R7: '<literal>'.join(xs)  ->  __vc_join__('<literal>', xs)   (concatenation when items are symbolic strings)
    def visit_Call(self, node):
        self.generic_visit(node)
        f = node.func
        if (isinstance(f, ast.Attribute) and f.attr == 'join' and isinstance(f.value, ast.Constant)
                and isinstance(f.value.value, str) and len(node.args) == 1 and not node.keywords):
            return ast.copy_location(ast.Call(func=ast.Name('__vc_join__', ast.Load()), args=[f.value, node.args[0]],
                                              keywords=[]), node)
        return node

    # R5
    def _loop(self, node):
        self.loop_no += 1
        k = self.loop_no
        spec = self.loops.get(k)
        if spec is None:
            self.loop_stack.append(None)
            self.generic_visit(node)
            self.loop_stack.pop()
            return node
        head = self.seg(node).split('\n')[0]
        if spec.anchor not in head:
            raise Unsupported(f'loop contract #{k} anchor {spec.anchor!r} does not match the source {head!r}')
        self.matched.add(k)
        self.loop_stack.append(k)
        body = [self.visit(s) for s in node.body]
        body = [x for s in body for x in (s if isinstance(s, list) else [s]) if x is not None]
        self.loop_stack.pop()
        if node.orelse:
            raise Unsupported('loop contract on a loop with an else clause')
        K = ast.Constant(k)
        loc = ast.Call(func=ast.Name('locals', ast.Load()), args=[], keywords=[])
        stmts: list[ast.stmt] = []
        # locals().update() does not work in functions: havocked locals are re-bound by exec-free
        # explicit assignments generated for every local name assigned in the loop body.
        assigned = sorted(_assigned_names(node) | set(spec.rebinds))
        targets = _assigned_names(node.target) if not isinstance(node, ast.While) else set()
        carried = ast.Constant(tuple(n for n in sorted(_assigned_names(node)) if n not in targets))
        head_call = ast.Call(func=ast.Name('__vc_loop_head__', ast.Load()), args=[K, loc, carried], keywords=[])
        stmts.append(ast.Assign(targets=[ast.Name('__vc_h', ast.Store())], value=head_call))
        for name in assigned:
            # x = __vc_h.get('x', x) if bound else leave unbound
            stmts.append(ast.If(
                test=ast.Compare(left=ast.Constant(name), ops=[ast.In()], comparators=[ast.Name('__vc_h', ast.Load())]),
                body=[ast.Assign(targets=[ast.Name(name, ast.Store())],
                                 value=ast.Subscript(value=ast.Name('__vc_h', ast.Load()), slice=ast.Constant(name), ctx=ast.Load()))],
                orelse=[]))
        back = ast.Expr(ast.Call(func=ast.Name('__vc_loop_back__', ast.Load()), args=[K, loc], keywords=[]))
        if isinstance(node, ast.While):
            guard = ast.If(test=ast.UnaryOp(op=ast.Not(), operand=self.visit(node.test)), body=[ast.Break()], orelse=[])
            inner = [guard] + body + [back]
        else:
            is_async = isinstance(node, ast.AsyncFor)
            nxt = ast.Call(func=ast.Name('__vc_loop_next__', ast.Load()), args=[K, loc, self.visit(node.iter)], keywords=[])
            if is_async:
                nxt = ast.Await(nxt)
            else:
                nxt.func = ast.Name('__vc_loop_next_sync__', ast.Load())
            get = ast.Assign(targets=[ast.Name('__vc_e', ast.Store())], value=nxt)
            stop = ast.If(test=ast.Compare(left=ast.Name('__vc_e', ast.Load()), ops=[ast.Is()],
                                           comparators=[ast.Name('__vc_STOP__', ast.Load())]),
                          body=[ast.Break()], orelse=[])
            bind = ast.Assign(targets=[node.target], value=ast.Name('__vc_e', ast.Load()))
            inner = [get, stop, bind] + body + [back]
        stmts.append(ast.While(test=ast.Constant(True), body=inner, orelse=[]))
        stmts.append(ast.Expr(ast.Call(func=ast.Name('__vc_loop_exit__', ast.Load()), args=[K, loc], keywords=[])))
        for s in stmts:
            ast.copy_location(s, node)
            ast.fix_missing_locations(s)
        return stmts

    visit_While = _loop
    visit_For = _loop
    visit_AsyncFor = _loop

    def visit_Continue(self, node):
        if self.loop_stack and self.loop_stack[-1] is not None:
            k = self.loop_stack[-1]
            loc = ast.Call(func=ast.Name('locals', ast.Load()), args=[], keywords=[])
            return ast.copy_location(
                ast.Expr(ast.Call(func=ast.Name('__vc_loop_back__', ast.Load()), args=[ast.Constant(k), loc], keywords=[])), node)
        return node


def _assigned_names(node: ast.AST) -> set[str]:
    out: set[str] = set()
    for n in ast.walk(node):
        if isinstance(n, ast.Name) and isinstance(n.ctx, (ast.Store, ast.Del)):
            out.add(n.id)
        elif isinstance(n, ast.ExceptHandler) and n.name:
            out.add(n.name)
    # do not descend semantics for nested defs: harmless over-approximation
    return out


_STRIP_DEFAULT = ('property', 'staticmethod', 'classmethod', 'functools.cached_property', 'cached_property')


class Shadow:
    """A module/object look-alike: attribute overrides first, the real object otherwise."""
    def __init__(self, real, overrides: dict[str, Any]):
        object.__setattr__(self, '_real', real)
        object.__setattr__(self, '_over', dict(overrides))

    def __getattr__(self, name):
        over = object.__getattribute__(self, '_over')
        if name in over:
            return over[name]
        return getattr(object.__getattribute__(self, '_real'), name)

    def __setattr__(self, name, value):
        object.__getattribute__(self, '_over')[name] = value


class Loaded:
    def __init__(self, modname, qualname, fn, ns, path, lineno, end_lineno, src, loops):
        self.modname, self.qualname, self.fn, self.ns = modname, qualname, fn, ns
        self.path, self.lineno, self.end_lineno, self.src, self.loops = path, lineno, end_lineno, src, loops

    @property
    def dotted(self):
        return f'{self.modname}.{self.qualname}'


def load(modname: str, qualname: str, *, stubs: dict[str, Any] | None = None,
         loops: dict[int, LoopSpec] | None = None, strip_decorators=_STRIP_DEFAULT,
         extra_ns: dict[str, Any] | None = None) -> Loaded:
    """
    `stubs` maps names as the function's source spells them to replacements:
      'finalizers.is_deletion_ongoing' (attribute of a module-level name), 'get_uid' (a global),
      'asyncio' (a whole module).  Dotted entries shadow one attribute and leave the rest real.
    """
    mod, path, tree = module_source(modname)
    node = find_def(tree, qualname)
    text = _src_cache[path][0]
    seg = lambda n: ast.get_source_segment(text, n) or ''
    ckey = (path, qualname, tuple(sorted((k, v.anchor, v.rebinds) for k, v in (loops or {}).items())), tuple(strip_decorators))
    code = _code_cache.get(ckey)
    if code is None:
        import copy
        node2 = copy.deepcopy(node)
        node2.decorator_list = [d for d in node2.decorator_list if ast.unparse(d) not in strip_decorators]
        rw = _Rewriter(loops or {}, lambda n: _seg_by_pos(text, n))
        node2 = rw.visit(node2)
        if loops:
            missing = set(loops) - rw.matched
            if missing:
                raise Unsupported(f'loop contracts {sorted(missing)} of {qualname} matched no loop (code restructured?)')
        m = ast.Module(body=[node2], type_ignores=[])
        ast.fix_missing_locations(m)
        code = _code_cache[ckey] = compile(m, path, 'exec')

    ns: dict[str, Any] = dict(mod.__dict__)
    # class-level names for methods (e.g. other methods referenced unqualified are not visible anyway)
    ns.update(_shadow_builtins())
    ns['__vc_is__'] = vc_is
    ns['__vc_in__'] = vc_in
    ns['__vc_fstr__'] = vc_fstr
    ns['__vc_join__'] = vc_join
    ns['__vc_STOP__'] = _STOP
    ns['__vc_sync__'] = _sync
    known = {n.id for n in ast.walk(node) if isinstance(n, ast.Name)} | {a.arg for a in ast.walk(node) if isinstance(a, ast.arg)} \
        | {h.name for h in ast.walk(node) if isinstance(h, ast.ExceptHandler) and h.name}
    lp = _LoopRuntime(loops or {}, known)
    ns['__vc_loop_head__'] = lp.head
    ns['__vc_loop_back__'] = lp.back
    ns['__vc_loop_next__'] = lp.next
    ns['__vc_loop_next_sync__'] = lp.next_sync
    ns['__vc_loop_exit__'] = lp.exit
    if extra_ns:
        ns.update(extra_ns)
    grouped: dict[str, dict[str, Any]] = {}
    for name, repl in (stubs or {}).items():
        if '.' in name:
            head, attr = name.split('.', 1)
            grouped.setdefault(head, {})[attr] = repl
        else:
            ns[name] = repl
    for head, over in grouped.items():
        if head not in ns:
            raise Unsupported(f'stub target {head!r} is not a global of {modname} (import changed?)')
        ns[head] = _nest_shadow(ns[head], over)
    exec(code, ns)
    fn = ns[node.name]
    return Loaded(modname, qualname, fn, ns, path, node.lineno, node.end_lineno, seg(node), loops or {})


def _nest_shadow(real, over: dict[str, Any]):
    flat: dict[str, Any] = {}
    nested: dict[str, dict[str, Any]] = {}
    for k, v in over.items():
        if '.' in k:
            h, a = k.split('.', 1)
            nested.setdefault(h, {})[a] = v
        else:
            flat[k] = v
    for h, o in nested.items():
        flat[h] = _nest_shadow(getattr(real, h), o)
    return Shadow(real, flat)


def _seg_by_pos(text: str, n: ast.AST) -> str:
    lines = text.split('\n')
    return lines[n.lineno - 1]


# ------------------------------------------------------------------------------------ runtime helpers
class _Stop:
    pass


_STOP = _Stop()


def _sync(x):
    return x


class LoopCarried:
    """
    The value, at the head of a loop under contract, of a local that the loop body assigns and that the contract's havoc() did not
    state: on an arbitrary iteration it holds whatever an earlier iteration left in it.  Code that assigns it before using it (the
    usual case: a per-iteration temporary) never looks at this object; code that READS it first depends on a loop-carried value
    the contract says nothing about -- that is undecided (Unsupported), never a silent pass.
    """
    __slots__ = ('_name', '_loop')

    def __init__(self, name, loop):
        object.__setattr__(self, '_name', name)
        object.__setattr__(self, '_loop', loop)

    def _refuse(self, *a, **kw):
        raise Unsupported(f'local {self._name!r} is read before it is assigned in an iteration of loop {self._loop}: its value is '
                          f'carried over from an earlier iteration, and the loop contract (havoc) does not state it')

    def __repr__(self):
        return f'<loop-carried value of {self._name!r}>'
    __bool__ = __call__ = __iter__ = __len__ = __eq__ = __ne__ = __lt__ = __le__ = __gt__ = __ge__ = _refuse
    __add__ = __radd__ = __sub__ = __rsub__ = __mul__ = __rmul__ = __truediv__ = __rtruediv__ = __neg__ = _refuse
    __getitem__ = __setitem__ = __contains__ = __hash__ = __await__ = __enter__ = __exit__ = __str__ = __format__ = _refuse

    def __getattr__(self, name):
        self._refuse()


def vc_is(a, b):
    if isinstance(a, LoopCarried):
        a._refuse()
    if isinstance(b, LoopCarried):
        b._refuse()
    if isinstance(a, V.SFin):
        return a.is_(b)
    if isinstance(b, V.SFin):
        return b.is_(a)
    if isinstance(a, V.SV) or isinstance(b, V.SV):
        if a is b:
            return True
        sv, other = (a, b) if isinstance(a, V.SV) else (b, a)
        if isinstance(other, V.SV):
            raise Unsupported('identity comparison between two distinct symbolic values')
        if isinstance(sv, V.SJson):
            if other is None:
                return sv.is_null()
            return False
        if isinstance(sv, V.SBool) and isinstance(other, bool):
            return sv == other
        return False
    return a is b


def vc_in(a, b):
    if isinstance(b, V.SFin):
        b = b._resolve()
    if isinstance(b, (V.SStr, V.SSeq)):
        return b.contains(a)
    if isinstance(b, V.SJson):
        return b.__contains__(a)
    if isinstance(a, V.SV) and isinstance(b, (tuple, list, set, frozenset)):
        r: Any = False
        for x in b:
            e = (a == x)
            if e is True:
                return True
            if e is False:
                continue
            r = e if r is False else (r | e)
        return r
    if isinstance(a, V.SV) and isinstance(b, dict):
        r = False
        for x in b:
            e = (a == x)
            if e is True:
                return True
            if e is False:
                continue
            r = e if r is False else (r | e)
        return r
    if isinstance(a, V.SV) and isinstance(b, str):
        if isinstance(a, V.SStr):
            import z3
            return V.SBool(z3.Contains(z3.StringVal(b), a.term))
        raise TypeError("'in <string>' requires string as left operand")
    return a in b


def vc_fstr(parts):
    out: Any = ''
    for p in parts:
        if isinstance(p, str):
            piece: Any = p
        else:
            val, conv, spec = p
            if isinstance(val, V.SStr) and conv in (-1, 115) and not spec:
                piece = val
            elif _has_sym(val):
                # an unmodelled rendering: a fresh, unconstrained string (sound over-approximation)
                piece = V.draw_str('render')
            else:
                if conv == 114:
                    val = repr(val)
                elif conv == 115:
                    val = str(val)
                elif conv == 97:
                    val = ascii(val)
                piece = format(val, spec if isinstance(spec, str) else '') if spec else format(val, '')
        out = out + piece
    return out


def vc_join(sep, items):
    items = list(items)
    if not any(isinstance(x, V.SV) for x in items):
        return sep.join(items)
    out: Any = ''
    for i, x in enumerate(items):
        if not isinstance(x, (str, V.SStr)):
            raise TypeError(f'sequence item {i}: expected str instance, {type(x).__name__} found')
        out = (out + sep + x) if i else x
    return out


def _has_sym(val, depth=0) -> bool:
    if isinstance(val, V.SV):
        return True
    if depth > 3:
        return False
    if isinstance(val, (list, tuple, set, frozenset)):
        return any(_has_sym(x, depth + 1) for x in val)
    if isinstance(val, dict):
        return any(_has_sym(k, depth + 1) or _has_sym(v, depth + 1) for k, v in val.items())
    if isinstance(val, BaseException):
        return any(_has_sym(x, depth + 1) for x in val.args) or any(
            _has_sym(x, depth + 1) for x in getattr(val, '__dict__', {}).values())
    d = getattr(val, '__dict__', None)
    if isinstance(d, dict) and depth < 2:
        return any(_has_sym(x, depth + 1) for x in d.values())
    return False


def _shadow_builtins() -> dict[str, Any]:
    def s_len(x):
        if isinstance(x, V.SV) or hasattr(type(x), 'vc_len'):
            return x.vc_len()
        return builtins.len(x)

    def s_isinstance(x, cls):
        return builtins.isinstance(x, cls)     # proxies answer through their __class__ property

    def s_max(*args, **kw):
        if kw or not any(isinstance(a, V.SV) for a in args):
            if len(args) == 1 and isinstance(args[0], V.SV):
                raise Unsupported('max() over a symbolic collection')
            return builtins.max(*args, **kw)
        if len(args) == 1:
            raise Unsupported('max() over a symbolic collection')
        r = args[0]
        for a in args[1:]:
            r = V.If(a > r, a, r)       # Python keeps the first of equals; values are equal then anyway
        return r

    def s_min(*args, **kw):
        if kw or not any(isinstance(a, V.SV) for a in args):
            if len(args) == 1 and isinstance(args[0], V.SV):
                raise Unsupported('min() over a symbolic collection')
            return builtins.min(*args, **kw)
        if len(args) == 1:
            raise Unsupported('min() over a symbolic collection')
        r = args[0]
        for a in args[1:]:
            r = V.If(a < r, a, r)
        return r

    def s_abs(x):
        return x.__abs__() if isinstance(x, V.SNum) else builtins.abs(x)

    def s_bool(x=False):
        if isinstance(x, V.SV):
            return x.truth()
        return builtins.bool(x)

    class s_list_meta(type):
        def __instancecheck__(cls, inst):
            return builtins.isinstance(inst, builtins.list)

    def s_list(x=()):
        if isinstance(x, V.SSeq):
            return x.copy()
        if isinstance(x, V.SJson):
            return x.snapshot()
        return builtins.list(x)

    def s_float(x=0.0):
        if isinstance(x, V.SNum):
            return V.SNum(V._toreal(x.term, x.is_int), False)
        return builtins.float(x)

    def s_int(x=0, *a):
        if isinstance(x, V.SNum):
            if x.is_int:
                return x
            import z3
            # int() truncates toward zero
            t = x.term
            fl = z3.ToInt(t)
            return V.SNum(z3.If(t >= 0, fl, z3.If(z3.ToReal(fl) == t, fl, fl + 1)), True)
        return builtins.int(x, *a)

    def s_str(x='', *a):
        if a:
            return builtins.str(x, *a)
        if isinstance(x, V.SStr):
            return x
        if isinstance(x, V.SFin):
            return builtins.str(x._resolve())
        if isinstance(x, V.SV):
            return V.draw_str('str()')            # unmodelled rendering: fresh, unconstrained
        if isinstance(x, BaseException) and _has_sym(x):
            if len(x.args) == 1 and isinstance(x.args[0], V.SStr):
                return x.args[0]
            return V.draw_str('str(exc)')
        if _has_sym(x):
            return V.draw_str('str()')
        return builtins.str(x)

    def s_repr(x):
        if isinstance(x, V.SFin):
            return builtins.repr(x._resolve())
        if _has_sym(x):
            return V.draw_str('repr()')
        return builtins.repr(x)

    out = dict(len=s_len, max=s_max, min=s_min, abs=s_abs, repr=s_repr)
    out['str'] = _TypeShadow(builtins.str, s_str)
    # `bool`, `list`, `int`, `float` are also used as types (isinstance, annotations): shadow them
    # with callables that still work in isinstance() via __instancecheck__.
    out['bool'] = _TypeShadow(builtins.bool, s_bool)
    out['list'] = _TypeShadow(builtins.list, s_list)
    out['int'] = _TypeShadow(builtins.int, s_int)
    out['float'] = _TypeShadow(builtins.float, s_float)
    return out


class _TypeShadowMeta(type):
    def __instancecheck__(cls, inst):
        return builtins.isinstance(inst, cls._real)

    def __subclasscheck__(cls, sub):
        return builtins.issubclass(sub, cls._real)


def _TypeShadow(real, fn):
    class T(metaclass=_TypeShadowMeta):
        _real = real

        def __new__(cls, *a, **kw):
            return fn(*a, **kw)
    T.__name__ = real.__name__
    T.__qualname__ = real.__qualname__
    return T


def _hid(eng):
    h = getattr(eng, 'hid', '')
    return f'{h}.' if h else ''


class _Locals(dict):
    """The locals of the verified function as a loop contract sees them.  A contract names program variables (as
    loop invariants do in every deductive verifier); if the function no longer HAS a variable of that name (renamed,
    inlined), the contract cannot be evaluated: that is *undecided* (Unsupported), never a violation.  A variable the
    function has but that is unbound at this point reads as absent (`.get` -> default), as before."""
    def __init__(self, loc, known):
        super().__init__(loc)
        self._known = known

    def _check(self, name):
        if self._known is not None and isinstance(name, str) and name not in self._known and not dict.__contains__(self, name):
            raise Unsupported(f"loop contract refers to the local variable '{name}', which the function does not have (renamed or restructured?)")

    def get(self, name, default=None):
        self._check(name)
        return dict.get(self, name, default)

    def __getitem__(self, name):
        self._check(name)
        return dict.__getitem__(self, name)

    def __contains__(self, name):
        self._check(name)
        return dict.__contains__(self, name)


class _LoopRuntime:
    def __init__(self, loops: dict[int, LoopSpec], known: set | None = None):
        self.loops = loops
        self.known = known

    def head(self, k, loc, assigned=()):
        spec = self.loops[k]
        eng = E()
        bound_before = {n for n in assigned if n in loc}
        loc = _Locals(loc, self.known)
        if spec.at_entry is not None:
            spec.at_entry(loc)
        eng.ensure(f'{_hid(eng)}loop[{spec.name}].invariant@entry', spec.invariant(loc))
        if spec.dedup_key is not None and eng.mode == 'sym' and eng.shared is not None:
            key = ('loop', k, spec.dedup_key(loc))
            here = tuple(eng.taken)
            owner = eng.shared.setdefault(key, here)
            if owner != here:
                eng.dead = True
                raise PathEnd(f'loop {k}: iteration already explored from another entry path with the same key')
        new = dict(spec.havoc(loc) or {})
        for n in sorted(bound_before):
            if n not in new and not n.startswith('__vc'):
                new[n] = LoopCarried(n, spec.name or k)     # assigned in the body, bound at the head, not stated by the contract
        loc.update(new)
        eng.assume(spec.invariant(loc), f'loop[{spec.name}] invariant')
        if spec.variant is not None:
            eng._variants = getattr(eng, '_variants', {})
            eng._variants[k] = spec.variant(loc)
        eng.emit('loop-head', k)
        return new

    def back(self, k, loc):
        spec = self.loops[k]
        eng = E()
        loc = _Locals(loc, self.known)
        if spec.at_backedge is not None:
            spec.at_backedge(loc)
        eng.ensure(f'{_hid(eng)}loop[{spec.name}].invariant@backedge', spec.invariant(loc))
        if spec.variant is not None:
            v0 = eng._variants[k]
            v1 = spec.variant(loc)
            eng.ensure(f'{_hid(eng)}loop[{spec.name}].variant-decreases', V.And(v1 < v0, v0 >= 0))
        eng.backedge = True
        eng.dead = True
        raise PathEnd(f'back edge of loop {k}')

    async def next(self, k, loc, iterable):
        spec = self.loops[k]
        if spec.element is None:
            raise Unsupported(f'loop contract {spec.name} has no element() for a for-loop')
        r = spec.element(_Locals(loc, self.known), iterable)
        if hasattr(r, '__await__'):
            r = await r
        return r

    def next_sync(self, k, loc, iterable):
        spec = self.loops[k]
        if spec.element is None:
            raise Unsupported(f'loop contract {spec.name} has no element() for a for-loop')
        return spec.element(_Locals(loc, self.known), iterable)

    def exit(self, k, loc):
        spec = self.loops[k]
        if spec.on_exit is not None:
            spec.on_exit(_Locals(loc, self.known))


# ------------------------------------------------------------------------------------ coroutine driver
class Suspend:
    """Yielded by stub awaitables: a point where other tasks may run."""
    __slots__ = ('site', 'value', 'exc')

    def __init__(self, site=''):
        self.site = site

    def __await__(self):
        r = yield self
        return r


async def suspend(site: str = ''):
    """Await this inside an async stub: the driver havocs shared state here."""
    return await Suspend(site)


def drive(coro, on_suspend: Callable[[str], None] | None = None, max_steps: int = 10000):
    """
    Run a coroutine of the verified function to completion.  Every ``Suspend`` it yields is a
    scheduling point: `on_suspend(site)` is called (it havocs shared state under the rely
    condition, and may raise an exception *into* the coroutine, e.g. CancelledError, by returning
    an exception instance).
    """
    send_val = None
    throw = None
    for _ in range(max_steps):
        try:
            if throw is not None:
                exc, throw = throw, None
                y = coro.throw(exc)
            else:
                y = coro.send(send_val)
        except StopIteration as e:
            return e.value
        if not isinstance(y, Suspend):
            coro.close()
            raise Unsupported(f'the coroutine awaited a real (unstubbed) awaitable: {y!r}')
        send_val = None
        if on_suspend is not None:
            r = on_suspend(y.site)
            if isinstance(r, BaseException):
                throw = r
    coro.close()
    raise Unsupported('coroutine did not finish within the step budget')
