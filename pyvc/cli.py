"""./check <property|all|selftest|list> [--tier quick|thorough] [--replay FILE] [--repo DIR] [--jobs N]"""
from __future__ import annotations

import argparse
import concurrent.futures as cf
import dataclasses
import importlib
import json
import multiprocessing
import os
import pkgutil
import sys
import time
import traceback

VERIF = os.path.dirname(os.path.dirname(os.path.abspath(__file__)))


def _setup_repo(repo: str | None):
    if repo:
        repo = os.path.abspath(repo)
        os.environ['PYVC_REPO'] = repo
        sys.path.insert(0, repo)
    else:
        os.environ.setdefault('PYVC_REPO', '/repo')
        if os.environ['PYVC_REPO'] != '/repo':
            sys.path.insert(0, os.environ['PYVC_REPO'])
    # make sure `import kopf` really resolves to the tree under test
    import kopf
    real = os.path.realpath(os.path.dirname(os.path.dirname(kopf.__file__)))
    want = os.path.realpath(os.environ['PYVC_REPO'])
    if real != want:
        print(f'checker: kopf imported from {real}, expected {want}', file=sys.stderr)
        sys.exit(3)


def load_contracts():
    sys.path.insert(0, VERIF)
    import contracts
    wip_ok = os.environ.get('PYVC_WIP') == '1'
    accepted = set(getattr(contracts, 'ACCEPTED_WIP', ()))
    for m in sorted(pkgutil.iter_modules(contracts.__path__), key=lambda m: m.name):
        # work-in-progress contract files (w2_*.py ...) take part in ./check only once listed in contracts.ACCEPTED_WIP
        if m.name.startswith(tuple(getattr(contracts, 'WIP_PREFIXES', ()))) and not wip_ok and m.name not in accepted:
            continue
        try:
            importlib.import_module(f'contracts.{m.name}')
        except Exception as e:      # a broken contracts file must not take the other properties down with it
            BROKEN_MODULES[m.name] = f'{type(e).__name__}: {e}'
            print(f'checker: contracts/{m.name}.py failed to import: {type(e).__name__}: {e}', file=sys.stderr)
    from pyvc.harness import REGISTRY
    return REGISTRY


BROKEN_MODULES: dict[str, str] = {}


def _broken_for(prop: str) -> list[str]:
    return [f'contracts/{m}.py failed to import: {why}' for m, why in BROKEN_MODULES.items()
            if m.lower().startswith(prop.lower() + '_')]


def load_known():
    out = []
    p = os.path.join(VERIF, 'known_findings.json')
    if os.path.exists(p):
        out.extend(json.load(open(p)))
    d = os.path.join(VERIF, 'known_findings.d')
    if os.path.isdir(d):
        for f in sorted(os.listdir(d)):
            if f.endswith('.json'):
                out.extend(json.load(open(os.path.join(d, f))))
    return out


def _run_one(args):
    hid, tier, known_active, seed = args
    from pyvc.harness import REGISTRY, run_harness, HarnessResult
    h = REGISTRY[hid]
    try:
        if h.kind == 'vc':
            r = run_harness(h, tier=tier, known_active=set(known_active), seed=seed)
        else:
            from pyvc.bounded import run_bounded
            r = run_bounded(h, tier=tier, known_active=set(known_active), seed=seed)
        return dataclasses.asdict(r)
    except BaseException as e:   # the worker must always report
        return dict(id=hid, crash=f'{type(e).__name__}: {e}\n{traceback.format_exc(limit=20)}')


def _child(conn, args):
    try:
        conn.send(_run_one(args))
    finally:
        conn.close()


def _run_pool(tasks, jobs, tier):
    """One forked process per harness, at most `jobs` at a time, each under a WALL-CLOCK budget: a harness that does not come back
    (a solver call that ignores its time-out, an endless loop in changed code) is killed and reported as a checker error -- the
    check ends with a verdict-free exit code instead of hanging.  Results keep the order of `tasks`."""
    budget = float(os.environ.get('PYVC_HARNESS_WALL_S', 900 if tier == 'quick' else 4 * 3600))
    ctx = multiprocessing.get_context('fork')
    pending = list(enumerate(tasks))
    running = {}         # index -> (process, parent_conn, t0, args)
    out = {}
    while pending or running:
        while pending and len(running) < jobs:
            i, args = pending.pop(0)
            parent, child = ctx.Pipe(duplex=False)
            p = ctx.Process(target=_child, args=(child, args), daemon=True)
            p.start()
            child.close()
            running[i] = (p, parent, time.time(), args)
        progressed = False
        for i, (p, conn, t0, args) in list(running.items()):
            if conn.poll(0):
                try:
                    out[i] = conn.recv()
                except EOFError:
                    out[i] = dict(id=args[0], crash='the worker process ended without a result')
                p.join(5)
                del running[i]; progressed = True
            elif not p.is_alive():
                out[i] = dict(id=args[0], crash=f'the worker process died (exit code {p.exitcode})')
                del running[i]; progressed = True
            elif time.time() - t0 > budget:
                p.kill(); p.join(5)
                out[i] = dict(id=args[0], crash=f'no result within the wall-clock budget of {budget:.0f} s: killed (undecided, not a verdict)')
                del running[i]; progressed = True
        if not progressed:
            time.sleep(0.05)
    return [out[i] for i in range(len(tasks))]


def check_property(prop: str, tier: str, jobs: int, seed: int, only: list[str] | None = None) -> int:
    t0 = time.time()
    reg = load_contracts()
    known = load_known()
    known_active = sorted(k['id'] for k in known if k.get('status') == 'known')
    hs = [h for h in reg.values() if prop in h.props and (tier == 'thorough' or not h.heavy)]
    if only:
        hs = [h for h in hs if h.id in only]
    if not hs:
        print(f'checker: no contracts registered for {prop}', file=sys.stderr)
        return 3
    results = _run_pool([(h.id, tier, known_active, seed) for h in hs], max(1, min(jobs, len(hs))), tier)
    global _SENSITIVITY
    _SENSITIVITY = None
    if tier == 'thorough' and not only and os.path.realpath(os.environ.get('PYVC_REPO', '/repo')) == os.path.realpath('/repo') \
            and not os.environ.get('PYVC_NO_SENSITIVITY'):
        _SENSITIVITY = sensitivity(prop, jobs)
    return report(prop, tier, seed, results, known, time.time() - t0)


_SENSITIVITY = None


def sensitivity(prop: str, jobs: int) -> dict:
    """Thorough tier, informational (never changes the verdict or the exit code): does this check still see the known
    property-breaking changes?  Every seeded change of the property (seeded/<prop>-<n>/patch.diff: independently written
    changes that break the property while the test suite stays green) is applied to a scratch copy of /repo's current working
    tree and the property's quick check is run on it; each must end in VIOLATION.  A patch that no longer applies is skipped."""
    import glob, shutil, subprocess, tempfile
    out = {}
    for d in sorted(glob.glob(os.path.join(VERIF, 'seeded', f'{prop}-*'))):
        sid = os.path.basename(d)
        S = tempfile.mkdtemp(prefix='sens.', dir='/var/tmp')
        try:
            shutil.copytree(os.path.join(os.environ.get('PYVC_REPO', '/repo'), 'kopf'), os.path.join(S, 'kopf'))
            ap = subprocess.run(['patch', '-p1', '-s', '-d', S, '-i', os.path.join(d, 'patch.diff')], capture_output=True, text=True)
            if ap.returncode != 0:
                out[sid] = dict(status='skipped', why='patch does not apply to the current tree')
                continue
            p = subprocess.run([sys.executable, '-m', 'pyvc.cli', prop, '--tier', 'quick', '--repo', S, '--jobs', str(jobs)],
                               capture_output=True, text=True, cwd=VERIF, timeout=3600,
                               env={**os.environ, 'PYTHONHASHSEED': '0', 'VERIF_TIER': 'quick'})
            caught = sorted({l.split('replay=')[1].split()[0].rsplit('/', 1)[-1].replace('.json', '')
                             for l in p.stdout.splitlines() if l.startswith('VIOLATION') and 'replay=' in l})
            out[sid] = dict(status='caught' if (p.returncode == 1 and caught) else 'NOT-CAUGHT', exit=p.returncode, obligations=caught[:8])
        except Exception as e:     # informational stage: never let it break the check
            out[sid] = dict(status='skipped', why=f'{type(e).__name__}: {e}')
        finally:
            shutil.rmtree(S, ignore_errors=True)
    lost = [k for k, v in out.items() if v['status'] == 'NOT-CAUGHT']
    print(f"sensitivity: {sum(1 for v in out.values() if v['status'] == 'caught')} of {len(out)} seeded changes of {prop} detected"
          + (f"; NOT detected: {' '.join(lost)}" if lost else '')
          + (f"; skipped: {' '.join(k for k, v in out.items() if v['status'] == 'skipped')}" if any(v['status'] == 'skipped' for v in out.values()) else ''))
    return out


def report(prop, tier, seed, results, known, wall) -> int:
    from pyvc.harness import REGISTRY, replay
    known_by_id = {k['id']: k for k in known}
    known_active = {k['id'] for k in known if k.get('status') == 'known'}
    crashes = [r for r in results if 'crash' in r]
    results = [r for r in results if 'crash' not in r]
    n_ob = n_proved = n_unknown = n_known = 0
    violations = []        # (result, obligation dict)
    problems = []
    bounded_parts = []
    # a clause may be declared to count for some of the harness's properties only
    for r in results:
        cp = getattr(REGISTRY.get(r['id']), 'clause_props', None) or {}
        pc = (getattr(REGISTRY.get(r['id']), 'prop_clauses', None) or {}).get(prop)
        if cp or pc is not None:
            def counts(name, r=r, cp=cp, pc=pc):
                clause = name.split('.', 1)[1] if '.' in name else name
                if pc is not None and not any(clause == c or clause.startswith(c + '.') for c in pc) \
                        and not clause.startswith('loop[') and clause != 'no_unbound_variable':
                    return False
                for c, ps in cp.items():
                    if clause == c or clause.startswith(c + '.'):
                        return prop in ps
                return True
            r['obligations'] = [o for o in r['obligations'] if counts(o['name'])]
            r['by_clause'] = {k: v for k, v in r['by_clause'].items() if counts(k)}
    for r in results:
        for p in r['problems']:
            problems.append(f"{r['id']}: {p}")
        if r['kind'] != 'vc':
            bounded_parts.append(r)
        for o in r['obligations']:
            if o['canary']:
                continue
            if r['kind'] == 'vc':
                n_ob += 1
            if o['status'] == 'proved':
                n_proved += (r['kind'] == 'vc')
            elif o['status'] == 'unknown':
                n_unknown += 1
                problems.append(f"{r['id']}: obligation {o['name']} path {o['path']} undecided ({o['backend']})")
            elif o['status'] == 'known':
                n_known += 1
            elif o['status'] == 'refuted':
                violations.append((r, o))
    for c in crashes:
        problems.append(f"{c['id']}: CRASH {c['crash']}")
    for b in _broken_for(prop):
        problems.append('error: ' + b)

    # -- known findings (printed once per finding id)
    seen_known = {}
    for r in results:
        for o in r['obligations']:
            if o['status'] == 'known':
                for fid in o['note'].split(','):
                    seen_known.setdefault(fid, o)
    for fid, o in sorted(seen_known.items()):
        k = known_by_id.get(fid, {})
        print(f"KNOWN-FINDING: property={prop} {fid} {o['name']}: {k.get('what', '')}")

    # -- violations: replay each distinct obligation (first witness) on the real code
    exit_code = 0
    reported = set()
    os.makedirs(os.path.join(_outdir('replays'), prop), exist_ok=True)
    undecided_replays = []
    for r, o in violations:
        if o['name'] in reported:
            continue
        reported.add(o['name'])
        h = REGISTRY[r['id']]
        rp = dict(property=prop, obligation=o['name'], harness=r['id'], targets=r['targets'], path=o['path'],
                  backend=o['backend'], verifier_output=dict(status='sat (negated goal satisfiable)', smt2=o['goal_smt'][:20000]),
                  model=_jsonable(o['model']), decisions=o['decisions'])
        suffix = ''
        if r['kind'] != 'vc':
            rp['replay'] = dict(confirmed=True, note='bounded check: the witness is a concrete input evaluated on the real code')
        elif o['model'] is None:
            suffix = ' no-failing-input-found'
            rp['replay'] = dict(confirmed=None, note='no model')
        else:
            outcome, res, conc = replay(h, o['model'], o['decisions'], known_active)
            failed = [n for n, ok in conc if not ok]
            rp['replay'] = dict(outcome=outcome, result=_jsonable(res), failed_clauses=failed)
            if 'loop-cut' in (o.get('note') or '') or not h.replayable:
                suffix = ' no-failing-input-found'
                rp['replay']['note'] = ('inductive-step obligation: the model is a loop-head/suspension state, '
                                        'not an input of the function')
                clause = o['name'].split('.', 1)[1] if '.' in o['name'] else o['name']
                driver = h.native_replays.get(clause)
                if driver:
                    nat = _native_replay(driver)
                    rp['native_schedule_replay'] = nat
                    if nat.get('exit') == 1:        # the forced schedule exhibits the violation on the real code
                        suffix = ''
                        rp['replay']['confirmed'] = True
            elif o['name'] in failed:
                rp['replay']['confirmed'] = True
            else:
                # the real code does not exhibit it under CPython: encoding disagreement => undecided
                rp['replay']['confirmed'] = False
                undecided_replays.append(o['name'])
                path = os.path.join(_outdir('replays'), prop, _fname(o['name']) + '.undecided.json')
                json.dump(rp, open(path, 'w'), indent=1, default=str)
                problems.append(f"{r['id']}: {o['name']} refuted symbolically but the concrete replay satisfied it "
                                f"(encoding disagreement) -> undecided; see {path}")
                continue
        path = os.path.join(_outdir('replays'), prop, _fname(o['name']) + '.json')
        json.dump(rp, open(path, 'w'), indent=1, default=str)
        print(f'VIOLATION property={prop} replay={path}{suffix}')
        exit_code = 1

    if exit_code == 0 and problems:
        exit_code = 3 if (crashes or any('error:' in p or 'cross-check' in p or 'canary' in p for p in problems)) else 2

    write_evidence(prop, tier, seed, results, crashes, problems, n_ob, n_proved, n_known, len(reported), wall, bounded_parts, seen_known)
    for p in problems[:40]:
        print('problem:', p.split('\n')[0][:400], file=sys.stderr)
    st = {0: 'HELD', 1: 'VIOLATED', 2: 'UNDECIDED', 3: 'CHECKER-ERROR'}[exit_code]
    print(f'{prop} {tier}: {st}  obligations={n_ob} discharged={n_proved} known={n_known} '
          f'harnesses={len(results)} paths={sum(r["paths"] for r in results)} wall={wall:.1f}s')
    return exit_code


def _native_replay(driver: str) -> dict:
    """Run a schedule-forcing driver natively against the tree under check (exit 1 = violation exhibited)."""
    import subprocess
    repo = os.environ.get('PYVC_REPO', '/repo')
    try:
        p = subprocess.run(['/venv/bin/python', os.path.join(VERIF, driver)], cwd=repo, capture_output=True, text=True,
                           timeout=120, env={**os.environ, 'PYTHONPATH': repo})
        return dict(driver=driver, exit=p.returncode, output=(p.stdout + p.stderr)[-2000:])
    except Exception as e:
        return dict(driver=driver, exit=None, output=f'{type(e).__name__}: {e}')


def _fname(s):
    return ''.join(c if c.isalnum() or c in '._-' else '_' for c in s)


def _jsonable(x):
    import fractions
    if isinstance(x, dict):
        return {str(k): _jsonable(v) for k, v in x.items()}
    if isinstance(x, (list, tuple)):
        return [_jsonable(v) for v in x]
    if isinstance(x, fractions.Fraction):
        return float(x) if x.denominator != 1 else int(x)
    if isinstance(x, (str, int, float, bool)) or x is None:
        return x
    return repr(x)


def write_evidence(prop, tier, seed, results, crashes, problems, n_ob, n_proved, n_known, n_viol, wall, bounded_parts, seen_known):
    import z3
    vc = [r for r in results if r['kind'] == 'vc']
    from pyvc.harness import REGISTRY as _REG
    sized = [r['id'] for r in vc if getattr(_REG.get(r['id']), 'sizes_only', False)]
    all_proof = bool(vc) and not bounded_parts and not sized and n_known == 0 and n_proved == n_ob
    functions = []
    for r in results:
        for s in r['sources']:
            functions.append(dict(file=s[0], function=s[1], lines=[s[2], s[3]], harness=r['id'], tier=('P' if r['kind'] == 'vc' and r['id'] not in sized else 'B')))
    per_clause = {}
    for r in results:
        for k, v in r['by_clause'].items():
            per_clause[k] = v
    samples = []
    for r in results:
        samples.extend(r['samples'][:2])
    backends = sorted({o['backend'] for r in vc for o in r['obligations'] if not o['canary']})
    by_backend = {}
    for r in vc:
        for o in r['obligations']:
            if not o['canary'] and o['status'] == 'proved':
                by_backend[o['backend']] = by_backend.get(o['backend'], 0) + 1
    trusted = sorted({a for r in results for a in r['assumptions']})
    stubs = sorted({a for r in results for a in r['stubs_used']})
    coverage = dict(
        obligations=n_ob, discharged=n_proved,
        checker_cmd=f'./check {prop} --tier {tier}',
        trusted_base=[f'z3 {z3.get_version_string()} (python API), cvc5 1.0.3 / z3 4.8.12 CLIs for unknowns',
                      'pyvc proxy-value encoding of Python semantics (validated per run by the CPython cross-check)',
                      'CPython 3.12'] + trusted,
        functions_under_contract=functions,
        callees_by_contract=stubs,
        per_clause=per_clause,
        paths=sum(r['paths'] for r in results),
        traces_validated_against_impl=sum(r['crosschecked'] for r in vc),
        canaries_refuted=sum(1 for r in results for ok in r['canaries_refuted'].values() if ok),
        solver_time_s=round(sum(r['solver_s'] for r in results), 3),
        backends=backends,
        discharged_by_backend=by_backend,
        known_findings_hit=sorted(seen_known),
        problems=[p.split('\n')[0][:300] for p in problems][:50],
        samples=samples or [dict(note='no sample')],
        per_harness=[dict(id=r['id'], kind=r['kind'], targets=r['targets'], paths=r['paths'], wall_s=round(r['wall_s'], 2),
                          obligations=sum(1 for o in r['obligations'] if not o['canary']), extra=r.get('extra', {}))
                     for r in results],
    )
    if sized:
        coverage['sizes_only_harnesses'] = dict(ids=sized, note='every loop of the target runs natively over concrete containers of the sizes stated in the harness: exhaustive for those sizes, labelled B, not counted as proved for all sizes')
    if _SENSITIVITY is not None:
        coverage['sensitivity_to_seeded_changes'] = _SENSITIVITY
    if bounded_parts:
        ev = sum(r['extra'].get('evaluations', 0) for r in bounded_parts)
        dn = sum(r['extra'].get('distinct_nontrivial', 0) for r in bounded_parts)
        coverage.update(
            explanation=(f'contract checking: {n_proved} deductively discharged obligations (all paths, all inputs of the '
                         f'declared domains) + {len(bounded_parts)} bounded stand-ins (labelled B, never counted as proved)'),
            evaluations=ev, distinct_nontrivial=dn,
            rule='bounded parts: see per_harness[].extra.universe; a case is non-trivial when the contract antecedent holds',
            bounded=[dict(id=r['id'], targets=r['targets'], **r['extra']) for r in bounded_parts],
            exhaustive=all(r['extra'].get('exhaustive', False) for r in bounded_parts),
        )
    evd = dict(
        property_id=prop, tier=tier, seed=seed,
        level='proof' if all_proof else 'other',
        coverage=coverage,
        assumptions=trusted + _standing_assumptions(),
        wall_s=round(wall, 2), violations=n_viol,
    )
    if not all_proof and 'explanation' not in coverage:
        coverage['explanation'] = (f'{n_proved} of {n_ob} deductive obligations discharged; {n_known} lie inside the classes of '
                                   f'genuine defects of the code recorded in /verif/known_findings*.json (printed as KNOWN-FINDING)')
        coverage.setdefault('evaluations', n_ob)
        coverage.setdefault('distinct_nontrivial', len(per_clause))
        coverage.setdefault('rule', 'one evaluation = one obligation (path x clause); distinct = distinct named clauses')
    os.makedirs(_outdir('evidence'), exist_ok=True)
    with open(os.path.join(_outdir('evidence'), f'{prop}.json'), 'w') as f:
        json.dump(evd, f, indent=1, default=str)


def _outdir(kind: str) -> str:
    """evidence/ and replays/ belong to runs against /repo itself; runs against a scratch copy (--repo) write elsewhere."""
    if os.path.realpath(os.environ.get('PYVC_REPO', '/repo')) == os.path.realpath('/repo'):
        return os.path.join(VERIF, kind)
    return os.path.join(VERIF, '.scratch', kind)


def _standing_assumptions():
    return [
        'python int = mathematical integer; float = mathematical real (no rounding/NaN/inf)',
        'Optional/enum inputs case-split exhaustively; str = z3 string; JSON = recursive datatype with string keys',
        'parameters do not alias unless the harness says so; logging and repr/str of logged objects have no side effects',
        'loops under a loop contract are verified by invariant (entry, preservation); termination only where a variant is given',
        'await = suspension point: shared state havocked under the stated rely condition',
        'callees replaced by contracts are listed in coverage.callees_by_contract; each is discharged by the harness named there or listed as trusted',
    ]


def main(argv=None):
    ap = argparse.ArgumentParser()
    ap.add_argument('what')
    ap.add_argument('--tier', default=os.environ.get('VERIF_TIER') or 'quick')
    ap.add_argument('--replay')
    ap.add_argument('--repo')
    ap.add_argument('--jobs', type=int, default=int(os.environ.get('VERIF_JOBS', '16')))
    ap.add_argument('--only', action='append')
    a = ap.parse_args(argv)
    if os.environ.get('VERIF_TIER'):
        a.tier = os.environ['VERIF_TIER']
    seed = int(os.environ.get('VERIF_SEED', '0') or 0)
    os.environ.setdefault('PYVC_SCRATCH', os.path.join(VERIF, '.scratch'))
    os.makedirs(os.environ['PYVC_SCRATCH'], exist_ok=True)
    _setup_repo(a.repo)
    if a.what == 'list':
        for h in load_contracts().values():
            print(h.id, h.kind, h.props, h.targets)
        return 0
    if a.what == 'selftest':
        from pyvc.selftest import selftest
        return selftest(a.tier, a.jobs)
    if a.replay:
        return do_replay(a.what, a.replay)
    if a.what == 'all':
        rc = 0
        props = sorted({p for h in load_contracts().values() for p in h.props})
        for p in props:
            rc = max(rc, check_property(p, a.tier, a.jobs, seed))
        return rc
    return check_property(a.what, a.tier, a.jobs, seed, a.only)


def do_replay(prop, path):
    from pyvc.harness import REGISTRY, replay
    load_contracts()
    rp = json.load(open(path))
    h = REGISTRY[rp['harness']]
    known_active = {k['id'] for k in load_known() if k.get('status') == 'known'}
    if rp.get('model') is None:
        print('no model in the replay file; verifier output:\n', rp['verifier_output']['smt2'][:2000])
        return 1
    model = _unjson_model(rp['model'])
    outcome, res, conc = replay(h, model, rp['decisions'], known_active)
    failed = [n for n, ok in conc if not ok]
    print(f'replay of {rp["obligation"]}: outcome={outcome} result={res!r} failed_clauses={failed}')
    return 1 if rp['obligation'] in failed else 0


def _unjson_model(m):
    import fractions
    out = {}
    for k, v in m.items():
        if isinstance(v, float):
            v = fractions.Fraction(repr(v))
        out[k] = v
    return out


if __name__ == '__main__':
    sys.exit(main())
