"""
pyvc.ext_c13 -- helper for contracts/c13_peering.py: *abstract collections*.

The peering code works on a status mapping of arbitrary size through list comprehensions
(``[Peer(...) for opid, opinfo in pairs.items()]``, ``[peer for peer in peers if peer.is_dead]`` ...).
Comprehensions cannot take a loop contract, so this module gives them a meaning over a collection of
*unknown* size:

* `Records`  -- n >= 0 records (n symbolic); every attribute is a z3 array  index -> value;
* `AColl`    -- a finite collection  { elem_k(i) | 0 <= i < n, guard_k(i) }  for finitely many *pieces* k
                (element templates evaluated once over the bound index `i`);
* `load()`   -- `pyvc.loader.load` with one more rewrite (R7, opt-in, only for functions loaded through
                this module):  ``[elt for tgt in it if c1 if c2]`` with a single synchronous generator becomes
                ``__vc_comp__(it, lambda tgt: elt, [lambda tgt: c1, ...])`` and, inside elt/conditions only,
                ``not a`` / ``a and b`` / ``a or b`` become non-forking combinators.  For ordinary iterables
                ``__vc_comp__`` runs the ordinary comprehension; for an `AColl` it maps/filters the pieces:
                the element/condition code is executed ONCE per piece on the template element and must not
                fork on it (checked: any path-condition growth raises Unsupported -> undecided, never wrong).
  Emptiness tests (`if coll:`) fork on  ``exists i. 0<=i<n and guard(i)``;  `a + b` concatenates pieces.
  `len()`, indexing and native iteration of an AColl are Unsupported.

Concrete mode (CPython cross-check / replay): a `Records` is an ordinary list built from the model (the first
K records are captured as named draws; `prefer_small` steers the path-end model to n <= K), and the
comprehensions run natively, so the quantified encoding is validated against real list semantics.
"""
from __future__ import annotations

import ast

import z3

from ._safe import isinstance
from . import loader as _loader
from . import values as V
from .engine import E, Unsupported

K_CAPTURED = 3


# ------------------------------------------------------------------------------------ records
class Records:
    """n records with named attributes of sorts 'int' | 'real' | 'str' | 'bool'."""

    def __init__(self, name: str, attrs: dict[str, str]):
        eng = E()
        self.name = name
        self.attrs = dict(attrs)
        self.concrete = eng.mode == 'conc'
        self.n = V.draw_int(f'{name}.n')
        eng.assume(self.n >= 0, f'{name}: a collection has a non-negative size')
        sorts = {'int': z3.IntSort(), 'real': z3.RealSort(), 'str': z3.StringSort(), 'bool': z3.BoolSort()}
        if self.concrete:
            if self.n > K_CAPTURED:
                raise Unsupported(f'{name}: the model has {self.n} > {K_CAPTURED} records: not replayable concretely')
            self.rows = []
            for i in range(self.n):
                row = {}
                for a, kind in attrs.items():
                    key = f'{name}.{a}[{i}]'
                    row[a] = eng.model[key] if key in eng.model else _default(kind)
                self.rows.append(row)
            return
        self.iv = z3.Int(f'{name}!i')
        self.arr = {a: z3.Const(f'{name}.{a}', z3.ArraySort(z3.IntSort(), sorts[kind])) for a, kind in attrs.items()}
        for i in range(K_CAPTURED):
            for a in attrs:
                eng.draws.append((f'{name}.{a}[{i}]', z3.Select(self.arr[a], i)))

    # -- attribute of record i (i: the bound index in symbolic mode, a python int in concrete mode)
    def get(self, a, i):
        if self.concrete:
            return self.rows[i][a]
        t = z3.Select(self.arr[a], i.term if isinstance(i, V.SNum) else i)
        kind = self.attrs[a]
        if kind == 'int':
            return V.SNum(t, True)
        if kind == 'real':
            return V.SNum(t, False)
        if kind == 'str':
            return V.SStr(t)
        return V.SBool(t)

    @property
    def index(self):
        """The bound index variable (symbolic mode)."""
        return V.SNum(self.iv, True)

    def _in_range(self):
        return z3.And(self.iv >= 0, self.iv < self.n.term)

    # -- quantifiers for specifications: pred(i) -> SBool/bool
    def exists(self, pred):
        if self.concrete:
            return any(bool(pred(i)) for i in range(self.n))
        return V.SBool(z3.Exists([self.iv], z3.And(self._in_range(), V.tobool(pred(self.index)))))

    def forall(self, pred):
        if self.concrete:
            return all(bool(pred(i)) for i in range(self.n))
        return V.SBool(z3.ForAll([self.iv], z3.Implies(self._in_range(), V.tobool(pred(self.index)))))

    def collection(self, make_elems):
        """
        The collection of all records.  make_elems(i) -> [(guard, element)]: the finitely many templates a
        record can instantiate (e.g. one per *shape* of a mapping: which keys are present).
        Concrete mode: for each record the element of the first template whose guard holds.
        """
        if self.concrete:
            out = []
            for i in range(self.n):
                for g, e in make_elems(i):
                    if bool(g):
                        out.append(e)
                        break
                else:
                    raise Unsupported('record matches no template')
            return out
        return AColl(self, [(g, e) for g, e in make_elems(self.index)], unique=True)

    def prefer_small(self):
        """Call at the very end of a path: steer the path-end model (cross-check input) to n <= K."""
        eng = E()
        if self.concrete or eng.dead:
            return
        c = self.n.term <= K_CAPTURED
        if eng._check(c) == z3.sat:
            eng._add(c)

    def small(self):
        """n <= K (symbolic): `ensure(Or(cond, Not(small)))` first gives replayable counterexamples."""
        return True if self.concrete else V.SBool(self.n.term <= K_CAPTURED)


def _default(kind):
    return {'int': 0, 'real': 0, 'str': '', 'bool': False}[kind]


# ------------------------------------------------------------------------------------ abstract collection
class AColl:
    """{ elem_k(i) | 0 <= i < n, guard_k(i) } over the bound index of `base` (see the module docstring)."""
    _pyvc_abstract = True

    def __init__(self, base: Records, pieces, unique: bool):
        self.base = base
        self.pieces = list(pieces)
        self.unique = unique        # every record contributes at most one element
        self._decided = None

    def _vc_comp(self, elt, conds):
        eng = E()
        out = []
        for g, e in self.pieces:
            mark = (len(eng.pc), len(eng.taken))
            cs = [c(e) for c in conds]
            x = elt(e)
            if (len(eng.pc), len(eng.taken)) != mark:
                raise Unsupported('a comprehension over an abstract collection decided a condition on its '
                                  'element template (not uniform in the element)')
            for c in cs:
                if not isinstance(c, (bool, V.SBool)):
                    raise Unsupported(f'comprehension condition of type {type(c).__name__} over an abstract collection')
            out.append((V.And(g, *cs), x))
        return AColl(self.base, out, self.unique)

    def member(self):
        """guard(i): record i contributes an element (term over the bound index)."""
        return V.Or(*[g for g, _ in self.pieces]) if self.pieces else False

    def nonempty(self):
        return self.base.exists(lambda i: self.member())

    def __bool__(self):
        # decided once per path and object: the decision is part of the path condition from then on
        if self._decided is None:
            r = self.nonempty()
            self._decided = r if isinstance(r, bool) else E().branch(r.term)
        return self._decided

    def truth(self):
        return self.nonempty()

    def __add__(self, other):
        if not isinstance(other, AColl) or other.base is not self.base:
            raise Unsupported('concatenation of an abstract collection with something else')
        return AColl(self.base, self.pieces + other.pieces, unique=False)

    def __len__(self):
        raise Unsupported('len() of an abstract collection')

    def __iter__(self):
        raise Unsupported('native iteration over an abstract collection')

    def __getitem__(self, k):
        raise Unsupported('indexing an abstract collection')

    def __repr__(self):
        return f'<AColl of {self.base.name}: {len(self.pieces)} pieces>'

    def __format__(self, spec):
        return repr(self)

    # -- specification helpers
    def forall_elems(self, pred):
        """forall i in range, every piece k: guard_k(i) -> pred(elem_k, i)"""
        return self.base.forall(lambda i: V.And(*[V.Implies(g, pred(e, i)) for g, e in self.pieces]))

    def exists_elem(self, pred):
        return self.base.exists(lambda i: V.Or(*[V.And(g, pred(e, i)) for g, e in self.pieces]) if self.pieces else False)


def is_abstract(x) -> bool:
    return isinstance(x, AColl)


def coll_is(coll, base: Records, member, key, keyspec):
    """
    Spec: `coll` (an AColl in symbolic mode, a real list in concrete mode) consists of exactly one element per
    record i with member(i), and key(element) == keyspec(i) for it.
    """
    if isinstance(coll, AColl):
        if coll.base is not base:
            return False
        return V.And(coll.unique,
                     base.forall(lambda i: V.Iff(coll.member(), member(i))),
                     coll.forall_elems(lambda e, i: V.Eq(key(e), keyspec(i))))
    got = sorted(repr(key(e)) for e in coll)
    want = sorted(repr(keyspec(i)) for i in range(base.n) if bool(member(i)))
    return got == want


def coll_min(coll, value=lambda e: e):
    """
    Contract of ``min(...)`` over a non-empty abstract collection of numbers: a fresh real m with
    m <= every element and m == some element.  (Caller has already decided non-emptiness.)
    """
    if not isinstance(coll, AColl):
        raise TypeError('coll_min is for abstract collections')
    eng = E()
    m = V.draw_real('min')
    eng.assume(coll.forall_elems(lambda e, i: m <= value(e)), 'min: lower bound of all elements')
    eng.assume(coll.exists_elem(lambda e, i: V.Eq(m, value(e))), 'min: attained by an element')
    return m


# ------------------------------------------------------------------------------------ the extra rewrite (R7)
class _CompRewriter(_loader._Rewriter):
    def __init__(self, *a, **kw):
        super().__init__(*a, **kw)
        self.in_comp = 0

    @staticmethod
    def _eligible(node: ast.ListComp) -> bool:
        if len(node.generators) != 1 or node.generators[0].is_async:
            return False
        tgt = node.generators[0].target
        if not (isinstance(tgt, ast.Name) or (isinstance(tgt, ast.Tuple) and all(isinstance(e, ast.Name) for e in tgt.elts))):
            return False
        for sub in ast.walk(node):
            if isinstance(sub, (ast.Await, ast.Yield, ast.YieldFrom, ast.NamedExpr)):
                return False
            if sub is not node and isinstance(sub, (ast.ListComp, ast.SetComp, ast.DictComp, ast.GeneratorExp, ast.Lambda)):
                return False
        return True

    def visit_ListComp(self, node):
        if not self._eligible(node):
            self.generic_visit(node)
            return node
        gen = node.generators[0]
        it = self.visit(gen.iter)
        self.in_comp += 1
        elt = self.visit(node.elt)
        ifs = [self.visit(c) for c in gen.ifs]
        self.in_comp -= 1

        def lam(body):
            if isinstance(gen.target, ast.Name):
                return ast.Lambda(args=_args([gen.target.id]), body=body)
            inner = ast.Lambda(args=_args([e.id for e in gen.target.elts]), body=body)
            call = ast.Call(func=inner, args=[ast.Starred(value=ast.Name('__vc_t', ast.Load()), ctx=ast.Load())], keywords=[])
            return ast.Lambda(args=_args(['__vc_t']), body=call)
        new = ast.Call(func=ast.Name('__vc_comp__', ast.Load()),
                       args=[it, lam(elt), ast.List(elts=[lam(c) for c in ifs], ctx=ast.Load())], keywords=[])
        return ast.copy_location(new, node)

    def visit_BoolOp(self, node):
        self.generic_visit(node)
        if not self.in_comp:
            return node
        fn = '__vc_and__' if isinstance(node.op, ast.And) else '__vc_or__'
        thunks = [ast.Lambda(args=_args([]), body=v) for v in node.values]
        return ast.copy_location(ast.Call(func=ast.Name(fn, ast.Load()), args=thunks, keywords=[]), node)

    def visit_UnaryOp(self, node):
        self.generic_visit(node)
        if self.in_comp and isinstance(node.op, ast.Not):
            return ast.copy_location(ast.Call(func=ast.Name('__vc_not__', ast.Load()), args=[node.operand], keywords=[]), node)
        return node

    def visit_Compare(self, node):
        r = super().visit_Compare(node)
        if self.in_comp and isinstance(r, ast.UnaryOp) and isinstance(r.op, ast.Not):
            return ast.copy_location(ast.Call(func=ast.Name('__vc_not__', ast.Load()), args=[r.operand], keywords=[]), node)
        return r


def _args(names):
    return ast.arguments(posonlyargs=[], args=[ast.arg(arg=n) for n in names], kwonlyargs=[], kw_defaults=[], defaults=[])


def _vc_comp(it, elt, conds):
    h = getattr(type(it), '_vc_comp', None)
    if h is not None:
        return h(it, elt, conds)
    return [elt(x) for x in it if all(c(x) for c in conds)]


def _vc_not(x):
    return V.Not(x) if isinstance(x, V.SV) else (not x)


def _vc_and(*thunks):
    """`a and b and ...` without forking: exact Python semantics while the operands are concrete; once a
    symbolic bool has been seen every later operand must be a (symbolic) bool and the result is the conjunction."""
    sym = []
    last = True
    for t in thunks:
        v = t()
        if isinstance(v, V.SV):
            if not isinstance(v, V.SBool):
                raise Unsupported('`and` over a non-boolean symbolic operand inside a comprehension')
            sym.append(v)
        elif sym:
            if not isinstance(v, bool):
                raise Unsupported('value-returning `and` after a symbolic operand inside a comprehension')
            if not v:
                return False
        else:
            if not v:
                return v
            last = v
    return V.And(*sym) if sym else last


def _vc_or(*thunks):
    sym = []
    last = False
    for t in thunks:
        v = t()
        if isinstance(v, V.SV):
            if not isinstance(v, V.SBool):
                raise Unsupported('`or` over a non-boolean symbolic operand inside a comprehension')
            sym.append(v)
        elif sym:
            if not isinstance(v, bool):
                raise Unsupported('value-returning `or` after a symbolic operand inside a comprehension')
            if v:
                return True
        else:
            if v:
                return v
            last = v
    return V.Or(*sym) if sym else last


_MARK = ('__abstract_comps__',)


def load(modname: str, qualname: str, **kw) -> _loader.Loaded:
    """pyvc.loader.load + rewrite R7 (see the module docstring); everything else is identical."""
    extra = dict(kw.pop('extra_ns', None) or {})
    extra.update({'__vc_comp__': _vc_comp, '__vc_not__': _vc_not, '__vc_and__': _vc_and, '__vc_or__': _vc_or})
    old = _loader._Rewriter
    _loader._Rewriter = _CompRewriter
    try:
        # the marker in strip_decorators keeps the code cache of the plain loader separate
        return _loader.load(modname, qualname, strip_decorators=_loader._STRIP_DEFAULT + _MARK, extra_ns=extra, **kw)
    finally:
        _loader._Rewriter = old
