"""
pyvc.engine -- path-enumerating VC generator.

One *run* executes a harness (plain Python) once under a vector of branch decisions.  The harness
loads the real function from /repo (see loader.py), feeds it symbolic proxy values (values.py) and
states obligations.  Whenever the executed code needs a concrete truth value of a symbolic boolean
(`if`, `and`, `not`, `while`, ...) the proxy's ``__bool__`` calls :meth:`Engine.branch`, which asks
the solver whether both sides are feasible under the current path condition and, if so, consults
the decision vector.  The driver (:func:`explore`) enumerates the decision tree depth-first by
re-execution, so every feasible path of the real code is covered; each obligation is discharged at
the point where it is stated as ``unsat(pc and not goal)``.

The same harness also runs in *concrete* mode (``Engine(model=...)``): every symbolic draw is
replaced by the value a solver model gives it and the code runs as ordinary Python.  That is used
for (a) the CPython cross-check of every explored path and (b) the replay of counterexamples.
"""
from __future__ import annotations

from ._safe import isinstance

import contextvars
import dataclasses
import fractions
import os
import subprocess
import tempfile
import time
from typing import Any, Callable

import z3

# deterministic solver behaviour: same queries -> same models, run after run
z3.set_param('smt.random_seed', 0)
z3.set_param('sat.random_seed', 0)

_current: contextvars.ContextVar['Engine'] = contextvars.ContextVar('pyvc_engine')


def E() -> 'Engine':
    return _current.get()


class PathEnd(BaseException):
    """The current path stops here (assumption infeasible, loop back-edge reached, ...)."""


_FIRST_MS = int(os.environ.get('PYVC_Z3_FIRST_MS', '700'))


class Unsupported(Exception):
    """The engine met something it does not model: the function is *undecided*, never a violation."""


class FuelExhausted(Unsupported):
    pass


@dataclasses.dataclass
class Obligation:
    name: str                 # stable clause name, e.g. 'K1.precedence'
    path: int                 # path ordinal it was stated on
    status: str               # 'proved' | 'refuted' | 'unknown'
    backend: str
    ms: float
    goal_smt: str = ''        # SMT-LIB text of the negated goal (sample / replay file)
    model: dict | None = None   # for refuted ones: draw name -> python value
    decisions: list | None = None
    note: str = ''
    canary: bool = False


class Engine:
    def __init__(self, choices=(), *, model: dict | None = None, decisions=None,
                 timeout_ms: int = 10000, path_no: int = 0, fuel: int = 200000, shared: dict | None = None):
        self.mode = 'conc' if model is not None else 'sym'
        self.model = model
        self.choices = list(choices if decisions is None else decisions)
        self.taken: list[tuple[int, int, str]] = []     # (n_options, chosen, 'b'|'n') at every real fork
        self.pc: list[z3.BoolRef] = []
        self.solver = z3.Solver()
        self.solver.set('timeout', timeout_ms)
        self.timeout_ms = timeout_ms
        self.obligations: list[Obligation] = []
        self.trace: list[Any] = []                 # ghost events (harness-defined tuples)
        self.draws: list[tuple[str, Any]] = []     # (name, z3 const) in draw order
        self.names: dict[str, int] = {}
        self.shared = shared          # persists across the paths of one harness run (loop-head de-duplication)
        self.want_sample = False      # capture the SMT-LIB text of the first discharged obligation (evidence sample)
        self.sample = None
        self.dead = False
        self.no_crosscheck = ''       # set when the path used an uninterpreted abstraction (its model is not an execution)
        self.backedge = False
        self.path_no = path_no
        self.fuel = fuel
        self.solver_s = 0.0
        self.assumptions: set[str] = set()
        self.stubs_used: set[str] = set()
        self.conc_results: list[tuple[str, bool]] = []   # concrete mode: (name, held)

    # ----------------------------------------------------------------- draws
    def _name(self, base: str) -> str:
        n = self.names.get(base, 0)
        self.names[base] = n + 1
        return base if n == 0 else f'{base}!{n}'

    def draw(self, base: str, sort) -> Any:
        """A fresh symbolic constant (sym mode) or its model value (conc mode)."""
        name = self._name(base)
        if self.mode == 'conc':
            if name not in self.model:
                return _default_for_sort(sort)
            return self.model[name]
        c = z3.Const(name, sort)
        self.draws.append((name, c))
        return c

    # ----------------------------------------------------------------- forks
    def _check(self, *extra) -> z3.CheckSatResult:
        t0 = time.time()
        self.solver.push()
        try:
            self.solver.add(*extra)
            return self.solver.check()
        finally:
            self.solver.pop()
            self.solver_s += time.time() - t0

    def tick(self) -> None:
        self.fuel -= 1
        if self.fuel <= 0:
            raise FuelExhausted('fuel exhausted (unbounded native loop over symbolic state?)')

    def branch(self, cond) -> bool:
        """Decide a symbolic boolean; forks when both sides are feasible."""
        self.tick()
        if isinstance(cond, bool):
            return cond
        cond = z3.simplify(cond)
        if z3.is_true(cond):
            return True
        if z3.is_false(cond):
            return False
        if self.dead:
            return True
        can_t = self._check(cond) != z3.unsat
        can_f = self._check(z3.Not(cond)) != z3.unsat
        if can_t and can_f:
            c = self._choose(2, 'b') == 0
        elif can_t:
            c = True
        elif can_f:
            c = False
        else:
            self.dead = True
            raise PathEnd('path condition became infeasible')
        self._add(cond if c else z3.Not(cond))
        return c

    def _choose(self, n: int, kind: str) -> int:
        if self.mode == 'conc':
            # only explicit nondet() choices exist in concrete mode; replay the recorded ones in order
            i = self._nd_i = getattr(self, '_nd_i', -1) + 1
            return self.choices[i] if i < len(self.choices) else 0
        i = len(self.taken)
        c = self.choices[i] if i < len(self.choices) else 0
        self.taken.append((n, c, kind))
        return c

    def nondet(self, n: int, label: str = '') -> int:
        """n-way non-deterministic choice (callee outcome kinds, Optional/enum case splits)."""
        self.tick()
        if n <= 1:
            return 0
        if self.dead:
            return 0
        return self._choose(n, 'n')

    def _add(self, c) -> None:
        self.pc.append(c)
        self.solver.add(c)

    def assume(self, cond, why: str = '') -> None:
        """Restrict the path (preconditions, callee postconditions, rely conditions)."""
        cond = _term(cond)
        if isinstance(cond, bool):
            if not cond:
                self.dead = True
                raise PathEnd(f'assumption false: {why}')
            return
        if self.dead:
            return
        if self._check(cond) == z3.unsat:
            self.dead = True
            raise PathEnd(f'assumption infeasible: {why}')
        self._add(cond)

    # ----------------------------------------------------------------- obligations
    def ensure(self, name: str, cond, *, canary: bool = False, note: str = '', z3_ms: int | None = None) -> None:
        """State an obligation: under the current path condition `cond` must hold.
        `z3_ms`: a shorter budget for the in-process z3 on this obligation (word equations, where cvc5 is the
        solver that decides them: hand over quickly instead of waiting for z3's full time-out)."""
        if self.dead:
            return
        cond = _term(cond)
        if self.mode == 'conc':
            self.conc_results.append((name, bool(cond)))
            return
        t0 = time.time()
        if isinstance(cond, bool):
            st, backend, model, smt = ('proved' if cond else 'refuted'), 'const', None, ''
            if not cond:
                model = self.current_model()
        else:
            neg = z3.Not(cond)
            self.solver.push()
            self.solver.add(neg)
            # first a SHORT budget for the in-process z3 (most obligations take milliseconds; z3's sequence/string solver is
            # erratic on the rest: the same query takes 0.1 s or 40 s), then cvc5 and the z3 4.8 CLI with the full budget,
            # and only then the in-process z3 again with the full budget
            first_ms = min(z3_ms if z3_ms is not None else _FIRST_MS, self.timeout_ms)
            self.solver.set('timeout', first_ms)
            r = self.solver.check()
            self.solver.set('timeout', self.timeout_ms)
            smt = ''
            model = None
            backend = 'z3-' + z3.get_version_string()
            if r == z3.unsat:
                st = 'proved'
                if self.want_sample and not canary:
                    self.want_sample = False
                    self.sample = dict(obligation=name, path=self.path_no, verdict='unsat (path-condition AND NOT goal)',
                                       smt2=self.solver.to_smt2()[:3000])
            elif r == z3.sat:
                st = 'refuted'
                model = self._extract_model(self.finite_model())
            else:
                # a RACE: cvc5 and the z3 4.8 CLI run on the exported query while the in-process z3 tries again with the full
                # budget; whoever decides first wins (an `unsat` from a CLI interrupts the in-process run)
                smt = self.solver.to_smt2()
                race = _ExternalRace(smt, self.timeout_ms, self.solver.ctx)
                r2 = z3.unknown
                try:
                    race.in_check = True
                    r2 = self.solver.check() if first_ms < self.timeout_ms else z3.unknown
                finally:
                    race.in_check = False
                    ext_st, ext_backend = race.finish(wait=(r2 == z3.unknown))
                if r2 == z3.unsat:
                    st, backend = 'proved', 'z3-' + z3.get_version_string()
                elif r2 == z3.sat:
                    st, backend = 'refuted', 'z3-' + z3.get_version_string()
                    model = self._extract_model(self.finite_model())
                else:
                    st, backend = ext_st, ext_backend
                if st == 'unknown':
                    # last resort against the erratic sequence/string solver and a busy machine: the same query in a FRESH solver
                    # with other random seeds (only `unsat` and `sat` with a model count; still unknown -> undecided, exit 2)
                    for seed in (7, 23, 101):
                        fresh = z3.Solver(ctx=self.solver.ctx)
                        fresh.set('timeout', self.timeout_ms)
                        fresh.set('random_seed', seed)
                        for a in self.solver.assertions():
                            fresh.add(a)
                        r3 = fresh.check()
                        if r3 == z3.unsat:
                            st, backend = 'proved', f'z3-{z3.get_version_string()}(seed {seed})'
                            break
                        if r3 == z3.sat:
                            # let the main solver produce the model in its own (incremental) state, bounded by its budget
                            if self.solver.check() == z3.sat:
                                st, backend = 'refuted', f'z3-{z3.get_version_string()}(seed {seed})'
                                model = self._extract_model(self.finite_model())
                            break
                if st == 'refuted' and model is None and not canary:
                    # (a canary only needs "satisfiable": a CLI `sat` is enough to show that the path is not vacuous)
                    st = 'unknown'   # no model in hand from the CLI: never report as a violation
                    backend += '(sat-without-model)'
            if st != 'proved' and not smt:
                smt = self.solver.to_smt2()
            self.solver.pop()
        ms = (time.time() - t0) * 1000
        self.solver_s += ms / 1000
        if any(ev and ev[0] == 'loop-head' for ev in self.trace):
            note = (note + ' loop-cut').strip()
        self.obligations.append(Obligation(
            name=name, path=self.path_no, status=st, backend=backend, ms=ms,
            goal_smt=smt if (st != 'proved') else '', model=model,
            decisions=[c for _, c, k in self.taken if k == 'n'], note=note, canary=canary))

    def sample_smt(self, cond) -> str:
        cond = _term(cond)
        s = z3.Solver()
        s.add(*self.pc)
        s.add(z3.Not(cond) if not isinstance(cond, bool) else z3.BoolVal(not cond))
        return s.to_smt2()

    def current_model(self) -> dict | None:
        if self.mode == 'conc':
            return dict(self.model)
        if self.solver.check() != z3.sat:
            return None
        return self._extract_model(self.finite_model())

    def finite_model(self) -> z3.ModelRef:
        """The model of the current (satisfiable, just checked) solver state -- preferring one in which every JSON object the
        run has looked into has FINITELY many keys (array default = absent): z3 is free to give an object a non-absent value
        for 'every other key', which no real JSON document -- and no concrete replay -- can represent.  Only the choice of
        the witness is affected; no obligation ever sees these constraints."""
        m = self.solver.model()
        objs = getattr(self, 'json_objects', None)
        if not objs:
            return m
        from .values import J, ABSENT

        def representable(v, depth=0):
            if depth > 12:
                return True
            if isinstance(v, dict):
                return '<every-other-key>' not in v and '<unparsed>' not in v and all(representable(x, depth + 1) for x in v.values())
            if isinstance(v, (list, tuple)):
                return all(x is not ABSENT and representable(x, depth + 1) for x in v)
            return True
        if representable(self._extract_model(m)):
            return m                       # the common case: no second query
        self.solver.push()
        try:
            for t in objs.values():
                self.solver.add(z3.Implies(J.is_JObj(t), z3.Default(J.fields(t)) == J.JAbsent))
            self.solver.set('timeout', 2000)
            if self.solver.check() == z3.sat:
                m = self.solver.model()
        except z3.Z3Exception:
            pass
        finally:
            self.solver.set('timeout', self.timeout_ms)
            self.solver.pop()
        return m

    def note_json_object(self, t) -> None:
        if self.mode == 'sym':
            d = self.__dict__.setdefault('json_objects', {})
            if len(d) < 200:
                d.setdefault(t.get_id(), t)

    def _extract_model(self, m: z3.ModelRef) -> dict:
        from . import values
        out = {}
        for name, c in self.draws:
            out[name] = values.concretize(m, c)
        return out

    # ----------------------------------------------------------------- ghost trace
    def emit(self, *event) -> None:
        if not self.dead:
            self.trace.append(tuple(event))


def _term(c):
    from . import values
    if isinstance(c, values.SBool):
        return c.term
    if isinstance(c, values.SV):
        return c.truth().term if hasattr(c, 'truth') else c.term
    return c


def _default_for_sort(sort):
    k = sort.kind()
    if k == z3.Z3_BOOL_SORT:
        return False
    if k == z3.Z3_INT_SORT:
        return 0
    if k == z3.Z3_REAL_SORT:
        return 0.0
    if sort == z3.StringSort():
        return ''
    from . import values
    return values.default_for_sort(sort)


class _ExternalRace:
    """cvc5 and /usr/bin/z3 on the exported query, started at once and in parallel; `finish()` returns the first decisive
    answer ('proved' | 'refuted' | 'unknown', backend).  An `unsat` interrupts the in-process z3 run of the caller."""
    def __init__(self, smt: str, timeout_ms: int, ctx):
        import threading
        self.timeout_s = timeout_ms / 1000
        self.result = None
        self.ctx = ctx
        self.lock = threading.Lock()
        with tempfile.NamedTemporaryFile('w', suffix='.smt2', delete=False, dir=os.environ.get('PYVC_SCRATCH')) as f:
            f.write(smt)
            f.write('\n(check-sat)\n' if '(check-sat)' not in smt else '')
            self.path = f.name
        self.procs, self.threads = [], []
        for cmd, backend in ((['/usr/bin/cvc5', '--strings-exp', f'--tlimit={timeout_ms}', self.path], 'cvc5-1.0.3'),
                             (['/usr/bin/z3', f'-T:{max(1, timeout_ms // 1000)}', self.path], 'z3-4.8.12')):
            try:
                p = subprocess.Popen(cmd, stdout=subprocess.PIPE, stderr=subprocess.DEVNULL, text=True)
            except FileNotFoundError:
                continue
            t = threading.Thread(target=self._watch, args=(p, backend), daemon=True)
            self.procs.append(p); self.threads.append(t)
            t.start()

    def _watch(self, p, backend):
        try:
            out = p.communicate(timeout=self.timeout_s + 5)[0]
        except subprocess.TimeoutExpired:
            p.kill()
            return
        except Exception:
            return
        first = out.strip().splitlines()[0] if out and out.strip() else ''
        verdict = {'unsat': 'proved', 'sat': 'refuted'}.get(first)
        if verdict is None:
            return
        with self.lock:
            if self.result is None or (verdict == 'proved' and self.result[0] != 'proved'):
                self.result = (verdict, backend)
        if verdict == 'proved':
            try:
                if getattr(self, 'in_check', False):
                    self.ctx.interrupt()      # the in-process z3 may stop: the goal is proved
            except Exception:
                pass
            for q in self.procs:
                if q is not p and q.poll() is None:
                    q.kill()

    def finish(self, wait: bool):
        if wait:
            for t in self.threads:
                t.join(self.timeout_s + 6)
        for p in self.procs:
            if p.poll() is None:
                p.kill()
        try:
            os.unlink(self.path)
        except OSError:
            pass
        return self.result if self.result is not None else ('unknown', 'z3+cvc5')


def _external(smt: str, timeout_ms: int) -> tuple[str, str]:
    """Hand an `unknown` query to the CLI solvers.  Returns (status, backend)."""
    with tempfile.NamedTemporaryFile('w', suffix='.smt2', delete=False, dir=os.environ.get('PYVC_SCRATCH')) as f:
        f.write(smt)
        f.write('\n(check-sat)\n' if '(check-sat)' not in smt else '')
        path = f.name
    try:
        for cmd, backend in (
            (['/usr/bin/cvc5', '--strings-exp', f'--tlimit={timeout_ms}', path], 'cvc5-1.0.3'),
            (['/usr/bin/z3', f'-T:{max(1, timeout_ms // 1000)}', path], 'z3-4.8.12'),
        ):
            try:
                out = subprocess.run(cmd, capture_output=True, text=True, timeout=timeout_ms / 1000 + 5).stdout
            except (subprocess.TimeoutExpired, FileNotFoundError):
                continue
            first = out.strip().splitlines()[0] if out.strip() else ''
            if first == 'unsat':
                return 'proved', backend
            if first == 'sat':
                return 'refuted', backend
        return 'unknown', 'z3+cvc5'
    finally:
        os.unlink(path)


# ------------------------------------------------------------------------------------- exploration
@dataclasses.dataclass
class PathResult:
    no: int
    decisions: list
    outcome: str               # 'done' | 'end' | 'unsupported:<msg>' | 'error:<msg>'
    obligations: list
    n_trace: int
    model: dict | None
    predicted: Any = None      # harness-defined summary of the path outcome (for the cross-check)
    trace: list | None = None


@dataclasses.dataclass
class Exploration:
    name: str
    paths: list
    wall_s: float
    solver_s: float
    assumptions: set
    stubs_used: set
    truncated: bool = False

    @property
    def obligations(self):
        return [o for p in self.paths for o in p.obligations]


def run_once(harness: Callable[['Engine'], Any], eng: Engine) -> tuple[str, Any]:
    tok = _current.set(eng)
    try:
        try:
            res = harness(eng)
            return ('end' if eng.dead else 'done'), res
        except PathEnd:
            return 'end', None
        except Unsupported as e:
            return f'unsupported:{type(e).__name__}: {e}', None
        except RecursionError as e:
            return f'unsupported:RecursionError: {e}', None
    finally:
        _current.reset(tok)


def explore(name: str, harness: Callable[['Engine'], Any], *, timeout_ms=10000, max_paths=20000,
            want_models=True) -> Exploration:
    t0 = time.time()
    stack: list[list[int]] = [[]]
    paths: list[PathResult] = []
    solver_s = 0.0
    assumptions: set[str] = set()
    stubs: set[str] = set()
    truncated = False
    while stack:
        if len(paths) >= max_paths:
            truncated = True
            break
        ch = stack.pop()
        eng = Engine(ch, timeout_ms=timeout_ms, path_no=len(paths))
        try:
            outcome, res = run_once(harness, eng)
        except Exception as e:   # a bug in the harness/engine or an exception escaping unmodelled
            import traceback
            outcome, res = f'error:{type(e).__name__}: {e}\n{traceback.format_exc(limit=12)}', None
        for i in range(len(ch), len(eng.taken)):
            n, c, _k = eng.taken[i]
            for alt in range(n):
                if alt != c:
                    stack.append([x for _, x, _ in eng.taken[:i]] + [alt])
        model = None
        if want_models and outcome == 'done' and not eng.dead:
            model = eng.current_model()
        paths.append(PathResult(no=len(paths), decisions=[c for _, c, k in eng.taken if k == 'n'], outcome=outcome,
                                obligations=eng.obligations, n_trace=len(eng.trace), model=model,
                                predicted=res, trace=list(eng.trace)))
        solver_s += eng.solver_s
        assumptions |= eng.assumptions
        stubs |= eng.stubs_used
    return Exploration(name=name, paths=paths, wall_s=time.time() - t0, solver_s=solver_s,
                       assumptions=assumptions, stubs_used=stubs, truncated=truncated)


def run_concrete(harness, model: dict, decisions: list) -> tuple[str, Any, Engine]:
    eng = Engine(model=model, decisions=decisions)
    outcome, res = run_once(harness, eng)
    return outcome, res, eng
