from ._safe import isinstance
from .engine import E, Engine, Unsupported, PathEnd
from .values import (SV, SBool, SNum, SStr, SSeq, SJson, J, And, Or, Not, Implies, Iff, Eq, If, smax, smin, is_multiple,
                     draw_bool, draw_int, draw_real, draw_str, draw_json, draw_seq, draw_opt, draw_enum, draw_lazy, draw_fin, resolve, SFin, vc_len)
from .loader import load, LoopSpec, Shadow, suspend, Suspend, drive
from .harness import harness, Harness, Ctx, REGISTRY
