"""
pyvc.values -- symbolic proxy values.

A proxy carries a z3 term and overloads the Python operators the verified code applies to it.
Operators never fork; the only fork points are ``__bool__`` (truth value needed by control flow),
``SJson`` accessors that must decide "missing / null / present", and the explicit case splits of
`draw_opt` / `draw_enum` in harnesses.  Anything not modelled raises :class:`Unsupported`, which
makes the function *undecided* -- never silently wrong, never a violation.

Python semantics assumed (stated in every evidence file):
  * ``int`` is a mathematical integer, ``float`` a mathematical real (no rounding, NaN, inf);
  * ``str`` is a z3 string (sequence of code points); ``len``/slicing as in Python for indices >= 0;
  * JSON values are the recursive datatype J below; mapping keys are strings; mapping equality is
    extensional; ``True == 1``-style cross-type equalities are not modelled (kinds are disjoint);
  * ``Optional[...]`` and enum-typed inputs are case-split eagerly into real ``None`` / real members.
"""
from __future__ import annotations

from ._safe import isinstance

import fractions
from typing import Any

import z3

from .engine import E, Unsupported, PathEnd


# ------------------------------------------------------------------------------------ JSON sort
def _mk_json():
    Jref = z3.DatatypeSort('J')
    J = z3.Datatype('J')
    J.declare('JAbsent')
    J.declare('JNull')
    J.declare('JBool', ('b', z3.BoolSort()))
    J.declare('JInt', ('i', z3.IntSort()))
    J.declare('JStr', ('s', z3.StringSort()))
    J.declare('JList', ('items', z3.SeqSort(Jref)))
    J.declare('JObj', ('fields', z3.ArraySort(z3.StringSort(), Jref)))
    return J.create()


J = _mk_json()
JSeq = z3.SeqSort(J)
EMPTY_OBJ = J.JObj(z3.K(z3.StringSort(), J.JAbsent))
EMPTY_LIST = J.JList(z3.Empty(JSeq))


class SV:
    """Base of all symbolic proxies."""
    term: Any
    __slots__ = ('term',)
    _pyvc_proxy = True

    def __hash__(self):
        raise Unsupported(f'hash() of a symbolic {type(self).__name__} (used as dict key / set member)')

    def __repr__(self):
        return f'<{type(self).__name__} {_short(self.term)}>'

    def __format__(self, spec):
        return repr(self)


def _short(t) -> str:
    s = str(t).replace('\n', ' ')
    return s if len(s) < 60 else s[:57] + '...'


# ------------------------------------------------------------------------------------ booleans
class SBool(SV):
    __slots__ = ()

    def __init__(self, term):
        self.term = term

    def __bool__(self):
        return E().branch(self.term)

    def truth(self):
        return self

    def __and__(self, o):
        return SBool(z3.And(self.term, tobool(o)))
    __rand__ = __and__

    def __or__(self, o):
        return SBool(z3.Or(self.term, tobool(o)))
    __ror__ = __or__

    def __invert__(self):
        return SBool(z3.Not(self.term))

    def __eq__(self, o):
        if isinstance(o, (bool, SBool)):
            return SBool(self.term == tobool(o))
        if isinstance(o, (int, SNum)):   # True == 1 in Python
            return SNum(z3.If(self.term, 1, 0), True) == o
        return False

    def __ne__(self, o):
        r = self.__eq__(o)
        return (not r) if isinstance(r, bool) else ~r

    def __hash__(self):
        raise Unsupported('hash() of a symbolic bool')

    # bool is an int in Python
    def _num(self):
        return SNum(z3.If(self.term, 1, 0), True)

    def __add__(self, o): return self._num() + o
    def __radd__(self, o): return o + self._num()

    @property
    def __class__(self):
        return bool


def tobool(x):
    """z3 Bool term for the *truth value* of x (no fork)."""
    if isinstance(x, bool):
        return z3.BoolVal(x)
    if isinstance(x, SBool):
        return x.term
    if isinstance(x, SV):
        return x.truth().term
    if z3.is_bool(x):
        return x
    if x is None:
        return z3.BoolVal(False)
    if isinstance(x, (int, float, str, list, tuple, dict, set, frozenset)):
        return z3.BoolVal(bool(x))
    return z3.BoolVal(bool(x))


def _lift(x):
    t = tobool(x)
    return t


def And(*xs):
    if all(isinstance(x, bool) for x in xs):
        return all(xs)
    return SBool(z3.And(*[tobool(x) for x in xs]))


def Or(*xs):
    if all(isinstance(x, bool) for x in xs):
        return any(xs)
    return SBool(z3.Or(*[tobool(x) for x in xs]))


def Not(x):
    if isinstance(x, SV) or z3.is_expr(x):
        return SBool(z3.Not(tobool(x)))
    return not x


def Implies(a, b):
    if not isinstance(a, SV) and not z3.is_expr(a):
        return b if a else True
    if not isinstance(b, SV) and not z3.is_expr(b) and b:
        return True
    return SBool(z3.Implies(tobool(a), tobool(b)))


def Iff(a, b):
    if not isinstance(a, SV) and not isinstance(b, SV):
        return bool(a) == bool(b)
    return SBool(tobool(a) == tobool(b))


def Eq(a, b):
    """Value equality that works on proxies and on concrete values alike (no fork)."""
    if isinstance(a, SV):
        return a == b
    if isinstance(b, SV):
        return b == a
    return a == b


def If(c, a, b):
    """Conditional expression on numbers/strings/bools (no fork)."""
    if not isinstance(c, SV):
        return a if c else b
    ct = tobool(c)
    if isinstance(a, (SBool, bool)) and isinstance(b, (SBool, bool)):
        return SBool(z3.If(ct, tobool(a), tobool(b)))
    if isinstance(a, (SNum, int, float, fractions.Fraction)) and isinstance(b, (SNum, int, float, fractions.Fraction)):
        ta, ia = _num(a)
        tb, ib = _num(b)
        if ia != ib:
            ta, tb = _toreal(ta, ia), _toreal(tb, ib)
        return SNum(z3.If(ct, ta, tb), ia and ib)
    if isinstance(a, (SStr, str)) and isinstance(b, (SStr, str)):
        return SStr(z3.If(ct, _str(a), _str(b)))
    raise Unsupported(f'If over {type(a).__name__}/{type(b).__name__}')


# ------------------------------------------------------------------------------------ numbers
def _num(x):
    """-> (z3 term, is_int)"""
    if isinstance(x, SNum):
        return x.term, x.is_int
    if isinstance(x, SBool):
        return z3.If(x.term, 1, 0), True
    if isinstance(x, bool):
        return z3.IntVal(int(x)), True
    if isinstance(x, int):
        return z3.IntVal(x), True
    if isinstance(x, float):
        if x != x or x in (float('inf'), float('-inf')):
            raise Unsupported('non-finite float in symbolic arithmetic')
        return z3.RealVal(fractions.Fraction(repr(x))), False
    if isinstance(x, fractions.Fraction):
        return z3.RealVal(x), False
    raise TypeError(f'unsupported operand type for symbolic arithmetic: {type(x).__name__}')


def _toreal(t, is_int):
    return z3.ToReal(t) if is_int else t


def _isnum(x):
    return isinstance(x, (SNum, SBool, int, float, fractions.Fraction)) and not isinstance(x, str)


class SNum(SV):
    __slots__ = ('is_int',)

    def __init__(self, term, is_int: bool):
        self.term = term
        self.is_int = is_int

    @property
    def __class__(self):
        return int if self.is_int else float

    def truth(self):
        return SBool(self.term != 0)

    def __bool__(self):
        return E().branch(self.term != 0)

    def _bin(self, o, f, rev=False):
        if not _isnum(o):
            return NotImplemented
        a, ai = self.term, self.is_int
        b, bi = _num(o)
        if ai != bi:
            a, b = _toreal(a, ai), _toreal(b, bi)
        if rev:
            a, b = b, a
        return SNum(f(a, b), ai and bi)

    def _cmp(self, o, f):
        if not _isnum(o):
            return NotImplemented
        a, ai = self.term, self.is_int
        b, bi = _num(o)
        if ai != bi:
            a, b = _toreal(a, ai), _toreal(b, bi)
        return SBool(f(a, b))

    def __add__(self, o): return self._bin(o, lambda a, b: a + b)
    def __radd__(self, o): return self._bin(o, lambda a, b: a + b, True)
    def __sub__(self, o): return self._bin(o, lambda a, b: a - b)
    def __rsub__(self, o): return self._bin(o, lambda a, b: a - b, True)
    def __mul__(self, o): return self._bin(o, lambda a, b: a * b)
    def __rmul__(self, o): return self._bin(o, lambda a, b: a * b, True)
    def __neg__(self): return SNum(-self.term, self.is_int)
    def __pos__(self): return self

    def __abs__(self):
        return SNum(z3.If(self.term >= 0, self.term, -self.term), self.is_int)

    def __truediv__(self, o, rev=False):
        if not _isnum(o):
            return NotImplemented
        a, b = (o, self) if rev else (self, o)
        ta, ia = _num(a)
        tb, ib = _num(b)
        if E().branch(tb == 0):
            raise ZeroDivisionError('division by zero')
        return SNum(_toreal(ta, ia) / _toreal(tb, ib), False)

    def __rtruediv__(self, o): return self.__truediv__(o, True)

    def _divmod(self, o, rev=False):
        if not _isnum(o):
            return NotImplemented
        a, b = (o, self) if rev else (self, o)
        ta, ia = _num(a)
        tb, ib = _num(b)
        if E().branch(tb == 0):
            raise ZeroDivisionError('modulo by zero')
        eng = E()
        if ia and ib:
            # Python floor division: q = floor(a/b), r = a - q*b has the sign of b.
            q = eng.draw('divq', z3.IntSort()); r = eng.draw('divr', z3.IntSort())
            if eng.mode == 'sym':
                eng.assume(z3.And(ta == q * tb + r, z3.If(tb > 0, z3.And(0 <= r, r < tb), z3.And(tb < r, r <= 0))), 'int divmod')
                return SNum(q, True), SNum(r, True)
            raise Unsupported('concrete divmod via proxies')
        ta, tb = _toreal(ta, ia), _toreal(tb, ib)
        # Real floor-division kept LINEAR: P is the largest multiple of b not above a (for b > 0), r the remainder.
        # "P is a multiple of b" is the uninterpreted predicate Mult(P, b); the only facts given about it are
        # the instances Mult(P, b), Mult(P + b, b), Mult(P - b, b)  (multiples are closed under adding/removing b).
        P = eng.draw('fdivP', z3.RealSort()); r = eng.draw('fdivr', z3.RealSort())
        if eng.mode == 'sym':
            eng.assume(z3.And(ta == P + r, z3.If(tb > 0, z3.And(0 <= r, r < tb), z3.And(tb < r, r <= 0)),
                              MultF(P, tb), MultF(P + tb, tb), MultF(P - tb, tb),
                              z3.Implies(z3.And(tb > 0, ta >= 0), P >= 0), z3.Implies(z3.And(tb > 0, ta < 0), P < 0)), 'real divmod')
            eng.no_crosscheck = 'real floor division modelled with the uninterpreted predicate Mult'
            return _LazyQuot(P, tb), SNum(r, False)
        raise Unsupported('concrete divmod via proxies')

    def __mod__(self, o):
        r = self._divmod(o)
        return r if r is NotImplemented else r[1]

    def __rmod__(self, o):
        r = self._divmod(o, True)
        return r if r is NotImplemented else r[1]

    def __floordiv__(self, o):
        r = self._divmod(o)
        return r if r is NotImplemented else (r[0]._force() if isinstance(r[0], _LazyQuot) else r[0])

    def __rfloordiv__(self, o):
        r = self._divmod(o, True)
        return r if r is NotImplemented else (r[0]._force() if isinstance(r[0], _LazyQuot) else r[0])

    def __lt__(self, o): return self._cmp(o, lambda a, b: a < b)
    def __le__(self, o): return self._cmp(o, lambda a, b: a <= b)
    def __gt__(self, o): return self._cmp(o, lambda a, b: a > b)
    def __ge__(self, o): return self._cmp(o, lambda a, b: a >= b)

    def __eq__(self, o):
        if not _isnum(o):
            return False
        return self._cmp(o, lambda a, b: a == b)

    def __ne__(self, o):
        if not _isnum(o):
            return True
        return self._cmp(o, lambda a, b: a != b)

    def __hash__(self):
        raise Unsupported('hash() of a symbolic number')

    def __int__(self):
        raise Unsupported('int() of a symbolic number (needs a shadowed int)')

    def __float__(self):
        raise Unsupported('float() of a symbolic number (passed to C code?)')

    def __index__(self):
        raise Unsupported('symbolic number used as an index/count')

    def __round__(self, n=None):
        raise Unsupported('round() of a symbolic number')

    def __floor__(self):
        return self if self.is_int else SNum(z3.ToInt(self.term), True)

    def __ceil__(self):
        return self if self.is_int else SNum(-z3.ToInt(-self.term), True)

    def __trunc__(self):
        if self.is_int:
            return self
        fl = z3.ToInt(self.term)
        return SNum(z3.If(self.term >= 0, fl, -z3.ToInt(-self.term)), True)

    def total_seconds(self):      # lets a real stand for a timedelta where only this is used
        raise AttributeError('total_seconds')


MultF = z3.Function('Mult', z3.RealSort(), z3.RealSort(), z3.BoolSort())


def is_multiple(x, b):
    """x is an integer multiple of b (spec helper; symbolic: the uninterpreted Mult, concrete: exact rational test)."""
    if isinstance(x, SNum) or isinstance(b, SNum):
        tx, ix = _num(x); tb, ib = _num(b)
        return SBool(MultF(_toreal(tx, ix), _toreal(tb, ib)))
    q = fractions.Fraction(x) / fractions.Fraction(b)
    return q.denominator == 1


class _LazyQuot:
    """The quotient of a real floor division: only materialised (non-linear!) if the program really uses it."""
    def __init__(self, P, b):
        self.P, self.b = P, b

    def _force(self):
        eng = E()
        q = eng.draw('fdivq', z3.IntSort())
        eng.assume(self.P == z3.ToReal(q) * self.b, 'quotient of a real floor division (non-linear)')
        return SNum(z3.ToReal(q), False)

    def __getattr__(self, name):
        return getattr(self._force(), name)


def smax(a, b):
    return If(a >= b, a, b)


def smin(a, b):
    return If(a <= b, a, b)


# ------------------------------------------------------------------------------------ strings
def _str(x):
    if isinstance(x, SStr):
        return x.term
    if isinstance(x, str):
        return z3.StringVal(x)
    raise TypeError(f'expected str, got {type(x).__name__}')


class SStr(SV):
    __slots__ = ()

    def __init__(self, term):
        self.term = term

    @property
    def __class__(self):
        return str

    def truth(self):
        return SBool(z3.Length(self.term) > 0)

    def __bool__(self):
        return E().branch(z3.Length(self.term) > 0)

    def __eq__(self, o):
        if isinstance(o, (str, SStr)):
            return SBool(self.term == _str(o))
        if isinstance(o, SJson):
            return o == self
        return False

    def __ne__(self, o):
        r = self.__eq__(o)
        return (not r) if isinstance(r, bool) else ~r

    def __hash__(self):
        raise Unsupported('hash() of a symbolic string (dict key / set member)')

    def __add__(self, o):
        if not isinstance(o, (str, SStr)):
            return NotImplemented
        return SStr(z3.Concat(self.term, _str(o)))

    def __radd__(self, o):
        if not isinstance(o, (str, SStr)):
            return NotImplemented
        return SStr(z3.Concat(_str(o), self.term))

    def __len__(self):
        raise Unsupported('len() of a symbolic string outside a rewritten function')

    def vc_len(self):
        return SNum(z3.Length(self.term), True)

    def __contains__(self, sub):
        return SBool(z3.Contains(self.term, _str(sub))).__bool__()

    def contains(self, sub):
        return SBool(z3.Contains(self.term, _str(sub)))

    def startswith(self, p):
        if isinstance(p, tuple):
            return Or(*[self.startswith(x) for x in p])
        return SBool(z3.PrefixOf(_str(p), self.term))

    def endswith(self, p):
        if isinstance(p, tuple):
            return Or(*[self.endswith(x) for x in p])
        return SBool(z3.SuffixOf(_str(p), self.term))

    def __getitem__(self, k):
        n = z3.Length(self.term)
        if isinstance(k, slice):
            if k.step not in (None, 1):
                raise Unsupported('string slice with a step')

            def idx(v, dflt):
                if v is None:
                    return dflt
                t, isint = _num(v)
                if not isint:
                    raise TypeError('slice indices must be integers')
                # Python clamps; negative indices count from the end.
                t = z3.If(t < 0, z3.If(n + t < 0, 0, n + t), z3.If(t > n, n, t))
                return t
            lo = idx(k.start, z3.IntVal(0))
            hi = idx(k.stop, n)
            ln = z3.If(hi - lo > 0, hi - lo, 0)
            return SStr(z3.SubString(self.term, lo, ln))
        t, isint = _num(k)
        if not isint:
            raise TypeError('string indices must be integers')
        if E().branch(z3.Or(t >= n, t < -n)):
            raise IndexError('string index out of range')
        t = z3.If(t < 0, n + t, t)
        return SStr(z3.SubString(self.term, t, 1))

    def __lt__(self, o): return SBool(self.term < _str(o))
    def __le__(self, o): return SBool(self.term <= _str(o))
    def __gt__(self, o): return SBool(_str(o) < self.term)
    def __ge__(self, o): return SBool(_str(o) <= self.term)

    def replace(self, old, new, count=-1):
        if count != -1:
            raise Unsupported('str.replace with a count')
        if not isinstance(old, str) or not isinstance(new, str):
            raise Unsupported('str.replace with symbolic arguments')
        eng = E()
        if hasattr(z3, 'ReplaceAll'):
            return SStr(z3.ReplaceAll(self.term, z3.StringVal(old), z3.StringVal(new))) if False else _replace_all(self, old, new)
        return _replace_all(self, old, new)

    def __iter__(self):
        raise Unsupported('iteration over a symbolic string')

    def _opaque_method(self, name):
        def method(*a, **kw):
            # an unmodelled str -> str method: the result is a fresh, unconstrained string (sound over-approximation)
            return draw_str(f'str.{name}')
        return method

    def capitalize(self): return self._opaque_method('capitalize')()
    def lower(self): return self._opaque_method('lower')()
    def upper(self): return self._opaque_method('upper')()
    def title(self): return self._opaque_method('title')()
    def strip(self, *a): return self._opaque_method('strip')()
    def lstrip(self, *a): return self._opaque_method('lstrip')()
    def rstrip(self, *a): return self._opaque_method('rstrip')()

    def __str__(self):
        raise Unsupported('str() of a symbolic string passed to native code')

    def __format__(self, spec):
        return f'<sym-str {_short(self.term)}>'


def _replace_all(s: 'SStr', old: str, new: str) -> 'SStr':
    # z3 has str.replace_all natively:
    return SStr(z3.ReplaceAll(s.term, z3.StringVal(old), z3.StringVal(new))) if hasattr(z3, 'ReplaceAll') \
        else (_ for _ in ()).throw(Unsupported('replace_all not available'))


# ------------------------------------------------------------------------------------ sequences
class SSeq(SV):
    """A mutable Python list of numbers/strings/bools with symbolic content and length."""
    __slots__ = ('kind',)

    def __init__(self, term, kind: str):
        self.term = term
        self.kind = kind      # 'real' | 'int' | 'str'

    @property
    def __class__(self):
        return list

    def _wrap(self, t):
        if self.kind == 'real':
            return SNum(t, False)
        if self.kind == 'int':
            return SNum(t, True)
        if self.kind == 'str':
            return SStr(t)
        raise Unsupported(self.kind)

    def _unit(self, v):
        if self.kind in ('real', 'int'):
            t, isint = _num(v)
            if self.kind == 'real':
                t = _toreal(t, isint)
            elif not isint:
                raise Unsupported('real appended to an int sequence')
            return z3.Unit(t)
        if self.kind == 'str':
            return z3.Unit(_str(v))
        raise Unsupported(self.kind)

    def truth(self):
        return SBool(z3.Length(self.term) > 0)

    def __bool__(self):
        return E().branch(z3.Length(self.term) > 0)

    def vc_len(self):
        return SNum(z3.Length(self.term), True)

    def __len__(self):
        # native len() (e.g. the length hint of `[x, *seq]`): case split on 0..3 like __iter__, the rest undecided
        n = z3.simplify(z3.Length(self.term))
        if z3.is_int_value(n):
            return n.as_long()
        for k in range(4):
            if E().branch(z3.Length(self.term) == k):
                return k
        raise Unsupported('len() of a symbolic list of length > 3 outside a rewritten function')

    def append(self, v):
        self.term = z3.Concat(self.term, self._unit(v))

    def copy(self):
        return SSeq(self.term, self.kind)

    def _other(self, o):
        if isinstance(o, SSeq):
            if o.kind != self.kind:
                if z3.is_true(z3.simplify(z3.Length(o.term) == 0)):
                    return z3.Empty(self.term.sort())
                raise Unsupported('concatenation of lists of different element kinds')
            return o.term
        if isinstance(o, (list, tuple)):
            t = z3.Empty(self.term.sort())
            for x in o:
                t = z3.Concat(t, self._unit(x))
            return t
        raise TypeError(f'can only concatenate list to list, not {type(o).__name__}')

    def __add__(self, o):
        return SSeq(z3.Concat(self.term, self._other(o)), self.kind)

    def __radd__(self, o):
        return SSeq(z3.Concat(self._other(o), self.term), self.kind)

    def __iadd__(self, o):
        self.term = z3.Concat(self.term, self._other(o))
        return self

    def extend(self, o):
        self.term = z3.Concat(self.term, self._other(o))

    def __contains__(self, v):
        return SBool(z3.Contains(self.term, self._unit(v))).__bool__()

    def contains(self, v):
        return SBool(z3.Contains(self.term, self._unit(v)))

    def __eq__(self, o):
        if isinstance(o, (SSeq, list)):
            return SBool(self.term == self._other(o))
        return False

    def __getitem__(self, k):
        if isinstance(k, slice):
            raise Unsupported('slice of a symbolic list')
        t, isint = _num(k)
        n = z3.Length(self.term)
        if E().branch(z3.Or(t >= n, t < -n)):
            raise IndexError('list index out of range')
        t = z3.If(t < 0, n + t, t)
        return self._wrap(self.term[t])

    def __iter__(self):
        n = z3.simplify(z3.Length(self.term))
        if z3.is_int_value(n):
            return iter([self._wrap(z3.simplify(self.term[i])) for i in range(n.as_long())])
        # A list of symbolic length iterated natively (no loop contract): case split on the lengths 0..3 and leave the
        # rest undecided.  Contracts of the unchanged code never rely on this (a path ending in Unsupported makes the
        # harness undecided); it lets CHANGED code that starts iterating such a list (`[x, *delays]`, `for d in delays`)
        # be refuted on the short lists instead of being undecided altogether.
        for k in range(4):
            if E().branch(z3.Length(self.term) == k):
                return iter([self._wrap(self.term[i]) for i in range(k)])
        raise Unsupported('native iteration over a list of symbolic length > 3 (needs a loop contract)')

    def __hash__(self):
        raise Unsupported('hash of list')


def all_ge(seq: SSeq, bound) -> SBool:
    """forall i: seq[i] >= bound  (spec helper)"""
    i = z3.Int('i!q')
    b, bi = _num(bound)
    if seq.kind == 'real':
        b = _toreal(b, bi)
    return SBool(z3.ForAll([i], z3.Implies(z3.And(0 <= i, i < z3.Length(seq.term)), seq.term[i] >= b)))


# ------------------------------------------------------------------------------------ JSON
def to_json_term(v):
    """Concrete python JSON value or proxy -> J term."""
    if isinstance(v, SJson):
        return v.term
    if v is None:
        return J.JNull
    if isinstance(v, (bool, SBool)):
        return J.JBool(tobool(v))
    if isinstance(v, SNum):
        if not v.is_int:
            raise Unsupported('real-valued JSON leaf')
        return J.JInt(v.term)
    if isinstance(v, int):
        return J.JInt(z3.IntVal(v))
    if isinstance(v, (str, SStr)):
        return J.JStr(_str(v))
    if isinstance(v, SSeq):
        if v.kind != 'str':
            raise Unsupported('non-string list as JSON')
        raise Unsupported('SSeq -> JSON list conversion needs a map; use SJson lists')
    if isinstance(v, (list, tuple)):
        t = z3.Empty(JSeq)
        for x in v:
            t = z3.Concat(t, z3.Unit(to_json_term(x)))
        return J.JList(t)
    if isinstance(v, dict) or hasattr(v, 'items'):
        t = z3.K(z3.StringSort(), J.JAbsent)
        for k, x in v.items():
            t = z3.Store(t, _str(k), to_json_term(x))
        return J.JObj(t)
    raise Unsupported(f'cannot convert {type(v).__name__} to a JSON term')


class JRoot:
    """A mutable cell holding a whole JSON document; SJson values are views (root, path) into it."""
    __slots__ = ('term', 'writes')

    def __init__(self, term):
        self.term = term
        self.writes = 0


def _get_path(t, path):
    try:
        note = E().note_json_object
    except LookupError:             # outside a run (model evaluation, harness set-up)
        note = lambda _t: None
    note(t)
    for k in path:
        t = z3.Select(J.fields(t), k)
        note(t)
    return t


def _set_path(t, path, new):
    if not path:
        return new
    k = path[0]
    inner = _set_path(z3.Select(J.fields(t), k), path[1:], new)
    return J.JObj(z3.Store(J.fields(t), k, inner))


class SJson(SV):
    """
    A view of a JSON value inside a document.  Reading operations decide "absent / null / value"
    by forking; the *kind* of a present value (object, list, string, ...) is decided lazily by the
    operation applied to it, raising the exception CPython would raise for a wrong kind.
    """
    __slots__ = ('root', 'path')

    def __init__(self, root: JRoot, path=()):
        self.root = root
        self.path = tuple(path)

    @classmethod
    def of(cls, term) -> 'SJson':
        return cls(JRoot(term))

    @property
    def term(self):
        return _get_path(self.root.term, self.path)

    def _write(self, new_term):
        self.root.term = _set_path(self.root.term, self.path, new_term)
        self.root.writes += 1

    # --- kind tests (no fork)
    def is_obj(self): return SBool(J.is_JObj(self.term))
    def is_list(self): return SBool(J.is_JList(self.term))
    def is_str(self): return SBool(J.is_JStr(self.term))
    def is_null(self): return SBool(J.is_JNull(self.term))
    def is_absent(self): return SBool(J.is_JAbsent(self.term))

    @property
    def __class__(self):
        t = self.term
        eng = E()
        if eng.branch(J.is_JObj(t)):
            return dict
        if eng.branch(J.is_JList(t)):
            return list
        if eng.branch(J.is_JStr(t)):
            return str
        if eng.branch(J.is_JBool(t)):
            return bool
        if eng.branch(J.is_JInt(t)):
            return int
        if eng.branch(J.is_JNull(t)):
            return type(None)
        raise Unsupported('JAbsent value escaped into the program')

    def _need_obj(self, what):
        if not E().branch(J.is_JObj(self.term)):
            if E().branch(J.is_JList(self.term)) or E().branch(J.is_JStr(self.term)):
                raise (AttributeError if what in ('get', 'setdefault', 'items', 'keys') else TypeError)(
                    f'{what} on a non-mapping JSON value')
            raise (AttributeError if what in ('get', 'setdefault', 'items', 'keys') else TypeError)(
                f'{what} on a non-mapping JSON value')

    def _child(self, key):
        return SJson(self.root, self.path + (_str(key),))

    def _present(self, child: 'SJson'):
        """Convert a present child into what the program sees: None for null, else a view/leaf."""
        t = child.term
        eng = E()
        if eng.branch(J.is_JNull(t)):
            return None
        return child

    # --- mapping protocol
    def get(self, key, default=None):
        self._need_obj('get')
        ch = self._child(key)
        if E().branch(J.is_JAbsent(ch.term)):
            return default
        return self._present(ch)

    def __getitem__(self, key):
        eng = E()
        t = self.term
        if eng.branch(J.is_JObj(t)):
            ch = self._child(key)
            if eng.branch(J.is_JAbsent(ch.term)):
                raise KeyError(key)
            return self._present(ch)
        if eng.branch(J.is_JList(t)):
            k, isint = _num(key)
            n = z3.Length(J.items(t))
            if eng.branch(z3.Or(k >= n, k < -n)):
                raise IndexError('list index out of range')
            k = z3.If(k < 0, n + k, k)
            return _leaf(J.items(t)[k])
        raise TypeError('JSON value is not subscriptable')

    def __contains__(self, key):
        eng = E()
        t = self.term
        if eng.branch(J.is_JObj(t)):
            if not isinstance(key, (str, SStr)):
                return False
            return eng.branch(z3.Not(J.is_JAbsent(self._child(key).term)))
        if eng.branch(J.is_JList(t)):
            return eng.branch(z3.Contains(J.items(t), z3.Unit(to_json_term(key))))
        if eng.branch(J.is_JStr(t)):
            return eng.branch(z3.Contains(J.s(t), _str(key)))
        raise TypeError('argument of this JSON kind is not iterable')

    def setdefault(self, key, default=None):
        self._need_obj('setdefault')
        ch = self._child(key)
        if E().branch(J.is_JAbsent(ch.term)):
            ch._write(to_json_term(default))
            if default is None:
                return None
            return ch
        return self._present(ch)

    def __setitem__(self, key, value):
        self._need_obj('__setitem__')
        self._child(key)._write(to_json_term(value))

    def __delitem__(self, key):
        self._need_obj('__delitem__')
        ch = self._child(key)
        if E().branch(J.is_JAbsent(ch.term)):
            raise KeyError(key)
        ch._write(J.JAbsent)

    def pop(self, key, *default):
        self._need_obj('pop')
        ch = self._child(key)
        if E().branch(J.is_JAbsent(ch.term)):
            if default:
                return default[0]
            raise KeyError(key)
        val = _leaf(ch.term)
        ch._write(J.JAbsent)
        return val

    # --- list protocol
    def _need_list(self, what):
        if not E().branch(J.is_JList(self.term)):
            raise AttributeError(f'{what} on a non-list JSON value')

    def append(self, v):
        self._need_list('append')
        self._write(J.JList(z3.Concat(J.items(self.term), z3.Unit(to_json_term(v)))))

    def remove(self, v):
        self._need_list('remove')
        items = J.items(self.term)
        u = z3.Unit(to_json_term(v))
        i = z3.IndexOf(items, u, 0)
        if E().branch(i < 0):
            raise ValueError('list.remove(x): x not in list')
        n = z3.Length(items)
        self._write(J.JList(z3.Concat(z3.SubSeq(items, 0, i), z3.SubSeq(items, i + 1, n - i - 1))))

    def vc_len(self):
        t = self.term
        eng = E()
        if eng.branch(J.is_JList(t)):
            return SNum(z3.Length(J.items(t)), True)
        if eng.branch(J.is_JStr(t)):
            return SNum(z3.Length(J.s(t)), True)
        raise Unsupported('len() of a symbolic JSON object')

    def __len__(self):
        raise Unsupported('len() of symbolic JSON outside a rewritten function')

    def truth(self):
        t = self.term
        return SBool(z3.If(J.is_JObj(t), J.fields(t) != z3.K(z3.StringSort(), J.JAbsent),
                     z3.If(J.is_JList(t), z3.Length(J.items(t)) > 0,
                     z3.If(J.is_JStr(t), z3.Length(J.s(t)) > 0,
                     z3.If(J.is_JBool(t), J.b(t),
                     z3.If(J.is_JInt(t), J.i(t) != 0, False))))))

    def __bool__(self):
        return E().branch(self.truth().term)

    def __eq__(self, o):
        if isinstance(o, SJson):
            return SBool(self.term == o.term)
        try:
            return SBool(self.term == to_json_term(o))
        except Unsupported:
            return False

    def __ne__(self, o):
        r = self.__eq__(o)
        return (not r) if isinstance(r, bool) else ~r

    def __hash__(self):
        raise Unsupported('hash of symbolic JSON')

    def __iter__(self):
        raise Unsupported('native iteration over symbolic JSON (needs a loop contract)')

    def keys(self):
        raise Unsupported('keys() of symbolic JSON')

    def items(self):
        raise Unsupported('items() of symbolic JSON')

    def snapshot(self) -> 'SJson':
        """An immutable copy of the current value (for old-state references in postconditions)."""
        return SJson.of(self.term)

    def as_str(self) -> SStr:
        return SStr(J.s(self.term))


def _leaf(t):
    """A J term -> proxy by forking on its kind (used for list elements / popped values)."""
    eng = E()
    if eng.branch(J.is_JNull(t)):
        return None
    return SJson.of(t)


# ------------------------------------------------------------------------------------ model -> python
def concretize(m: z3.ModelRef, c):
    v = m.eval(c, model_completion=True)
    return term_to_py(m, v)


def term_to_py(m, v):
    s = v.sort()
    if z3.is_bool(v):
        return z3.is_true(v)
    if z3.is_int_value(v):
        return v.as_long()
    if z3.is_rational_value(v):
        return fractions.Fraction(v.numerator_as_long(), v.denominator_as_long())
    if z3.is_algebraic_value(v):
        return fractions.Fraction(v.approx(20).numerator_as_long(), v.approx(20).denominator_as_long())
    if z3.is_string_value(v):
        return v.as_string()
    if s == J:
        return json_to_py(m, v)
    if z3.is_seq(v):
        return seq_to_py(m, v)
    return str(v)


def seq_to_py(m, v):
    n = m.eval(z3.Length(v), model_completion=True).as_long()
    return [term_to_py(m, m.eval(v[i], model_completion=True)) for i in range(n)]


class Absent:
    def __repr__(self): return '<absent>'


ABSENT = Absent()


def json_to_py(m, v, depth=0):
    v = m.eval(v, model_completion=True)
    d = v.decl().name()
    if d == 'JAbsent':
        return ABSENT
    if d == 'JNull':
        return None
    if d == 'JBool':
        return z3.is_true(v.arg(0))
    if d == 'JInt':
        return v.arg(0).as_long()
    if d == 'JStr':
        return v.arg(0).as_string()
    if d == 'JList':
        return [json_to_py(m, x, depth + 1) for x in _seq_elems(m, v.arg(0))]
    if d == 'JObj':
        out = {}
        arr = v.arg(0)
        # peel Store(...) layers down to K(default)
        entries = []
        while z3.is_store(arr):
            entries.append((arr.arg(1), arr.arg(2)))
            arr = arr.arg(0)
        if not z3.is_const_array(arr):
            # a lambda/as-array interpretation: not expected with model_completion on Store chains
            return {'<unparsed>': str(v)}
        explicitly_absent = set()
        for k, x in reversed(entries):
            ks = m.eval(k, model_completion=True).as_string()
            val = json_to_py(m, x, depth + 1)
            if val is ABSENT:
                out.pop(ks, None)
                explicitly_absent.add(ks)
            else:
                out[ks] = val
                explicitly_absent.discard(ks)
        dflt = json_to_py(m, arr.arg(0), depth + 1)
        if dflt is not ABSENT:
            out['<every-other-key>'] = dflt
            # under a non-absent default the keys the model makes absent must stay visible (as ABSENT markers)
            for ks in explicitly_absent:
                out[ks] = ABSENT
        return out
    return str(v)


def _seq_elems(m, s):
    n = m.eval(z3.Length(s), model_completion=True).as_long()
    return [m.eval(s[i], model_completion=True) for i in range(n)]


def default_for_sort(sort):
    if sort == J:
        return None
    if z3.is_seq_sort(sort) if hasattr(z3, 'is_seq_sort') else isinstance(sort, z3.SeqSortRef):
        return []
    return None


# ------------------------------------------------------------------------------------ drawing helpers
def draw_bool(name):
    v = E().draw(name, z3.BoolSort())
    return v if isinstance(v, bool) else SBool(v)


def draw_int(name):
    v = E().draw(name, z3.IntSort())
    return v if not z3.is_expr(v) else SNum(v, True)


def draw_real(name):
    v = E().draw(name, z3.RealSort())
    return v if not z3.is_expr(v) else SNum(v, False)


def draw_str(name):
    v = E().draw(name, z3.StringSort())
    return v if not z3.is_expr(v) else SStr(v)


def draw_json(name):
    """A whole JSON document.  Concrete mode: the python value from the model."""
    v = E().draw(name, J)
    if not z3.is_expr(v):
        return v
    return SJson.of(v)


def draw_seq(name, kind):
    sort = {'real': z3.RealSort(), 'int': z3.IntSort(), 'str': z3.StringSort()}[kind]
    v = E().draw(name, z3.SeqSort(sort))
    if not z3.is_expr(v):
        return list(v)
    return SSeq(v, kind)


def draw_opt(name, drawer, *args):
    """Optional[T]: eager case split into a real None or a T."""
    if E().nondet(2, f'{name} is None?') == 0:
        return None
    return drawer(name, *args)


def draw_enum(name, members):
    """Eager exhaustive case split over a finite set of concrete alternatives."""
    members = list(members)
    return members[E().nondet(len(members), name)]


class SFin(SV):
    """
    A value from a finite set of concrete alternatives (enum members, None, True/False, constants),
    kept symbolic as an index: equality and identity tests become z3 formulas; any other use
    (attribute access, hashing, arithmetic) case-splits on the spot.  In concrete mode the drawn
    member itself is used.
    """
    __slots__ = ('_name', '_members', '_chosen')

    def __init__(self, name, members, term):
        self._name = name
        self._members = list(members)
        self.term = term
        self._chosen = _UNRESOLVED

    def _resolve(self):
        if self._chosen is _UNRESOLVED:
            eng = E()
            for i, m in enumerate(self._members[:-1]):
                if eng.branch(self.term == i):
                    self._chosen = m
                    break
            else:
                self._chosen = self._members[-1]
        return self._chosen

    def _where(self, pred):
        hits = [self.term == i for i, m in enumerate(self._members) if pred(m)]
        if not hits:
            return False
        if len(hits) == len(self._members):
            return True
        return SBool(z3.Or(*hits))

    def is_(self, other):
        if isinstance(other, SFin):
            pairs = [z3.And(self.term == i, other.term == j)
                     for i, a in enumerate(self._members) for j, b in enumerate(other._members) if a is b]
            return SBool(z3.Or(*pairs)) if pairs else False
        return self._where(lambda m: m is other)

    def __eq__(self, other):
        if self._chosen is not _UNRESOLVED:
            return self._chosen == (other._resolve() if isinstance(other, SFin) else other)
        if isinstance(other, SFin):
            pairs = [z3.And(self.term == i, other.term == j)
                     for i, a in enumerate(self._members) for j, b in enumerate(other._members) if a == b]
            return SBool(z3.Or(*pairs)) if pairs else False
        if isinstance(other, SV):
            return self._resolve() == other
        return self._where(lambda m: m == other)

    def __ne__(self, other):
        r = self.__eq__(other)
        return (not r) if isinstance(r, bool) else ~r

    def truth(self):
        r = self._where(lambda m: bool(m))
        return SBool(z3.BoolVal(r)) if isinstance(r, bool) else r

    def __bool__(self):
        if self._chosen is not _UNRESOLVED:
            return bool(self._chosen)
        r = self._where(lambda m: bool(m))
        return r if isinstance(r, bool) else bool(r)

    def __hash__(self): return hash(self._resolve())
    def __getattr__(self, name):
        if name.startswith('__') and name.endswith('__'):
            raise AttributeError(name)
        return getattr(self._resolve(), name)
    def __repr__(self): return f'<fin {self._name}>' if self._chosen is _UNRESOLVED else repr(self._chosen)
    def __format__(self, spec): return repr(self)
    def __str__(self): return str(self._resolve())
    def __call__(self, *a, **kw): return self._resolve()(*a, **kw)
    def __lt__(self, o): return self._resolve() < o
    def __le__(self, o): return self._resolve() <= o
    def __gt__(self, o): return self._resolve() > o
    def __ge__(self, o): return self._resolve() >= o
    def __add__(self, o): return self._resolve() + o
    def __radd__(self, o): return o + self._resolve()
    def __sub__(self, o): return self._resolve() - o
    def __rsub__(self, o): return o - self._resolve()
    def __iter__(self): return iter(self._resolve())
    def __contains__(self, x): return x in self._resolve()

    @property
    def __class__(self):
        return type(self._resolve())


class _Unresolved:
    pass


_UNRESOLVED = _Unresolved()
LazyEnum = SFin


def draw_fin(name, members):
    members = list(members)
    eng = E()
    v = eng.draw(name, z3.IntSort())
    if not z3.is_expr(v):
        return members[v] if 0 <= v < len(members) else members[0]
    eng.assume(z3.And(v >= 0, v < len(members)), f'{name} in range')
    return SFin(name, members, v)


draw_lazy = draw_fin


def resolve(x):
    return x._resolve() if isinstance(x, SFin) else x


def vc_len(x):
    if hasattr(x, 'vc_len') and isinstance(x, SV):
        return x.vc_len()
    return len(x)
