"""isinstance() for engine and harness code: proxies lie about __class__ to the *verified* code
(so that its own isinstance checks work); engine code must see the proxy's real type."""
import builtins


def isinstance(x, cls):
    t = type(x)
    if getattr(t, '_pyvc_proxy', False):
        return issubclass(t, cls)
    return builtins.isinstance(x, cls)
