"""
pyvc.harness -- registry of function contracts ("harnesses"), their execution and the CPython
cross-check.

A harness is the machine-checked contract of one real function: it draws the function's inputs as
symbolic values constrained by the precondition, installs contract stubs for the callees (callers
are verified against callee *contracts*, not bodies), runs the mechanically extracted real
function, and states the postconditions with `vc.ensure(clause, cond)`.
"""
from __future__ import annotations

from ._safe import isinstance

import dataclasses
import json
import os
import time
import traceback
from typing import Any, Callable

import z3

from . import engine as _engine
from . import loader as _loader
from . import values as V
from .engine import E, Engine, Unsupported, PathEnd


@dataclasses.dataclass
class Harness:
    id: str
    fn: Callable
    targets: list[str]              # dotted names of the real functions under contract
    props: list[str]
    clauses: list[str]              # every one must yield >= 1 obligation
    canaries: list[str]             # every one must be refuted on >= 1 path
    doc: str = ''
    timeout_ms: int = 10000
    max_paths: int = 20000
    trusted: list[str] = dataclasses.field(default_factory=list)    # trusted/external contracts used
    assumes: list[str] = dataclasses.field(default_factory=list)    # free-text assumptions
    native_check: bool = True       # cross-check paths in concrete mode
    kind: str = 'vc'                # 'vc' | 'bounded' | 'lemma'
    heavy: bool = False             # only in thorough tier
    clause_props: dict = dataclasses.field(default_factory=dict)   # clause -> the properties it counts for (default: all of props)
    prop_clauses: dict = dataclasses.field(default_factory=dict)   # property -> the ONLY clauses that count for it (default: all clauses)
    native_replays: dict = dataclasses.field(default_factory=dict)   # clause -> driver script forcing the schedule on the real code
    replayable: bool = True
    sizes_only: bool = False         # every loop runs natively over concrete containers of stated small sizes: an exhaustive
                                    # small-scope check in effect -- labelled B (bounded) in the evidence, never counted as proved


REGISTRY: dict[str, Harness] = {}


def harness(id: str, *, targets, props, clauses, canaries=(), **kw):
    def deco(fn):
        if id in REGISTRY:
            raise RuntimeError(f'duplicate harness id {id}')
        REGISTRY[id] = Harness(id=id, fn=fn, targets=[targets] if isinstance(targets, str) else list(targets),
                               props=list(props), clauses=list(clauses), canaries=list(canaries),
                               doc=(fn.__doc__ or '').strip(), **kw)
        return fn
    return deco


class Ctx:
    """What a harness sees."""

    def __init__(self, h: Harness, eng: Engine, known_active: set[str]):
        self.h = h
        self.eng = eng
        eng.hid = h.id
        self.known_active = known_active
        self.loaded: list[_loader.Loaded] = []

    # ---- mode
    @property
    def concrete(self) -> bool:
        return self.eng.mode == 'conc'

    # ---- draws
    def bool(self, name): return V.draw_bool(name)
    def int(self, name): return V.draw_int(name)
    def real(self, name): return V.draw_real(name)
    def str(self, name): return V.draw_str(name)
    def json(self, name): return V.draw_json(name)
    def seq(self, name, kind): return V.draw_seq(name, kind)
    def opt(self, name, drawer, *a): return V.draw_opt(name, drawer, *a)
    def enum(self, name, members): return V.draw_enum(name, members)
    def fin(self, name, members): return V.draw_fin(name, members)
    lazy = fin
    def nondet(self, n, label=''): return self.eng.nondet(n, label)

    # ---- statements
    def assume(self, cond, why=''):
        self.eng.assume(cond, why)

    def ensure(self, clause: str, cond, *, excuse: dict[str, Any] | None = None, note='', z3_ms: int | None = None):
        """
        Obligation `<harness>.<clause>`.  `excuse` maps a known-finding id to the symbolic class of
        witnesses that finding covers; it only has an effect while that id is listed as `known` in
        /verif/known_findings.json, and then only for violations inside the class.
        """
        name = f'{self.h.id}.{clause}'
        eng = self.eng
        if eng.dead:
            return
        if excuse and eng.mode == 'sym':
            active = {k: v for k, v in excuse.items() if k in self.known_active}
            if active:
                # First: is there any violation at all?  Then: is there one outside the known classes?
                n0 = len(eng.obligations)
                eng.ensure(name, cond, note=note)
                ob = eng.obligations[-1] if len(eng.obligations) > n0 else None
                if ob is not None and ob.status == 'refuted':
                    outside = V.Or(cond, *active.values())
                    eng.obligations.pop()
                    eng.ensure(name, outside, note=note)
                    ob2 = eng.obligations[-1]
                    if ob2.status == 'proved':
                        ob2.status = 'known'
                        ob2.note = ','.join(sorted(active))
                        ob2.model = ob.model
                        ob2.decisions = ob.decisions
                return
        eng.ensure(name, cond, note=note, z3_ms=z3_ms)

    def canary(self, clause: str, cond):
        """A deliberately false postcondition: must be refuted on at least one path of every run."""
        self.eng.ensure(f'{self.h.id}.{clause}', cond, canary=True)

    def emit(self, *ev):
        self.eng.emit(*ev)

    @property
    def trace(self):
        return self.eng.trace

    def used(self, callee: str, how: str):
        """Record that `callee` was replaced by its contract (`how` = contract id / 'trusted:...')."""
        self.eng.stubs_used.add(f'{callee} <- {how}')

    def trust(self, what: str):
        self.eng.assumptions.add(what)

    # ---- loading
    def load(self, modname, qualname, **kw) -> _loader.Loaded:
        ld = _loader.load(modname, qualname, **kw)
        self.loaded.append(ld)
        return ld

    def drive(self, coro, on_suspend=None):
        return _loader.drive(coro, on_suspend)


# ------------------------------------------------------------------------------------ running
@dataclasses.dataclass
class HarnessResult:
    id: str
    targets: list
    props: list
    kind: str
    paths: int
    paths_done: int
    obligations: list            # list[dict]
    by_clause: dict              # clause -> {proved, refuted, unknown, known}
    canaries_refuted: dict       # canary -> bool
    problems: list               # strings: unsupported / errors / vacuity / cross-check mismatches
    crosschecked: int
    crosscheck_mismatch: list
    wall_s: float
    solver_s: float
    stubs_used: list
    assumptions: list
    sources: list                # (path, lineno, end_lineno) of the extracted real functions
    samples: list
    truncated: bool = False
    extra: dict = dataclasses.field(default_factory=dict)


def evaluate(m: z3.ModelRef | None, x, depth=0):
    """Symbolic summary -> plain python under model m (for the cross-check)."""
    if isinstance(x, V.SFin):
        if x._chosen is not V._UNRESOLVED:
            x = x._chosen
        elif m is not None:
            x = x._members[m.eval(x.term, model_completion=True).as_long()]
        else:
            return '<fin>'
    if isinstance(x, V.SJson):
        return V.json_to_py(m, x.term) if m is not None else '<json>'
    if isinstance(x, V.SV):
        if m is None:
            return '<sym>'
        return V.term_to_py(m, m.eval(x.term, model_completion=True))
    if z3.is_expr(x):
        return V.term_to_py(m, m.eval(x, model_completion=True)) if m is not None else '<term>'
    if isinstance(x, (str, int, float, bool, type(None))):
        return x
    if depth > 6:
        return '<deep>'
    if isinstance(x, (list, tuple)):
        return [evaluate(m, y, depth + 1) for y in x]
    if isinstance(x, dict):
        return {str(k): evaluate(m, v, depth + 1) for k, v in x.items()}
    if isinstance(x, (set, frozenset)):
        return sorted(repr(evaluate(m, y, depth + 1)) for y in x)
    import enum, fractions
    if isinstance(x, enum.Enum):
        return f'{type(x).__name__}.{x.name}'
    if isinstance(x, fractions.Fraction):
        return x
    if isinstance(x, type):
        return x.__name__
    if isinstance(x, V.Absent):
        return x
    return f'<{type(x).__name__}>'


def _norm(x):
    """Normalise numbers so Fraction(1,1) == 1 == 1.0 compare equal in summaries."""
    import fractions
    if isinstance(x, bool) or x is None or isinstance(x, str):
        return x
    if isinstance(x, (int, float, fractions.Fraction)):
        try:
            return fractions.Fraction(x)
        except (ValueError, OverflowError):
            return repr(x)
    if isinstance(x, (list, tuple)):
        return [_norm(y) for y in x]
    if isinstance(x, dict):
        return {k: _norm(v) for k, v in x.items() if not isinstance(v, V.Absent)}
    return x


def run_harness(h: Harness, *, tier: str, known_active: set[str], seed: int = 0) -> HarnessResult:
    t0 = time.time()
    timeout_ms = h.timeout_ms if tier == 'quick' else h.timeout_ms * 6
    sources: list = []
    problems: list[str] = []

    def body(eng: Engine):
        vc = Ctx(h, eng, known_active)
        try:
            return h.fn(vc)
        finally:
            for ld in vc.loaded:
                s = (os.path.relpath(ld.path, _loader.repo_root()), ld.qualname, ld.lineno, ld.end_lineno)
                if s not in sources:
                    sources.append(s)

    # -- symbolic exploration (with per-path model + evaluated summary)
    stack: list[list[int]] = [[]]
    paths: list[_engine.PathResult] = []
    solver_s = 0.0
    assumptions: set[str] = set(h.assumes)
    stubs: set[str] = set()
    truncated = False
    preds: list = []
    shared: dict = {}
    smt_samples: list = []
    while stack:
        if len(paths) >= h.max_paths:
            truncated = True
            break
        ch = stack.pop()
        eng = Engine(ch, timeout_ms=timeout_ms, path_no=len(paths), shared=shared)
        eng.want_sample = len(smt_samples) < 1
        try:
            outcome, res = _engine.run_once(body, eng)
        except Exception as e:
            where = _own_unbound_variable(e)
            if where is not None:
                # the verified code itself reads a variable it never assigned on this (feasible) path: a crash of the
                # real function, decided -- not a limit of the checker
                eng.obligations.append(_engine.Obligation(
                    name=f'{h.id}.no_unbound_variable', path=eng.path_no, status='refuted', backend='cpython', ms=0.0,
                    model=eng.current_model(), decisions=[c for _, c, k in eng.taken if k == 'n'],
                    note=f'{type(e).__name__}: {e} at {where}'))
                outcome, res = 'done', ('crash', type(e).__name__)
                eng.no_crosscheck = True
            else:
                outcome, res = f'error:{type(e).__name__}: {e}\n{traceback.format_exc(limit=14)}', None
        for i in range(len(ch), len(eng.taken)):
            n, c, _k = eng.taken[i]
            for alt in range(n):
                if alt != c:
                    stack.append([x for _, x, _ in eng.taken[:i]] + [alt])
        model = pred = None
        if outcome == 'end' and eng.backedge:
            outcome = 'backedge'
        if outcome in ('done', 'backedge') and h.native_check and not eng.no_crosscheck:
            if eng.solver.check() == z3.sat:
                m = eng.finite_model()
                model = eng._extract_model(m)
                pred = evaluate(m, res)
        paths.append(_engine.PathResult(no=len(paths), decisions=[c for _, c, k in eng.taken if k == 'n'],
                                        outcome=outcome, obligations=eng.obligations, n_trace=len(eng.trace),
                                        model=model, predicted=None))
        preds.append(pred)
        if eng.sample is not None:
            smt_samples.append(eng.sample)
        solver_s += eng.solver_s
        assumptions |= eng.assumptions
        stubs |= eng.stubs_used
    if truncated:
        problems.append(f'path budget {h.max_paths} exhausted: exploration incomplete')

    for p in paths:
        if p.outcome.startswith('unsupported') or p.outcome.startswith('error'):
            problems.append(f'path {p.no}: {p.outcome}')

    # -- obligations
    obs = [o for p in paths for o in p.obligations]
    by_clause: dict[str, dict[str, int]] = {}
    canaries_refuted = {f'{h.id}.{c}': False for c in h.canaries}
    for o in obs:
        if o.canary:
            if o.status == 'refuted':
                canaries_refuted[o.name] = True
            continue
        d = by_clause.setdefault(o.name, dict(proved=0, refuted=0, unknown=0, known=0))
        d[o.status] += 1
    for c in h.clauses:
        name = f'{h.id}.{c}'
        if name not in by_clause and not any(k.startswith(name) for k in by_clause):
            problems.append(f'vacuity: clause {name} produced no obligation')
    for cname, ok in canaries_refuted.items():
        if not ok:
            problems.append(f'vacuity: canary {cname} was not refuted (engine or precondition vacuous)')
    if not any(p.outcome in ('done', 'backedge') for p in paths):
        problems.append('vacuity: no path ran to completion')

    # -- CPython cross-check of explored paths
    crosschecked = 0
    mismatches: list[str] = []
    if h.native_check:
        done = [i for i, p in enumerate(paths) if p.outcome in ('done', 'backedge') and p.model is not None]
        limit = 60 if tier == 'quick' else 100000
        step = max(1, len(done) // limit)
        for i in done[::step]:
            p = paths[i]
            if not _representable(p.model):
                # the solver's witness is not a JSON document (an object with a value for 'every other key', a list holding
                # 'absent'): CPython cannot run it; the path stays verified symbolically, it is just not cross-checked
                continue
            try:
                eng = Engine(model=p.model, decisions=p.decisions)
                outcome, res = _engine.run_once(body, eng)
            except Exception as e:
                outcome, res, eng = f'error:{type(e).__name__}: {e}', None, None
            crosschecked += 1
            if outcome == 'end' and eng is not None and eng.backedge:
                outcome = 'backedge'
            if outcome != p.outcome:
                mismatches.append(f'path {p.no}: concrete run ended with {outcome!r} (symbolic: {p.outcome}) model={_brief(p.model)}')
                continue
            bad = [n for n, ok in eng.conc_results if not ok]
            sym_status = {}
            for o in p.obligations:
                sym_status.setdefault(o.name, []).append(o.status)
            for n in bad:
                sts = sym_status.get(n, [])
                if sts and all(s == 'proved' for s in sts):
                    mismatches.append(f'path {p.no}: {n} proved symbolically but false on the concrete run, model={_brief(p.model)}')
            cres = _norm(evaluate(None, res))
            if p.outcome == 'done' and _norm(preds[i]) != cres:
                mismatches.append(f'path {p.no}: predicted outcome {preds[i]!r} != CPython outcome {cres!r}, model={_brief(p.model)}')
    for mm in mismatches:
        problems.append('cross-check: ' + mm)

    samples = list(smt_samples)
    for o in obs:
        if o.status == 'proved' and not o.canary and len(samples) < 2:
            samples.append(dict(obligation=o.name, path=o.path, status=o.status, backend=o.backend))
    return HarnessResult(
        id=h.id, targets=h.targets, props=h.props, kind=h.kind, paths=len(paths),
        paths_done=sum(1 for p in paths if p.outcome in ('done', 'backedge')),
        obligations=[dataclasses.asdict(o) for o in obs], by_clause=by_clause,
        canaries_refuted=canaries_refuted, problems=problems, crosschecked=crosschecked,
        crosscheck_mismatch=mismatches, wall_s=time.time() - t0, solver_s=solver_s,
        stubs_used=sorted(stubs), assumptions=sorted(assumptions) + [f'trusted: {t}' for t in h.trusted],
        sources=sources, samples=samples, truncated=truncated)


def _representable(model, depth=0) -> bool:
    from .values import ABSENT
    if depth > 12:
        return True
    if isinstance(model, dict):
        if '<every-other-key>' in model or '<unparsed>' in model:
            return False
        return all(_representable(v, depth + 1) for v in model.values())
    if isinstance(model, (list, tuple)):
        return all(x is not ABSENT and _representable(x, depth + 1) for x in model)
    return True


def _own_unbound_variable(e: BaseException):
    """'file:line' if `e` is a NameError/UnboundLocalError raised by a statement of the verified code itself (the
    innermost frame belongs to a file of the repository under verification), else None."""
    if not isinstance(e, NameError):            # UnboundLocalError is a NameError
        return None
    tb = e.__traceback__
    if tb is None:
        return None
    while tb.tb_next is not None:
        tb = tb.tb_next
    fn = tb.tb_frame.f_code.co_filename
    root = os.path.realpath(_loader.repo_root())
    if os.path.realpath(fn).startswith(os.path.join(root, 'kopf') + os.sep):
        return f'{os.path.relpath(os.path.realpath(fn), root)}:{tb.tb_lineno} in {tb.tb_frame.f_code.co_name}'
    return None


def _brief(model):
    s = repr(model)
    return s if len(s) < 300 else s[:297] + '...'


def replay(h: Harness, model: dict, decisions: list, known_active: set[str]):
    """Concrete re-run of one refuted obligation's model on the real code."""
    def body(eng: Engine):
        return h.fn(Ctx(h, eng, known_active))
    eng = Engine(model=model, decisions=decisions)
    try:
        outcome, res = _engine.run_once(body, eng)
    except Exception as e:
        where = _own_unbound_variable(e)
        if where is not None:
            return 'done', ('crash', type(e).__name__), eng.conc_results + [(f'{h.id}.no_unbound_variable', False)]
        return f'error:{type(e).__name__}: {e}', None, []
    return outcome, evaluate(None, res), eng.conc_results
