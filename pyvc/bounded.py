"""
pyvc.bounded -- Tier 2: bounded stand-ins (labelled B, never counted as proved).

The *same* contract clause that would be a VC is evaluated as an executable predicate on the real
function over a stated finite universe (exhaustively) plus seeded random larger instances.
"""
from __future__ import annotations

import dataclasses
import random
import time
import traceback
from typing import Any, Callable

from .harness import Harness, HarnessResult, REGISTRY


def bounded(id: str, *, targets, props, clauses, universe: str, **kw):
    """Register a bounded check.  `fn(b: BCtx)` enumerates its universe and calls b.check(...)."""
    def deco(fn):
        if id in REGISTRY:
            raise RuntimeError(f'duplicate harness id {id}')
        h = Harness(id=id, fn=fn, targets=[targets] if isinstance(targets, str) else list(targets),
                    props=list(props), clauses=list(clauses), canaries=[], doc=(fn.__doc__ or '').strip(),
                    kind='bounded', **kw)
        h.universe = universe
        REGISTRY[id] = h
        return fn
    return deco


class BCtx:
    def __init__(self, h: Harness, tier: str, seed: int, known_active: set[str]):
        self.h, self.tier, self.seed = h, tier, seed
        self.rng = random.Random(seed)
        self.known_active = known_active
        self.evaluations = 0
        self.nontrivial: set = set()
        self.nontrivial_count = 0
        self.by_clause: dict[str, dict[str, int]] = {}
        self.failures: list[dict] = []
        self.known_hits: dict[str, dict] = {}
        self.samples: list = []
        self.exhaustive = True
        self.notes: list[str] = []

    @property
    def thorough(self) -> bool:
        return self.tier == 'thorough'

    def case(self, key=None, nontrivial: bool = True, sample=None):
        """Count one evaluated case; `key` (hashable) makes the non-trivial count a count of distinct cases."""
        self.evaluations += 1
        if nontrivial:
            if key is None:
                self.nontrivial_count += 1
            else:
                try:
                    self.nontrivial.add(key)
                except TypeError:
                    self.nontrivial.add(repr(key))
        if sample is not None and len(self.samples) < 3:
            self.samples.append(sample)

    def check(self, clause: str, ok: bool, witness: Callable[[], Any] | Any = None, *, excuse: str | None = None):
        name = f'{self.h.id}.{clause}'
        d = self.by_clause.setdefault(name, dict(proved=0, refuted=0, unknown=0, known=0))
        if ok:
            d['proved'] += 1
            return True
        w = witness() if callable(witness) else witness
        if excuse and excuse in self.known_active:
            d['known'] += 1
            self.known_hits.setdefault(excuse, dict(name=name, witness=w))
            return False
        d['refuted'] += 1
        if sum(1 for f in self.failures if f['name'] == name) < 3:
            self.failures.append(dict(name=name, witness=w))
        return False

    def sampled(self, note: str):
        """Call when part of the universe is sampled rather than enumerated."""
        self.exhaustive = False
        self.notes.append(note)


def run_bounded(h: Harness, *, tier: str, known_active: set[str], seed: int = 0) -> HarnessResult:
    t0 = time.time()
    b = BCtx(h, tier, seed, known_active)
    problems: list[str] = []
    try:
        h.fn(b)
    except Exception as e:
        problems.append(f'error:{type(e).__name__}: {e}\n{traceback.format_exc(limit=12)}')
    for c in h.clauses:
        name = f'{h.id}.{c}'
        if name not in b.by_clause:
            problems.append(f'vacuity: clause {name} was never evaluated')
    obligations = []
    for f in b.failures:
        obligations.append(dict(name=f['name'], path=0, status='refuted', backend='bounded-enumeration', ms=0.0,
                                goal_smt='', model=_plain(f['witness']), decisions=[], note='bounded', canary=False))
    for fid, k in b.known_hits.items():
        obligations.append(dict(name=k['name'], path=0, status='known', backend='bounded-enumeration', ms=0.0,
                                goal_smt='', model=_plain(k['witness']), decisions=[], note=fid, canary=False))
    n_ok = sum(d['proved'] for d in b.by_clause.values())
    obligations.append(dict(name=f'{h.id}.<{n_ok} bounded evaluations passed>', path=0, status='proved',
                            backend='bounded-enumeration', ms=0.0, goal_smt='', model=None, decisions=[], note='bounded',
                            canary=False))
    distinct = len(b.nontrivial) + b.nontrivial_count
    if b.evaluations == 0:
        problems.append('vacuity: zero evaluations')
    return HarnessResult(
        id=h.id, targets=h.targets, props=h.props, kind='bounded', paths=b.evaluations, paths_done=b.evaluations,
        obligations=obligations, by_clause=b.by_clause, canaries_refuted={}, problems=problems,
        crosschecked=0, crosscheck_mismatch=[], wall_s=time.time() - t0, solver_s=0.0, stubs_used=[],
        assumptions=[f'BOUNDED (not proved): {h.id} over {getattr(h, "universe", "?")}'] + list(h.assumes)
                    + [f'trusted: {t}' for t in h.trusted],
        sources=_sources(h), samples=[dict(bounded_case=_plain(s)) for s in b.samples],
        extra=dict(universe=getattr(h, 'universe', ''), evaluations=b.evaluations, distinct_nontrivial=distinct,
                   exhaustive=b.exhaustive, notes=b.notes, clauses={k: v for k, v in b.by_clause.items()}))


def _sources(h: Harness):
    """Locate the real functions named as targets (file + line range), so the evidence names them."""
    import ast
    import os
    from . import loader
    out = []
    for t in h.targets:
        parts = t.split('.')
        for i in range(len(parts) - 1, 0, -1):
            modname, qual = '.'.join(parts[:i]), '.'.join(parts[i:])
            try:
                mod, path, tree = loader.module_source(modname)
                node = loader.find_def(tree, qual)
                out.append((os.path.relpath(path, loader.repo_root()), qual, node.lineno, node.end_lineno))
                break
            except Exception:
                continue
    return out


def _plain(x, depth=0):
    if isinstance(x, (str, int, float, bool)) or x is None:
        return x
    if depth > 6:
        return repr(x)
    if isinstance(x, dict):
        return {str(k): _plain(v, depth + 1) for k, v in x.items()}
    if isinstance(x, (list, tuple, set, frozenset)):
        return [_plain(v, depth + 1) for v in x]
    return repr(x)
