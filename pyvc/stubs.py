"""Small building blocks for contract stubs used by harnesses."""
from __future__ import annotations

from ._safe import isinstance

from typing import Any

from .engine import E, Unsupported
from . import values as V


class Opaque:
    """An object the verified code may only pass around, test for truth, or compare by identity."""
    def __init__(self, name: str, truth: Any = True, **attrs):
        self._name = name
        self._truth = truth
        self.__dict__.update(attrs)

    def __bool__(self):
        t = self._truth
        return bool(t)

    def __repr__(self):
        return f'<{self._name}>'

    def __format__(self, spec):
        return repr(self)


class NullLogger:
    """Stands for every logger: accepts any call, evaluates nothing, has no effect (stated assumption)."""
    def __getattr__(self, name):
        def _log(*a, **kw):
            return None
        return _log


class Recorder:
    """A callable stub that records its calls on the ghost trace and returns what `result` yields."""
    def __init__(self, name: str, result=None, is_async=False):
        self.name = name
        self.result = result
        self.calls: list[tuple[tuple, dict]] = []

    def __call__(self, *a, **kw):
        self.calls.append((a, kw))
        E().emit(self.name, a, kw)
        r = self.result
        return r(*a, **kw) if callable(r) else r


def seq_index(trace, name):
    """Positions of events called `name` on the ghost trace."""
    return [i for i, ev in enumerate(trace) if ev and ev[0] == name]


# =============================================================================== time & asyncio
class Clock:
    """Ghost event-loop clock: a real that only moves forward, and only at suspension points."""
    def __init__(self, name='clock'):
        self.name = name
        self.now = V.draw_real(name + '0')

    def advance(self, at_least=0):
        new = V.draw_real(self.name)
        E().assume(new >= self.now + at_least, 'clock is monotone')
        self.now = new
        return new

    def time(self):
        return self.now


class StubLoop:
    def __init__(self, clock: Clock):
        self.clock = clock

    def time(self):
        return self.clock.now


class StubEvent:
    """asyncio.Event by contract: a boolean cell; `wait()` suspends until it is set."""
    def __init__(self, name='event', state=None):
        self.name = name
        self.state = V.draw_bool(name + '.is_set') if state is None else state

    def is_set(self):
        return self.state

    def set(self):
        self.state = True
        E().emit('event.set', self.name)

    def clear(self):
        self.state = False
        E().emit('event.clear', self.name)

    def havoc(self, only_set=False):
        new = V.draw_bool(self.name + '.is_set')
        if only_set:
            E().assume(V.Implies(self.state, new), 'event is not cleared by others')
        self.state = new

    async def wait(self):
        from .loader import suspend
        if not self.state:
            await suspend('event.wait')
            self.state = True
        return True


def make_sleep(clock: Clock, on_suspend=None):
    """
    Contract T1 of kopf._cogs.aiokits.aiotime.sleep(delays, wakeup) -> float | None:
      m := min of the non-None delays (0 if none).   m <= 0  =>  returns None at once, no suspension.
      wakeup given and already set  =>  returns m (>= 0) at once WITHOUT suspending.
      otherwise suspends, and either  (timed out)  returns None with clock' >= clock + m,
                                 or   (woken, only if wakeup is not None)  returns r = max(0, m - (clock'-clock)),
                                      0 <= r <= m, with the wakeup event set.
    Every call is recorded on the ghost trace as ('sleep', m, wakeup, result, kind, clock-at-call).
    """
    from .loader import suspend

    async def sleep(delays, wakeup=None):
        eng = E()
        if isinstance(delays, V.SSeq):
            raise Unsupported('sleep over a symbolic list of delays: pass the minimum explicitly in the harness')
        if isinstance(delays, (list, tuple, set, frozenset)):
            actual = [d for d in delays if d is not None]
            m = 0
            if actual:
                m = actual[0]
                for d in actual[1:]:
                    m = V.If(d < m, d, m)
        else:
            m = 0 if delays is None else delays
        if m <= 0:
            eng.emit('sleep', m, wakeup, None, 'nosleep', clock.now)
            return None
        if wakeup is not None and wakeup.is_set():
            eng.emit('sleep', m, wakeup, m, 'already-set', clock.now)
            return m
        t0 = clock.now
        await suspend('aiotime.sleep')
        if on_suspend is not None:
            on_suspend('aiotime.sleep')
        can_wake = wakeup is not None
        if can_wake and eng.nondet(2, 'sleep: timed out / woken') == 1:
            clock.advance(0)
            wakeup.state = True
            passed = clock.now - t0
            r = V.If(m - passed > 0, m - passed, 0)
            eng.emit('sleep', m, wakeup, r, 'woken', t0)
            return r
        clock.advance(m)
        eng.emit('sleep', m, wakeup, None, 'timeout', t0)
        return None
    return sleep


def _floor(x):
    import math
    import z3
    if isinstance(x, V.SNum):
        return x if x.is_int else V.SNum(z3.ToInt(x.term), True)
    return math.floor(x)


# ---- datetime as reals --------------------------------------------------------------------------
class STd:
    """datetime.timedelta as a (symbolic or concrete) number of seconds."""
    def __init__(self, seconds=0, **kw):
        if kw:
            raise Unsupported(f'timedelta({list(kw)})')
        self.s = seconds

    def total_seconds(self): return self.s

    # the three components of a real timedelta (normalised: 0 <= seconds < 86400, 0 <= microseconds < 10**6)
    @property
    def days(self):
        return _floor(self.s / 86400)

    @property
    def seconds(self):
        return _floor(self.s) - 86400 * self.days

    @property
    def microseconds(self):
        return _floor((self.s - _floor(self.s)) * 1000000)

    def __add__(self, o):
        if isinstance(o, STd): return STd(self.s + o.s)
        if isinstance(o, SDt): return SDt(o.t + self.s)
        return NotImplemented
    __radd__ = __add__
    def __sub__(self, o):
        if isinstance(o, STd): return STd(self.s - o.s)
        return NotImplemented
    def __neg__(self): return STd(-self.s)
    def __lt__(self, o): return self.s < o.s
    def __le__(self, o): return self.s <= o.s
    def __gt__(self, o): return self.s > o.s
    def __ge__(self, o): return self.s >= o.s
    def __eq__(self, o): return isinstance(o, STd) and V.Eq(self.s, o.s)
    def __hash__(self): return id(self)
    def __bool__(self): return bool(self.s != 0)
    def __repr__(self): return f'STd({self.s})'
    def __format__(self, spec): return repr(self)


class SDt:
    """datetime.datetime (UTC) as seconds since an arbitrary epoch."""
    def __init__(self, t):
        self.t = t

    def __add__(self, o):
        if isinstance(o, STd): return SDt(self.t + o.s)
        return NotImplemented
    __radd__ = __add__
    def __sub__(self, o):
        if isinstance(o, STd): return SDt(self.t - o.s)
        if isinstance(o, SDt): return STd(self.t - o.t)
        return NotImplemented
    def __lt__(self, o): return self.t < o.t
    def __le__(self, o): return self.t <= o.t
    def __gt__(self, o): return self.t > o.t
    def __ge__(self, o): return self.t >= o.t
    def __eq__(self, o): return isinstance(o, SDt) and V.Eq(self.t, o.t)
    def __hash__(self): return id(self)
    def __repr__(self): return f'SDt({self.t})'
    def __format__(self, spec): return repr(self)


class StubDatetimeModule:
    """Stands for the `datetime` module inside a verified function: timedelta(seconds=x), arithmetic."""
    timedelta = STd
    datetime = SDt

    class timezone:
        utc = 'UTC'


def exception_reps(named, with_base=True):
    """
    Representative exception classes for "any exception": every named class, a fresh subclass of
    each, a fresh class inheriting from each *pair* of unrelated named classes (where Python allows),
    every proper base of a named class below Exception and a fresh sibling under each such base, an unrelated Exception and
    (optionally) an unrelated BaseException.  Complete w.r.t. except-clause matching on the named classes for single and
    double inheritance, and sensitive to an except-clause widened to a parent class.
    """
    named = list(dict.fromkeys(named))
    reps = list(named)
    for c in named:
        reps.append(type(f'Sub_{c.__name__}', (c,), {}))
    # the neighbourhood in the class hierarchy: the proper bases of every named class up to (not including) Exception --
    # an except-clause WIDENED to a parent class, or a class re-parented under a named one, changes which of these match --
    # and a fresh sibling under each such base (an error of the same family that is none of the named ones)
    stop = {Exception, BaseException, object}
    for c in named:
        for base in c.__mro__[1:]:
            if base in stop or not (isinstance(base, type) and issubclass(base, BaseException)):
                continue
            if base not in reps:
                reps.append(base)
            sib = f'Sibling_under_{base.__name__}'
            if not any(r.__name__ == sib for r in reps):
                try:
                    reps.append(type(sib, (base,), {}))
                except TypeError:
                    pass
    for i, a in enumerate(named):
        for b in named[i + 1:]:
            if issubclass(a, b) or issubclass(b, a):
                continue
            try:
                reps.append(type(f'Both_{a.__name__}_{b.__name__}', (a, b), {}))
            except TypeError:
                pass
    reps.append(type('UnrelatedError', (Exception,), {}))
    if with_base:
        reps.append(type('UnrelatedBaseException', (BaseException,), {}))
    return reps
