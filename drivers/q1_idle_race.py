"""
Native schedule driver for obligation Q1.idle_exit_leaves_no_event / Q1.order_invariant (C01):
forces, on the REAL queueing.worker of the tree given by PYTHONPATH, the one schedule its authors could not test --
the idle time-out fires in the same loop cycle in which the watcher has just put a new event into the backlog --
and checks that every delivered event is processed exactly once, in order.
exit 0: the property held on this schedule; exit 1: violated (prints what was lost/duplicated).
"""
import asyncio, json, sys, types
from kopf._core.reactor import queueing
from kopf._cogs.configs import configuration


async def main():
    settings = configuration.OperatorSettings()
    settings.queueing.idle_timeout = 0.01
    key = ('res', 'uid1')
    streams = {key: queueing.Stream(backlog=asyncio.Queue(), pressure=asyncio.Event())}
    e1 = {'type': 'ADDED', 'object': {'metadata': {'uid': 'uid1', 'resourceVersion': '1'}}}
    e2 = {'type': 'MODIFIED', 'object': {'metadata': {'uid': 'uid1', 'resourceVersion': '2'}}}
    delivered, processed = [e1], []
    streams[key].backlog.put_nowait(e1)

    async def processor(*, raw_event, **_):
        processed.append(raw_event)
        return None
    real_wait_for = asyncio.wait_for
    calls = {'n': 0}

    async def racing_wait_for(aw, timeout):
        calls['n'] += 1
        if calls['n'] == 2:                # the first idle wait after e1: the race
            aw.close()                     # the inner get() is cancelled and consumes nothing (asyncio.Queue contract)
            streams[key].backlog.put_nowait(e2)     # the watcher's put lands in the same loop cycle ...
            delivered.append(e2)
            raise asyncio.TimeoutError()   # ... in which the worker is resumed with the time-out
        return await real_wait_for(aw, timeout)
    proxy = types.SimpleNamespace(**{k: getattr(asyncio, k) for k in dir(asyncio)})
    proxy.wait_for = racing_wait_for
    queueing.asyncio = proxy
    try:
        await asyncio.wait_for(queueing.worker(signaller=asyncio.Condition(), settings=settings, processor=processor,
                                               streams=streams, key=key), timeout=5)
    finally:
        queueing.asyncio = asyncio
    left = streams[key].backlog.qsize() if key in streams else 0
    ok = [e['object']['metadata']['resourceVersion'] for e in processed] == [e['object']['metadata']['resourceVersion'] for e in delivered]
    print(json.dumps(dict(schedule='queue filled in the loop cycle in which the idle time-out fires',
                          delivered=[e['object']['metadata']['resourceVersion'] for e in delivered],
                          processed=[e['object']['metadata']['resourceVersion'] for e in processed],
                          left_in_removed_stream=left, held=ok)))
    return 0 if ok else 1

sys.exit(asyncio.run(main()))
