#!/usr/bin/env python3
"""usage: first_run.py SEED-ID "caught|missed: ..."  -- records the verdict of the first matrix run in seeded/<id>/meta.json (+ detected_by)"""
import json, sys
sid, verdict = sys.argv[1:3]
p = f'/verif/seeded/{sid}/meta.json'; m = json.load(open(p))
det = json.load(open(f'/verif/seeded/{sid}/detected.json'))
m['detected_by'] = [x for x in det['caught_by'] if x != 'no-failing-input-found'] or 'NOT DETECTED'
m['first_run'] = verdict
json.dump(m, open(p, 'w'), indent=1)
print(sid, m['detected_by'], verdict)
