#!/usr/bin/env python3
"""
usage: add_prop_clauses.py PROP file.json [--dry]
file.json = {"<harness id>": {"clauses": [...], "why": "..."}}: registers the named clauses of each harness for PROP by editing
the decorator in contracts/*.py: PROP is appended to props=[...] and prop_clauses={...} gets/extends the entry for PROP.
A harness already registered for PROP with all its clauses (PROP in props, no prop_clauses entry) is left alone.
Unknown clause names are reported and skipped.
"""
import ast, glob, json, re, sys
prop, path = sys.argv[1], sys.argv[2]
dry = '--dry' in sys.argv
want = json.load(open(path))


def decorator_span(s, hid):
    m = re.search(r"@(?:harness|bounded)\('%s'," % re.escape(hid), s)
    if not m:
        return None
    i = s.index('(', m.start())
    depth, j, q = 0, i, None
    while j < len(s):
        c = s[j]
        if q:
            if c == '\\':
                j += 1
            elif s.startswith(q, j):
                j += len(q) - 1
                q = None
        elif c in '\'"':
            q = s[j:j + 3] if s[j:j + 3] in ("'''", '"""') else c
            j += len(q) - 1
        elif c == '#':
            j = s.index('\n', j)
        elif c in '([{':
            depth += 1
        elif c in ')]}':
            depth -= 1
            if depth == 0:
                return m.start(), j + 1
        j += 1
    return None


def balanced(s, i):
    """index just after the bracket expression that starts at s[i]"""
    depth, j, q = 0, i, None
    while j < len(s):
        c = s[j]
        if q:
            if c == '\\':
                j += 1
            elif c == q:
                q = None
        elif c in '\'"':
            q = c
        elif c in '([{':
            depth += 1
        elif c in ')]}':
            depth -= 1
            if depth == 0:
                return j + 1
        j += 1
    raise ValueError


done = set()
for f in sorted(glob.glob('/verif/contracts/*.py')):
    s = open(f).read()
    changed = False
    for hid, spec in want.items():
        if hid in done:
            continue
        span = decorator_span(s, hid)
        if span is None:
            continue
        a, b = span
        deco = s[a:b]
        try:
            call = ast.parse(deco.lstrip('@')).body[0].value
        except SyntaxError as e:
            print(f'{hid}: cannot parse the decorator ({e}); skipped'); done.add(hid); continue
        kw = {k.arg: k.value for k in call.keywords}
        try:
            props = ast.literal_eval(kw['props']); clauses = ast.literal_eval(kw['clauses'])
        except Exception:
            print(f'{hid}: props/clauses are not literals; skipped'); done.add(hid); continue
        pc = ast.literal_eval(kw['prop_clauses']) if 'prop_clauses' in kw else {}
        if prop in props and prop not in pc:
            print(f'{hid}: already registered for {prop} with all clauses'); done.add(hid); continue
        good = [c for c in spec['clauses'] if c in clauses]
        bad = [c for c in spec['clauses'] if c not in clauses]
        if bad:
            print(f'{hid}: unknown clauses skipped: {bad}')
        new = [c for c in good if c not in pc.get(prop, [])]
        if not new:
            done.add(hid); continue
        pc[prop] = list(pc.get(prop, [])) + new
        if set(pc[prop]) >= set(clauses):
            del pc[prop]                       # all clauses: plain registration
        # -- rewrite props
        m = re.search(r"props=\[", deco)
        e = balanced(deco, m.end() - 1)
        cur = deco[m.end():e - 1]
        if prop not in props:
            deco = deco[:m.end()] + cur.rstrip() + f", '{prop}'" + deco[e - 1:]
        # -- rewrite / insert prop_clauses
        text = 'prop_clauses=' + '{' + ', '.join(f"'{k}': {v!r}" for k, v in pc.items()) + '}'
        m2 = re.search(r"prop_clauses=\{", deco)
        if m2:
            e2 = balanced(deco, m2.end() - 1)
            deco = deco[:m2.start()] + (text if pc else '') + deco[e2:]
            if not pc:
                deco = re.sub(r",\s*,", ',', deco)
        elif pc:
            m = re.search(r"props=\[", deco)
            e = balanced(deco, m.end() - 1)
            deco = deco[:e] + ',\n         ' + text + deco[e:]
        # -- a clause restricted by clause_props={clause: [props]} must list PROP there too
        if 'clause_props' in kw:
            cp = ast.literal_eval(kw['clause_props'])
            touched = False
            for c in new:
                for k in cp:
                    if (c == k or c.startswith(k + '.')) and prop not in cp[k]:
                        cp[k] = list(cp[k]) + [prop]; touched = True
            if touched:
                m3 = re.search(r"clause_props=\{", deco)
                e3 = balanced(deco, m3.end() - 1)
                deco = deco[:m3.start()] + 'clause_props={' + ', '.join(f"'{k}': {v!r}" for k, v in cp.items()) + '}' + deco[e3:]
        try:
            ast.parse(deco.lstrip('@'))
        except SyntaxError as ex:
            print(f'{hid}: rewrite failed ({ex}); skipped'); done.add(hid); continue
        s = s[:a] + deco + s[b:]
        changed = True
        done.add(hid)
        print(f'{hid}: {prop} += {new}  ({f.split("/")[-1]})')
    if changed and not dry:
        open(f, 'w').write(s)
for hid in want:
    if hid not in done:
        print(f'{hid}: NOT FOUND')
