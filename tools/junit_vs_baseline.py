#!/usr/bin/env python3
"""usage: junit_vs_baseline.py JUNIT.xml -- every stable_pass test id of /root/.vp/BASELINE.json must pass in the junit file"""
import json, sys, xml.etree.ElementTree as ET
base = json.load(open('/root/.vp/BASELINE.json'))
stable = base['stable_pass']
if isinstance(stable, str):
    import ast; stable = ast.literal_eval(stable)
passed = set()
for tc in ET.parse(sys.argv[1]).getroot().iter('testcase'):
    ok = not any(ch.tag in ('failure', 'error', 'skipped') for ch in tc)
    if ok:
        passed.add(f"{tc.get('classname')}::{tc.get('name')}")
missing = [t for t in stable if t not in passed]
print(f'stable={len(stable)} passed_now={len(passed)} stable_not_passing={len(missing)}')
for t in missing[:20]:
    print('  ', t)
sys.exit(1 if missing else 0)
