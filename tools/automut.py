#!/verif/.venv/bin/python
"""
Systematic mutation audit of the contracts: for every function under contract, generate small text-level mutants
(negated conditions, swapped comparison / boolean operators, deleted simple statements, break<->continue,
True<->False, numeric constants +1) and run the harnesses that target the function on a scratch copy.
A mutant that every harness accepts without a refutation or problem is a SURVIVOR: either an equivalent/harmless
change or a gap in the contracts -- to be reviewed by hand.

usage: automut.py [--jobs N] [--only-harness ID ...] [--only-target SUBSTR] [--max-per-fn K] [--out FILE]
"""
import argparse, ast, concurrent.futures as cf, json, os, shutil, subprocess, sys, tempfile, textwrap, time

VERIF = os.path.dirname(os.path.dirname(os.path.abspath(__file__)))
sys.path.insert(0, VERIF)


def registry():
    from pyvc import cli
    os.environ.setdefault('PYVC_SCRATCH', os.path.join(VERIF, '.scratch'))
    cli._setup_repo(None)
    return cli.load_contracts()


def locate(target):
    """dotted target -> (relative file, qualname) by longest importable module prefix"""
    parts = target.split('.')
    for i in range(len(parts) - 1, 0, -1):
        rel = os.path.join(*parts[:i]) + '.py'
        if os.path.exists(os.path.join('/repo', rel)):
            return rel, '.'.join(parts[i:])
    return None, None


def find_def(tree, qual):
    body, node = tree.body, None
    for p in qual.split('.'):
        node = None
        for n in body:
            if isinstance(n, (ast.FunctionDef, ast.AsyncFunctionDef, ast.ClassDef)) and n.name == p:
                node = n
        if node is None:
            return None
        body = node.body
    return node


class Src:
    def __init__(self, text):
        self.text = text
        self.lines = text.split('\n')
        self.offs = [0]
        for l in self.lines:
            self.offs.append(self.offs[-1] + len(l) + 1)

    def pos(self, lineno, col):       # col is a utf8 byte offset in ast; sources here are ascii-safe enough
        line = self.lines[lineno - 1]
        col = len(line.encode('utf8')[:col].decode('utf8', 'ignore'))
        return self.offs[lineno - 1] + col

    def seg(self, n):
        return self.text[self.pos(n.lineno, n.col_offset):self.pos(n.end_lineno, n.end_col_offset)]

    def replace(self, a, b, new):
        return self.text[:a] + new + self.text[b:]


def is_logging(stmt):
    if isinstance(stmt, ast.Expr) and isinstance(stmt.value, ast.Call):
        f = ast.unparse(stmt.value.func)
        return 'logger' in f or f.startswith('warnings.') or f.endswith('.debug') or f.endswith('.info') or f.endswith('.warning')
    if isinstance(stmt, ast.Expr) and isinstance(stmt.value, ast.Constant):
        return True     # docstring
    return False


def mutants_of(src: Src, fn):
    out = []     # (description, new_text)
    CMP = {ast.Lt: '<=', ast.LtE: '<', ast.Gt: '>=', ast.GtE: '>', ast.Eq: '!=', ast.NotEq: '==',
           ast.Is: 'is not', ast.IsNot: 'is', ast.In: 'not in', ast.NotIn: 'in'}
    TOK = {ast.Lt: '<', ast.LtE: '<=', ast.Gt: '>', ast.GtE: '>=', ast.Eq: '==', ast.NotEq: '!=',
           ast.Is: 'is', ast.IsNot: 'is not', ast.In: 'in', ast.NotIn: 'not in'}
    for n in ast.walk(fn):
        ln = getattr(n, 'lineno', None)
        if isinstance(n, (ast.If, ast.While)) or isinstance(n, ast.IfExp):
            t = n.test
            a, b = src.pos(t.lineno, t.col_offset), src.pos(t.end_lineno, t.end_col_offset)
            out.append((f'L{t.lineno}: negate condition `{src.seg(t)[:60]}`', src.replace(a, b, f'(not ({src.seg(t)}))')))
        if isinstance(n, ast.Compare) and len(n.ops) == 1 and type(n.ops[0]) in CMP:
            a = src.pos(n.left.end_lineno, n.left.end_col_offset)
            b = src.pos(n.comparators[0].lineno, n.comparators[0].col_offset)
            between = src.text[a:b]
            tok = TOK[type(n.ops[0])]
            if between.strip() == tok and '\n' not in between:
                new = between.replace(tok, CMP[type(n.ops[0])])
                out.append((f'L{n.lineno}: `{src.seg(n)[:60]}`: {tok} -> {CMP[type(n.ops[0])]}', src.replace(a, b, new)))
        if isinstance(n, ast.BoolOp):
            for v1, v2 in zip(n.values, n.values[1:]):
                a = src.pos(v1.end_lineno, v1.end_col_offset); b = src.pos(v2.lineno, v2.col_offset)
                between = src.text[a:b]
                tok = 'and' if isinstance(n.op, ast.And) else 'or'
                if between.strip(' ()\n\\') == tok:
                    new = between.replace(tok, 'or' if tok == 'and' else 'and')
                    out.append((f'L{v1.lineno}: `{tok}` -> `{"or" if tok == "and" else "and"}` in `{src.seg(n)[:60]}`', src.replace(a, b, new)))
        if isinstance(n, (ast.Break, ast.Continue)):
            a, b = src.pos(n.lineno, n.col_offset), src.pos(n.end_lineno, n.end_col_offset)
            out.append((f'L{n.lineno}: {"break" if isinstance(n, ast.Break) else "continue"} swapped',
                        src.replace(a, b, 'continue' if isinstance(n, ast.Break) else 'break')))
        if isinstance(n, ast.Constant) and isinstance(n.value, bool):
            a, b = src.pos(n.lineno, n.col_offset), src.pos(n.end_lineno, n.end_col_offset)
            out.append((f'L{n.lineno}: {n.value} -> {not n.value}', src.replace(a, b, str(not n.value))))
        elif isinstance(n, ast.Constant) and isinstance(n.value, (int, float)) and not isinstance(n.value, bool):
            a, b = src.pos(n.lineno, n.col_offset), src.pos(n.end_lineno, n.end_col_offset)
            out.append((f'L{n.lineno}: constant {n.value} -> {n.value + 1}', src.replace(a, b, repr(n.value + 1))))
        if isinstance(n, (ast.Assign, ast.AugAssign, ast.Expr, ast.Delete)) and not is_logging(n) and n is not fn:
            if isinstance(n, ast.Expr) and isinstance(n.value, (ast.Yield, ast.YieldFrom)):
                continue
            a, b = src.pos(n.lineno, n.col_offset), src.pos(n.end_lineno, n.end_col_offset)
            filler = 'pass' + '\n' * (n.end_lineno - n.lineno)
            # keep `await` semantics out of it: deleting an awaited call is a legitimate mutant too
            out.append((f'L{n.lineno}: delete `{src.seg(n)[:70]}`', src.replace(a, b, filler)))
    # de-duplicate
    seen, uniq = set(), []
    for d, t in out:
        if t not in seen and t != src.text:
            seen.add(t); uniq.append((d, t))
    return uniq


def run_mutant(job):
    rel, qual, desc, text, hids, idx = job
    S = tempfile.mkdtemp(prefix='automut.', dir='/var/tmp')
    try:
        shutil.copytree('/repo/kopf', os.path.join(S, 'kopf'))
        path = os.path.join(S, rel)
        open(path, 'w').write(text)
        try:
            compile(text, path, 'exec')
        except SyntaxError as e:
            return dict(rel=rel, qual=qual, desc=desc, verdict='does-not-compile')
        t0 = time.time()
        try:
            p = subprocess.run([os.path.join(VERIF, '.venv/bin/python'), os.path.join(VERIF, 'tools/run_harness.py'), '--repo', S] + hids,
                               capture_output=True, text=True, timeout=900, env={**os.environ, 'PYTHONHASHSEED': '0'})
            out = p.stdout + p.stderr
        except subprocess.TimeoutExpired:
            return dict(rel=rel, qual=qual, desc=desc, verdict='timeout', harnesses=hids)
        refuted = [l.strip() for l in out.splitlines() if '<<<<<<' in l or l.strip().startswith('REFUTED')]
        problems = [l.strip()[:200] for l in out.splitlines() if 'PROBLEM' in l or 'Traceback' in l or 'Error' in l]
        ran = sum(1 for l in out.splitlines() if any(l.startswith(h + ':') for h in hids))
        if refuted:
            verdict = 'caught'
        elif problems or ran < len(hids):
            verdict = 'undecided'
        else:
            verdict = 'SURVIVED'
        return dict(rel=rel, qual=qual, desc=desc, verdict=verdict, harnesses=hids, s=round(time.time() - t0, 1),
                    first=(refuted or problems or [''])[0][:160])
    finally:
        shutil.rmtree(S, ignore_errors=True)


def main():
    ap = argparse.ArgumentParser()
    ap.add_argument('--jobs', type=int, default=12)
    ap.add_argument('--only-harness', action='append')
    ap.add_argument('--only-target')
    ap.add_argument('--max-per-fn', type=int, default=40)
    ap.add_argument('--out', default=os.path.join(VERIF, '.scratch', 'automut.json'))
    a = ap.parse_args()
    reg = registry()
    by_target = {}
    for h in reg.values():
        if a.only_harness and h.id not in a.only_harness:
            continue
        for t in h.targets:
            by_target.setdefault(t, []).append(h.id)
    jobs = []
    for t, hids in sorted(by_target.items()):
        if a.only_target and a.only_target not in t:
            continue
        rel, qual = locate(t)
        if rel is None:
            continue
        text = open(os.path.join('/repo', rel)).read()
        fn = find_def(ast.parse(text), qual)
        if fn is None or isinstance(fn, ast.ClassDef):
            continue
        ms = mutants_of(Src(text), fn)[:a.max_per_fn]
        for i, (d, newtext) in enumerate(ms):
            jobs.append((rel, qual, d, newtext, sorted(set(hids)), i))
    print(f'{len(jobs)} mutants over {len(by_target)} targets', flush=True)
    res = []
    with cf.ProcessPoolExecutor(max_workers=a.jobs) as ex:
        for r in ex.map(run_mutant, jobs):
            res.append(r)
            if r['verdict'] != 'caught':
                print(f"{r['verdict']:10s} {r['qual']:45s} {r['desc'][:110]}  [{','.join(r.get('harnesses', []))}] {r.get('first','')[:80]}", flush=True)
    os.makedirs(os.path.dirname(a.out), exist_ok=True)
    json.dump(res, open(a.out, 'w'), indent=1)
    from collections import Counter
    print(Counter(r['verdict'] for r in res))


if __name__ == '__main__':
    main()
