#!/bin/bash
# usage: mut.sh PROP file 'python-replace-old' 'new' [--only H]
S=$(mktemp -d /var/tmp/kopfmut.XXXX); cp -r /repo/kopf $S/
python3 - "$S/$2" "$3" "$4" <<'PY'
import sys
p,old,new=sys.argv[1:4]; s=open(p).read()
assert s.count(old)>=1, ('pattern not found', old)
s=s.replace(old,new,1); open(p,'w').write(s)
PY
cd /verif; PYVC_WIP=1 ./check $1 --repo $S ${@:5} 2>&1 | grep -v "^WARNING" | grep -v "^problem" | tail -4; rm -rf $S
