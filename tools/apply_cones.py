#!/verif/.venv/bin/python
"""
Applies the reviewed cones of influence (/verif/cones/<PROP>.json: functions whose misbehaviour breaks the property, each with
a one-sentence justification from a code-reading audit) to the `props=` registration of the harnesses: a harness is registered
for property P when one of its targets is in P's cone.  Bounded harnesses are not added to properties claimed at proof level
(their contracts stay discharged under their own property; the level note says so).  usage: apply_cones.py [--dry]
"""
import glob, json, os, subprocess, sys
sys.path.insert(0, os.path.dirname(os.path.dirname(os.path.abspath(__file__))))
from pyvc import cli
os.environ.setdefault('PYVC_SCRATCH', '/verif/.scratch')
cli._setup_repo(None)
reg = cli.load_contracts()
meta = json.load(open('/verif/manifest_meta.json'))['properties']
proof = {p for p, m in meta.items() if m['category'] == 'proof'}
dry = '--dry' in sys.argv
# Only harnesses of SMALL, single-purpose functions are registered automatically (any misbehaviour of such a function reaches
# everything that depends on it); harnesses of the big orchestrating functions each cover one aspect (H2: finalizer, H3: barrier,
# H4: stealth ... all on process_resource_causes) and are registered by hand, aspect by aspect.  --max-lines N (default 45).
import ast
MAXL = int(sys.argv[sys.argv.index('--max-lines') + 1]) if '--max-lines' in sys.argv else 45
ONLY_HIGH = '--high' in sys.argv
_sizes = {}
def size_of(target):
    if target not in _sizes:
        parts = target.split('.')
        n = 10**6
        for i in range(len(parts) - 1, 0, -1):
            path = os.path.join('/repo', *parts[:i]) + '.py'
            if os.path.exists(path):
                body = ast.parse(open(path).read()).body
                node = None
                for nm in parts[i:]:
                    node = next((x for x in body if isinstance(x, (ast.FunctionDef, ast.AsyncFunctionDef, ast.ClassDef)) and x.name == nm), None)
                    if node is None:
                        break
                    body = node.body
                if node is not None:
                    n = node.end_lineno - node.lineno + 1
                break
        _sizes[target] = n
    return _sizes[target]
adds = {}
manual = {}
for f in sorted(glob.glob('/verif/cones/C*.json')):
    prop = os.path.basename(f)[:-5]
    cone = {e['function']: e for e in json.load(open(f))}
    for h in reg.values():
        if prop in h.props:
            continue
        hit = [t for t in h.targets if (t in cone and (not ONLY_HIGH or cone[t].get('confidence') == 'high'))
               or any(c.startswith(t + '.') and (not ONLY_HIGH or cone[c].get('confidence') == 'high') for c in cone)]
        if not hit:
            continue
        if getattr(h, 'kind', '') == 'bounded' and prop in proof:
            continue
        if max(size_of(t) for t in h.targets) > MAXL:
            manual.setdefault(h.id, []).append(prop)
            continue
        adds.setdefault(h.id, []).append(prop)
args = [f'{hid}:{",".join(sorted(ps))}' for hid, ps in sorted(adds.items())]
print(len(args), 'harnesses get additional properties;', sum(len(p) for p in adds.values()), 'registrations;',
      'left for manual review (big functions):', ' '.join(f'{k}:{",".join(v)}' for k, v in sorted(manual.items())))
if not dry and args:
    print(subprocess.run(['python3', '/verif/tools/add_props.py'] + args, capture_output=True, text=True).stdout)
else:
    print('\n'.join(args))
