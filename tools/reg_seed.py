#!/usr/bin/env python3
"""usage: reg_seed.py PROP ROUND "tests" "what" "needs"  -- keep_seed.sh + meta.json + matrix run for one seeded change"""
import json, subprocess, sys
prop, rnd, tests, what, needs = sys.argv[1:6]
sid = f'{prop}-{rnd}'
print(subprocess.run(['/verif/tools/keep_seed.sh', prop, tests, rnd], capture_output=True, text=True).stdout.strip())
c = json.load(open(f'/verif/seeded/{sid}/confirm.json'))
m = dict(id=sid, property=prop, what=what, needs=needs,
         confirmed=f"demo.py exits {c['demo_exit_with']} with the patch / {c['demo_exit_without']} without; {c['tests_run']} with the change: {c['tests_result']}; the agent also ran the whole suite (same environmental failures with and without)",
         source=f'independent sub-agent, round {rnd} (property text + scratch worktree only' + ('; asked for a less central site)' if rnd != '1' else ')'),
         detected_by='pending')
json.dump(m, open(f'/verif/seeded/{sid}/meta.json', 'w'), indent=1)
out = subprocess.run(['/verif/tools/seeded_matrix.sh', sid], capture_output=True, text=True).stdout.strip()
print(out[:400])
det = json.load(open(f'/verif/seeded/{sid}/detected.json'))
m['detected_by'] = [x for x in det['caught_by'] if x != 'no-failing-input-found'] or 'NOT DETECTED'
json.dump(m, open(f'/verif/seeded/{sid}/meta.json', 'w'), indent=1)
