#!/usr/bin/env python3
"""regenerates the generated tables of DESIGN.md: section 8 (seeded changes) and appendix C (harness catalogue)"""
import re, subprocess
p = '/verif/DESIGN.md'
s = open(p).read()
def sub(s, tag, text):
    a, b = f'<!-- {tag}:begin -->', f'<!-- {tag}:end -->'
    i, j = s.index(a) + len(a), s.index(b)
    return s[:i] + '\n' + text.strip('\n') + '\n' + s[j:]
seed = subprocess.run(['python3', '/verif/tools/seed_table.py'], capture_output=True, text=True).stdout
cat = subprocess.run(['/verif/.venv/bin/python', '/verif/tools/catalog.py'], capture_output=True, text=True).stdout
cat = '\n'.join(l for l in cat.splitlines() if not l.startswith('WARNING'))
s = sub(s, 'seed-table', seed)
s = sub(s, 'catalogue', cat)
open(p, 'w').write(s)
print('DESIGN.md tables regenerated')
