#!/verif/.venv/bin/python
"""lists functions/methods of /repo/kopf that are not a target of any harness taking part in ./check"""
import ast, os, sys
sys.path.insert(0, os.path.dirname(os.path.dirname(os.path.abspath(__file__))))
from pyvc import cli
os.environ.setdefault('PYVC_SCRATCH', '/verif/.scratch')
cli._setup_repo(None)
reg = cli.load_contracts()
targets = set()
for h in reg.values():
    for t in h.targets:
        targets.add(t)
def covered(q):
    return any(t == q or q.startswith(t + '.') for t in targets)
tot = cov = 0
out = {}
for root, _, files in os.walk('/repo/kopf'):
    for f in files:
        if not f.endswith('.py'): continue
        path = os.path.join(root, f)
        mod = path[len('/repo/'):-3].replace('/', '.')
        tree = ast.parse(open(path).read())
        def walk(body, prefix):
            global tot, cov
            for n in body:
                if isinstance(n, (ast.FunctionDef, ast.AsyncFunctionDef)):
                    q = f'{prefix}.{n.name}'
                    size = n.end_lineno - n.lineno + 1
                    # skip trivial: only docstring/pass/raise NotImplementedError/ellipsis
                    stm = [s for s in n.body if not (isinstance(s, ast.Expr) and isinstance(s.value, ast.Constant))]
                    if not stm or all(isinstance(s, (ast.Pass, ast.Raise)) for s in stm):
                        continue
                    tot += 1
                    if covered(q): cov += 1
                    else: out.setdefault(mod, []).append((n.name if prefix == mod else q[len(mod)+1:], size))
                elif isinstance(n, ast.ClassDef):
                    walk(n.body, f'{prefix}.{n.name}')
        walk(tree.body, mod)
print(f'{cov} of {tot} non-trivial functions/methods are a harness target')
for mod in sorted(out):
    print(mod, sum(s for _, s in out[mod]), 'lines:', ', '.join(f'{n}({s})' for n, s in out[mod]))
