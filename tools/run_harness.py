#!/verif/.venv/bin/python
"""Run individual harnesses:  .venv/bin/python tools/run_harness.py [--repo DIR] [--tier quick|thorough] ID [ID ...]"""
import sys, os
sys.path.insert(0, os.path.dirname(os.path.dirname(os.path.abspath(__file__))))
args = sys.argv[1:]
repo = None; tier = 'quick'
while args and args[0].startswith('--'):
    if args[0] == '--repo': repo = args[1]; args = args[2:]
    elif args[0] == '--tier': tier = args[1]; args = args[2:]
    else: break
os.environ.setdefault('PYVC_WIP', '1')
from pyvc import cli
os.environ.setdefault('PYVC_SCRATCH', os.path.join(cli.VERIF, '.scratch')); os.makedirs(os.environ['PYVC_SCRATCH'], exist_ok=True)
cli._setup_repo(repo)
reg = cli.load_contracts()
from pyvc.harness import run_harness
from pyvc.bounded import run_bounded
known = {k['id'] for k in cli.load_known() if k.get('status') == 'known'}
for hid in args:
    h = reg[hid]
    r = (run_harness if h.kind == 'vc' else run_bounded)(h, tier=tier, known_active=known)
    print(f'{hid}: paths={r.paths} done={r.paths_done} crosschecked={r.crosschecked} wall={r.wall_s:.2f}s canaries={r.canaries_refuted}')
    for k, v in r.by_clause.items():
        flag = '' if v['refuted'] == 0 and v['unknown'] == 0 else '   <<<<<<'
        print(f'   {k}: {v}{flag}')
    for p in r.problems[:8]:
        print('   PROBLEM', p[:2500])
    bad = [o for o in r.obligations if o['status'] in ('refuted', 'unknown') and not o['canary']]
    for o in bad[:3]:
        print('   ', o['status'].upper(), o['name'], 'path', o['path'], 'model', str(o['model'])[:600])
