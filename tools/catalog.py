#!/verif/.venv/bin/python
"""prints the markdown catalogue of all harnesses that take part in ./check (DESIGN.md appendix C)"""
import os, sys
sys.path.insert(0, os.path.dirname(os.path.dirname(os.path.abspath(__file__))))
from pyvc import cli
os.environ.setdefault('PYVC_SCRATCH', '/verif/.scratch')
cli._setup_repo(None)
reg = cli.load_contracts()
rows = []
for h in sorted(reg.values(), key=lambda h: (h.fn.__module__, h.id)):
    tg = ', '.join(t.replace('kopf._core.', '').replace('kopf._cogs.', '') for t in h.targets)
    if len(tg) > 150:
        tg = tg[:147] + '...'
    rows.append((h.id, 'B' if getattr(h, 'kind', '') == 'bounded' else ('S' if getattr(h, 'sizes_only', False) else 'P'), h.fn.__module__.split('.')[-1], ' '.join(h.props), str(len(h.clauses)), tg))
print('| id | tier | contracts file | properties | clauses | functions under contract |\n|---|---|---|---|---|---|')
for r in rows:
    print('| ' + ' | '.join(r) + ' |')
print(f'\n{len(rows)} harnesses ({sum(1 for r in rows if r[1] == "P")} deductive, {sum(1 for r in rows if r[1] == "B")} bounded, {sum(1 for r in rows if r[1] == "S")} native for stated sizes only (S: exhaustive small scope, reported as tier B, never counted as proved)).')
