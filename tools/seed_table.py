#!/usr/bin/env python3
"""prints the markdown table of DESIGN.md section 8 from seeded/*/meta.json + detected.json"""
import glob, json, os
rows = []
for d in sorted(glob.glob('/verif/seeded/*/')):
    m = json.load(open(d + 'meta.json'))
    det = json.load(open(d + 'detected.json')) if os.path.exists(d + 'detected.json') else {}
    caught = [c for c in det.get('caught_by', []) if c != 'no-failing-input-found']
    first = m.get('first_run', '')
    rows.append((m['id'], (m['what'][:170] + ('…' if len(m['what']) > 170 else '')).replace('|', '/'), ', '.join(caught[:4]) + (f' (+{len(caught) - 4})' if len(caught) > 4 else '') or 'NOT DETECTED', first))
print('| seed | change (short) | caught by | first run |\n|---|---|---|---|')
for r in rows:
    print('| ' + ' | '.join(r) + ' |')
