#!/verif/.venv/bin/python
"""
Robustness audit: behaviour-PRESERVING edits of every function under contract must not raise an alarm.
For each target function generate
  rename:<local>   one local variable (not a parameter, not global/nonlocal) renamed consistently (text-level)
  noop             `_vc_noop = 0` inserted as the first statement
  reformat         the function re-printed by ast.unparse (layout, quotes, parentheses change; comments dropped)
  invert-if:<n>    `if c: A else: B` -> `if not (c): B else: A` for the n-th such statement (AST, function re-printed)
and run the harnesses that target the function on a scratch copy.  HELD = fine; VIOLATION = a FALSE ALARM (bug in a
contract); undecided = the check stopped with exit 2/3 (brittle anchor/stub: reported, not an alarm).
usage: refactor_audit.py [--jobs N] [--only-harness ID ...] [--only-target SUBSTR] [--kinds rename,noop,reformat,invert-if] [--out FILE]
"""
import argparse, ast, concurrent.futures as cf, copy, json, os, shutil, subprocess, sys, tempfile, time

VERIF = os.path.dirname(os.path.dirname(os.path.abspath(__file__)))
sys.path.insert(0, VERIF)
sys.path.insert(0, os.path.join(VERIF, 'tools'))
from automut import registry, locate, find_def, Src     # noqa


def locals_of(fn):
    params = {a.arg for a in ast.walk(fn.args) if isinstance(a, ast.arg)}
    declared = set()
    for n in ast.walk(fn):
        if isinstance(n, (ast.Global, ast.Nonlocal)):
            declared |= set(n.names)
    stored = []
    nested_params = set()
    for n in ast.walk(fn):
        if n is not fn and isinstance(n, (ast.FunctionDef, ast.AsyncFunctionDef, ast.Lambda)):
            nested_params |= {a.arg for a in ast.walk(n.args) if isinstance(a, ast.arg)}
            if not isinstance(n, ast.Lambda):
                declared.add(n.name)
    for n in ast.walk(fn):
        if isinstance(n, ast.Name) and isinstance(n.ctx, ast.Store) and n.id not in params | declared | nested_params:
            if n.id not in stored and not n.id.startswith('_'):
                stored.append(n.id)
    # exclude names also used as attribute names / keyword names / strings: rename touches ast.Name nodes only, which is safe
    return stored


def rename(src, fn, name):
    new = name + '_rn'
    spots = [(src.pos(n.lineno, n.col_offset), src.pos(n.end_lineno, n.end_col_offset)) for n in ast.walk(fn)
             if isinstance(n, ast.Name) and n.id == name]
    # `except X as name` / `with .. as name` / `for name in` are Names; ExceptHandler.name is a plain str: skip such functions
    for n in ast.walk(fn):
        if isinstance(n, ast.ExceptHandler) and n.name == name:
            return None
        if isinstance(n, ast.keyword) and False:
            pass
    text = src.text
    for a, b in sorted(spots, reverse=True):
        text = text[:a] + new + text[b:]
    return text


def reprint(src, fn, newfn):
    a = src.pos(fn.lineno, 0)
    if fn.decorator_list:
        a = src.pos(min(d.lineno for d in fn.decorator_list), 0)
    b = src.pos(fn.end_lineno, fn.end_col_offset)
    indent = ' ' * fn.col_offset
    body = ast.unparse(newfn)
    body = '\n'.join(indent + l if l else l for l in body.split('\n'))
    return src.text[:a] + body + src.text[b:]


def variants(src, fn, kinds):
    out = []
    if 'rename' in kinds:
        for name in locals_of(fn)[:3]:
            t = rename(src, fn, name)
            if t:
                out.append((f'rename:{name}', t))
    if 'noop' in kinds:
        first = fn.body[0]
        if isinstance(first, ast.Expr) and isinstance(first.value, ast.Constant) and len(fn.body) > 1:
            first = fn.body[1]
        a = src.pos(first.lineno, 0)
        out.append(('noop', src.text[:a] + ' ' * first.col_offset + '_vc_noop = 0\n' + src.text[a:]))
    if 'reformat' in kinds:
        out.append(('reformat', reprint(src, fn, fn)))
    if 'invert-if' in kinds:
        k = 0
        for n in ast.walk(fn):
            if isinstance(n, ast.If) and n.orelse and not (len(n.orelse) == 1 and isinstance(n.orelse[0], ast.If)):
                k += 1
                if k > 2:
                    break
                f2 = copy.deepcopy(fn)
                j = 0
                for m in ast.walk(f2):
                    if isinstance(m, ast.If) and m.orelse and not (len(m.orelse) == 1 and isinstance(m.orelse[0], ast.If)):
                        j += 1
                        if j == k:
                            m.test = ast.UnaryOp(op=ast.Not(), operand=m.test)
                            m.body, m.orelse = m.orelse, m.body
                            break
                out.append((f'invert-if:{k}@L{n.lineno}', reprint(src, fn, f2)))
    return [(d, t) for d, t in out if t != src.text]


def run_one(job):
    rel, qual, desc, text, hids = job
    S = tempfile.mkdtemp(prefix='refaudit.', dir='/var/tmp')
    try:
        shutil.copytree('/repo/kopf', os.path.join(S, 'kopf'))
        path = os.path.join(S, rel)
        open(path, 'w').write(text)
        try:
            compile(text, path, 'exec')
        except SyntaxError as e:
            return dict(rel=rel, qual=qual, desc=desc, verdict='generator-bug', first=str(e))
        t0 = time.time()
        try:
            p = subprocess.run([os.path.join(VERIF, '.venv/bin/python'), os.path.join(VERIF, 'tools/run_harness.py'), '--repo', S] + hids,
                               capture_output=True, text=True, timeout=900, env={**os.environ, 'PYTHONHASHSEED': '0'})
            out = p.stdout + p.stderr
        except subprocess.TimeoutExpired:
            return dict(rel=rel, qual=qual, desc=desc, verdict='timeout', harnesses=hids)
        refuted = [l.strip() for l in out.splitlines() if '<<<<<<' in l]
        problems = [l.strip()[:200] for l in out.splitlines() if 'PROBLEM' in l or 'Traceback' in l]
        ran = sum(1 for l in out.splitlines() if any(l.startswith(h + ':') for h in hids))
        verdict = 'FALSE-ALARM' if refuted else ('undecided' if problems or ran < len(hids) else 'held')
        return dict(rel=rel, qual=qual, desc=desc, verdict=verdict, harnesses=hids, s=round(time.time() - t0, 1),
                    first=(refuted or problems or [''])[0][:200])
    finally:
        shutil.rmtree(S, ignore_errors=True)


def main():
    ap = argparse.ArgumentParser()
    ap.add_argument('--jobs', type=int, default=10)
    ap.add_argument('--only-harness', action='append')
    ap.add_argument('--only-target')
    ap.add_argument('--kinds', default='rename,noop,reformat,invert-if')
    ap.add_argument('--out', default=os.path.join(VERIF, '.scratch', 'refactor_audit.json'))
    a = ap.parse_args()
    kinds = set(a.kinds.split(','))
    reg = registry()
    by_target = {}
    for h in reg.values():
        if a.only_harness and h.id not in a.only_harness:
            continue
        for t in h.targets:
            by_target.setdefault(t, []).append(h.id)
    jobs = []
    for t, hids in sorted(by_target.items()):
        if a.only_target and a.only_target not in t:
            continue
        rel, qual = locate(t)
        if rel is None:
            continue
        text = open(os.path.join('/repo', rel)).read()
        fn = find_def(ast.parse(text), qual)
        if fn is None or isinstance(fn, ast.ClassDef):
            continue
        for d, newtext in variants(Src(text), fn, kinds):
            jobs.append((rel, qual, d, newtext, sorted(set(hids))))
    print(f'{len(jobs)} behaviour-preserving variants over {len(by_target)} targets', flush=True)
    res = []
    with cf.ProcessPoolExecutor(max_workers=a.jobs) as ex:
        for r in ex.map(run_one, jobs):
            res.append(r)
            if r['verdict'] != 'held':
                print(f"{r['verdict']:12s} {r['qual']:45s} {r['desc'][:40]:40s} [{','.join(r.get('harnesses', []))}] {r.get('first', '')[:110]}", flush=True)
    os.makedirs(os.path.dirname(a.out), exist_ok=True)
    json.dump(res, open(a.out, 'w'), indent=1)
    from collections import Counter
    print(Counter(r['verdict'] for r in res))


if __name__ == '__main__':
    main()
