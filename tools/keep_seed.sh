#!/bin/bash
# usage: keep_seed.sh PROP "tests dirs" [ROUND]      (ROUND 1: /tmp/wt-PROP -> seeded/PROP-1; ROUND n: /tmp/wtn-PROP -> seeded/PROP-n)
# Verifies an independent agent's seeded change left in /tmp/wt-PROP (patch_PROP.diff + demo_PROP.py):
# the demo must fail with the change and pass without it; the named test directories must pass with it.
# Stores patch.diff / demo.py / confirm.json under /verif/seeded/PROP-1 and removes the worktree.
p=$1; tests=$2; r=${3:-1}; if [ "$r" = 1 ]; then wt=/tmp/wt-$p; else wt=/tmp/wt$r-$p; fi; d=/verif/seeded/$p-$r
mkdir -p $d; cp $wt/patch_$p.diff $d/patch.diff; cp $wt/demo_$p.py $d/demo.py
cd $wt || exit 1
git diff -- kopf > /tmp/keep_$p.diff
cmp -s /tmp/keep_$p.diff patch_$p.diff && echo "$p: patch file == worktree diff" || echo "$p: NOTE patch file differs from worktree diff"
PYTHONPATH=$wt timeout 600 /venv/bin/python demo_$p.py > /tmp/keep_$p.with.log 2>&1; w=$?
git checkout -- kopf
PYTHONPATH=$wt timeout 600 /venv/bin/python demo_$p.py > /tmp/keep_$p.without.log 2>&1; wo=$?
git apply /tmp/keep_$p.diff
t=$(PYTHONPATH=$wt /venv/bin/python -m pytest $tests -q -p no:cacheprovider 2>&1 | tail -1)
echo "$p: demo with=$w without=$wo ; tests($tests) with change: $t"
echo "{\"demo_exit_with\": $w, \"demo_exit_without\": $wo, \"tests_run\": \"$tests\", \"tests_result\": \"$t\"}" > $d/confirm.json
cd /verif; git -C /repo worktree remove --force $wt
