#!/usr/bin/env python3
"""usage: add_props.py ID:C01,C02 ID2:C03 ...   -- appends properties to the props=[...] of the named harnesses"""
import glob, re, sys
want = {}
for a in sys.argv[1:]:
    i, ps = a.split(':')
    want[i] = ps.split(',')
for f in sorted(glob.glob('/verif/contracts/*.py')):
    s = open(f).read()
    changed = False
    for hid, ps in list(want.items()):
        m = re.search(r"@(?:harness|bounded)\('%s',.*?props=\[([^\]]*)\]" % re.escape(hid), s, re.S)
        if not m or m.end() - m.start() > 1500:
            continue
        cur = re.findall(r"'(C\d\d)'", m.group(1))
        add = [p for p in ps if p not in cur]
        if add:
            new = m.group(1).rstrip() + ''.join(f", '{p}'" for p in add)
            s = s[:m.start(1)] + new + s[m.end(1):]
            changed = True
            print(f'{hid}: +{" ".join(add)}  ({f.split("/")[-1]})')
        del want[hid]
    if changed:
        open(f, 'w').write(s)
for hid in want:
    print(f'{hid}: NOT FOUND (props built elsewhere?)')
