#!/bin/bash
# Runs every seeded change (seeded/<id>/patch.diff) against the checks of its property on a scratch copy of
# /repo's current working tree (never touching /repo), and prints which obligations caught it.
# usage: tools/seeded_matrix.sh [id ...]        results also go to seeded/<id>/detected.json
cd "$(dirname "$0")/.." || exit 1
ids=("$@"); [ ${#ids[@]} -eq 0 ] && ids=($(ls seeded))
for id in "${ids[@]}"; do
  d=seeded/$id; prop=$(python3 -c "import json;print(json.load(open('$d/meta.json'))['property'])")
  S=$(mktemp -d /var/tmp/seedrun.XXXX); cp -r /repo/kopf $S/kopf
  if ! patch -p1 -s -d $S < $d/patch.diff > $S/patch.log 2>&1; then
    echo "$id ($prop): PATCH DOES NOT APPLY to the current tree: $(head -3 $S/patch.log | tr '\n' ' ')"; rm -rf $S; continue
  fi
  out=$(PYVC_HARNESS_WALL_S=${PYVC_HARNESS_WALL_S:-300} ./check $prop --repo $S 2>&1 | grep -v "^WARNING"); rc=$?
  viol=$(echo "$out" | grep "^VIOLATION" | sed 's/.*replay=[^ ]*\///; s/\.json.*//' | tr '\n' ' ')
  last=$(echo "$out" | tail -1)
  echo "$id ($prop): $last | caught by: ${viol:-NONE}"
  python3 - "$d" "$prop" "$viol" "$last" <<'PY'
import json, sys
d, prop, viol, last = sys.argv[1:5]
json.dump(dict(property=prop, check=f'./check {prop} (quick)', caught_by=viol.split(), summary=last), open(f'{d}/detected.json', 'w'), indent=1)
PY
  rm -rf $S
done
