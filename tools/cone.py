#!/verif/.venv/bin/python
"""
Cone-of-influence audit of the props= registration: static call graph of /repo/kopf (callee direction), closure from the
functions each property is anchored in (properties.jsonl anchors.mechanism[].where), and for every harness the properties
whose cone contains one of its targets but which the harness is not registered for.  Output is a CANDIDATE list for review
(name-based resolution over-approximates): tools/cone.py [PROP ...]
"""
import ast, json, os, re, sys
sys.path.insert(0, os.path.dirname(os.path.dirname(os.path.abspath(__file__))))
ROOT = '/repo'
funcs = {}          # qualname -> (module, node, classname)
by_name = {}        # bare name -> [qualnames]
mods = {}
for root, _, files in os.walk(os.path.join(ROOT, 'kopf')):
    for f in files:
        if f.endswith('.py'):
            path = os.path.join(root, f)
            mod = path[len(ROOT) + 1:-3].replace('/', '.')
            tree = ast.parse(open(path).read())
            mods[mod] = tree
            def walk(body, prefix, cls):
                for n in body:
                    if isinstance(n, (ast.FunctionDef, ast.AsyncFunctionDef)):
                        q = f'{prefix}.{n.name}'
                        funcs[q] = (mod, n, cls)
                        by_name.setdefault(n.name, []).append(q)
                    elif isinstance(n, ast.ClassDef):
                        walk(n.body, f'{prefix}.{n.name}', n.name)
            walk(tree.body, mod, None)
imports = {}        # module -> alias -> target module or qualname
for mod, tree in mods.items():
    im = {}
    for n in ast.walk(tree):
        if isinstance(n, ast.ImportFrom) and n.module and n.module.startswith('kopf'):
            for a in n.names:
                im[a.asname or a.name] = f'{n.module}.{a.name}'
    imports[mod] = im
edges = {}
for q, (mod, node, cls) in funcs.items():
    out = set()
    for n in ast.walk(node):
        if not isinstance(n, ast.Call):
            continue
        f = n.func
        if isinstance(f, ast.Name):
            t = imports[mod].get(f.id)
            if t in funcs:
                out.add(t)
            elif f'{mod}.{f.id}' in funcs:
                out.add(f'{mod}.{f.id}')
            elif t and f'{t}.__init__' in funcs:
                out.add(f'{t}.__init__')
            elif f'{mod}.{f.id}.__init__' in funcs:
                out.add(f'{mod}.{f.id}.__init__')
        elif isinstance(f, ast.Attribute):
            base = f.value
            if isinstance(base, ast.Name) and base.id in imports[mod]:
                t = f'{imports[mod][base.id]}.{f.attr}'
                if t in funcs:
                    out.add(t); continue
                if f'{t}.__init__' in funcs:
                    out.add(f'{t}.__init__'); continue
            if isinstance(base, ast.Name) and base.id in ('self', 'cls') and cls:
                cands = [c for c in by_name.get(f.attr, []) if c.rsplit('.', 2)[-2] == cls or True]
            else:
                cands = by_name.get(f.attr, [])
            cands = [c for c in cands if funcs[c][2] is not None]          # methods only for unknown receivers
            if 0 < len(cands) <= 8 and f.attr not in ('get', 'set', 'wait', 'items', 'keys', 'values', 'append', 'add', 'update', 'pop',
                                                       'close', 'clear', 'copy', 'format', 'join', 'debug', 'info', 'warning', 'error', 'exception'):
                out.update(cands)
    edges[q] = out

def closure(starts):
    seen, todo = set(), list(starts)
    while todo:
        q = todo.pop()
        if q in seen:
            continue
        seen.add(q)
        todo.extend(edges.get(q, ()))
    return seen

def resolve_where(where):
    """'queueing.worker', 'daemons.spawn_daemons/_runner', 'progress.*, diffbase.*' -> qualnames"""
    out = set()
    for part in re.split(r'[,;]| and ', where):
        part = part.strip().split('(')[0].strip()
        if not part:
            continue
        m = re.match(r'([\w/.]+?)\.([\w*./_ ]+)$', part)
        names = []
        if m:
            modhint, rest = m.group(1).split('/')[-1], m.group(2)
            for nm in re.split(r'\s*/\s*', rest):
                names.append((modhint, nm.strip()))
        else:
            names.append((part, '*'))
        for modhint, nm in names:
            for q, (mod, node, cls) in funcs.items():
                if mod.split('.')[-1] != modhint.split('.')[-1]:
                    continue
                tail = q[len(mod) + 1:]
                if nm == '*' or tail == nm or tail.startswith(nm + '.') or tail.endswith('.' + nm) or (nm.endswith('*') and tail.startswith(nm[:-1])):
                    out.add(q)
    return out

props = {}
for l in open('/verif/properties.jsonl'):
    d = json.loads(l)
    starts = set()
    for m in d['anchors'].get('mechanism', []):
        starts |= resolve_where(m['where'])
    props[d['id']] = closure(starts)

from pyvc import cli
os.environ.setdefault('PYVC_SCRATCH', '/verif/.scratch')
cli._setup_repo(None)
reg = cli.load_contracts()
want = sys.argv[1:] or sorted(props)
for p in want:
    cone = props[p]
    cands = []
    for h in sorted(reg.values(), key=lambda h: h.id):
        if p in h.props:
            continue
        hit = [t for t in h.targets if t in cone or any(c.startswith(t + '.') for c in cone)]
        if hit:
            cands.append(f'{h.id}({",".join(x.split(".")[-1] for x in hit[:2])})')
    print(f'{p}: cone={len(cone)} functions; harnesses in the cone but not registered: {" ".join(cands)}')
