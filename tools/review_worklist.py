#!/verif/.venv/bin/python
"""
Writes, per property P, the list of harnesses of BIG functions that lie in P's cone of influence (cones/<P>.json) but are not
registered for P (or are registered only for some clauses): /var/tmp/regs/<P>.in.json.  Each entry: harness id, kind, targets,
the cone's reason for each target, the clause names, the docstring, and the clauses already registered for P.  The review
(which clauses, if any, carry P end to end) is done by reading; its result is applied with tools/add_prop_clauses.py.
"""
import glob, json, os, sys, inspect
sys.path.insert(0, os.path.dirname(os.path.dirname(os.path.abspath(__file__))))
from pyvc import cli
os.environ.setdefault('PYVC_SCRATCH', '/verif/.scratch')
cli._setup_repo(None)
reg = cli.load_contracts()
meta = json.load(open('/verif/manifest_meta.json'))['properties']
proof = {p for p, m in meta.items() if m['category'] == 'proof'}
kf = set()
for f in glob.glob('/verif/evidence/C*.json'):
    e = json.load(open(f))
    for k, v in e['coverage'].get('per_clause', {}).items():
        if v.get('known'):
            kf.add(k.split('.')[0])
os.makedirs('/var/tmp/regs', exist_ok=True)
for f in sorted(glob.glob('/verif/cones/C*.json')):
    prop = os.path.basename(f)[:-5]
    cone = {e['function']: e for e in json.load(open(f))}
    out = []
    for h in sorted(reg.values(), key=lambda h: h.id):
        pc = (getattr(h, 'prop_clauses', None) or {}).get(prop)
        if prop in h.props and pc is None:
            continue                                  # registered with all its clauses
        hit = {t: cone[t]['why'] for t in h.targets if t in cone}
        for c in cone:
            for t in h.targets:
                if c.startswith(t + '.'):
                    hit[c] = cone[c]['why']
        if not hit:
            continue
        bounded = getattr(h, 'kind', '') == 'bounded'
        if prop in proof and (bounded or h.id in kf):
            continue                                  # kept out of proof-level properties
        out.append(dict(harness=h.id, kind='bounded' if bounded else 'deductive', file=h.fn.__module__.split('.')[-1] + '.py',
                        targets=list(h.targets), cone_reasons=hit, clauses=list(h.clauses), already_for_this_property=pc or [],
                        registered_props=list(h.props), doc=inspect.getdoc(h.fn) or ''))
    json.dump(out, open(f'/var/tmp/regs/{prop}.in.json', 'w'), indent=1)
    print(prop, len(out), 'harnesses to review')
