#!/usr/bin/env python3
"""usage: remove_props.py ID:C01,C02 ...   -- removes properties from the props=[...] of the named harnesses"""
import glob, re, sys
want = {a.split(':')[0]: a.split(':')[1].split(',') for a in sys.argv[1:]}
for f in sorted(glob.glob('/verif/contracts/*.py')):
    s = open(f).read()
    changed = False
    for hid, ps in list(want.items()):
        m = re.search(r"@(?:harness|bounded)\('%s',.*?props=\[([^\]]*)\]" % re.escape(hid), s, re.S)
        if not m or m.end() - m.start() > 1500:
            continue
        cur = re.findall(r"'(C\d\d)'", m.group(1))
        new = [p for p in cur if p not in ps]
        if new != cur:
            s = s[:m.start(1)] + ', '.join(f"'{p}'" for p in new) + s[m.end(1):]
            changed = True
            print(f'{hid}: -{" ".join(p for p in cur if p in ps)}  ({f.split("/")[-1]})')
        del want[hid]
    if changed:
        open(f, 'w').write(s)
for hid in want:
    print(f'{hid}: NOT FOUND')
