"""Throwaway feasibility probe: path-enumerating symbolic execution of the REAL detect_changing_cause AST."""
import ast, inspect, z3, importlib, textwrap, time
mod = importlib.import_module('kopf._core.intents.causes')
src = open(mod.__file__).read()
tree = ast.parse(src)
fn = next(n for n in ast.walk(tree) if isinstance(n, ast.FunctionDef) and n.name == 'detect_changing_cause')

class Ret(Exception):
    def __init__(self, v): self.v = v

class Fork(Exception): pass

class Exec:
    def __init__(self, choices):
        self.choices = list(choices); self.taken = []; self.pc = []
        self.solver = z3.Solver()
    def branch(self, cond):
        # cond: z3 Bool or python bool
        if isinstance(cond, bool): return cond
        can_t = self.feasible(cond); can_f = self.feasible(z3.Not(cond))
        if can_t and can_f:
            if self.choices: c = self.choices.pop(0)
            else: c = True; self.pending = True
            self.taken.append(c)
        else:
            c = can_t
        self.pc.append(cond if c else z3.Not(cond)); return c
    def feasible(self, c):
        s = z3.Solver(); s.add(*self.pc, c); return s.check() == z3.sat

# symbolic inputs
ev_deleted = z3.Bool('ev_is_DELETED'); ongoing = z3.Bool('ongoing'); blocked = z3.Bool('blocked')
old_none = z3.Bool('old_is_None'); diff_empty = z3.Bool('diff_empty'); initial = z3.Bool('initial')
Reason = mod.Reason

def run(choices):
    ex = Exec(choices)
    env = {}
    class Sym:  # tagged symbolic helper objects
        pass
    def ev(node):
        if isinstance(node, ast.Compare):
            l = ev(node.left); r = ev(node.comparators[0]); op = node.ops[0]
            if l == ('raw_event.type') and isinstance(op, ast.Eq) and r == 'DELETED': return ev_deleted
            if l == 'old' and isinstance(op, ast.Is) and r is None: return old_none
            if l == 'diff' and isinstance(op, ast.IsNot) and r is None: return True
            raise NotImplementedError(ast.dump(node))
        if isinstance(node, ast.Subscript):
            b = ev(node.value); k = ev(node.slice)
            if b == 'raw_event' and k == 'type': return 'raw_event.type'
            if isinstance(b, dict): return b[k]
            raise NotImplementedError(ast.dump(node))
        if isinstance(node, ast.Constant): return node.value
        if isinstance(node, ast.Name):
            return env[node.id]
        if isinstance(node, ast.BoolOp):
            vals = [ev(v) for v in node.values]
            return z3.And(*vals) if isinstance(node.op, ast.And) else z3.Or(*vals)
        if isinstance(node, ast.UnaryOp) and isinstance(node.op, ast.Not):
            v = ev(node.operand)
            if isinstance(v, str) and v == 'diff': return diff_empty
            return z3.Not(v)
        if isinstance(node, ast.Call):
            f = ast.unparse(node.func)
            if f == 'finalizers.is_deletion_ongoing': return ongoing    # callee contract
            if f == 'finalizers.is_deletion_blocked': return blocked    # callee contract
            if f == 'dict': return {kw.arg: ev(kw.value) for kw in node.keywords}
            if f == 'ChangingCause':
                kw = {}
                for k in node.keywords:
                    if k.arg is None: kw.update(ev(k.value))
                    else: kw[k.arg] = ev(k.value)
                return ('ChangingCause', kw)
            raise NotImplementedError(f)
        if isinstance(node, ast.Attribute):
            return getattr(ev(node.value), node.attr)
        raise NotImplementedError(ast.dump(node))
    env.update(kwargs={}, body='body', old='old', new='new', diff='diff', initial=initial, finalizer='fin', raw_event='raw_event', Reason=Reason)
    def block(stmts):
        for s in stmts:
            if isinstance(s, ast.Expr): continue
            elif isinstance(s, ast.AugAssign):
                env[s.target.id] = {**env[s.target.id], **ev(s.value)}
            elif isinstance(s, ast.Assign):
                t = s.targets[0]
                if isinstance(t, ast.Name): env[t.id] = ev(s.value)
                else: env[t.value.id] = {**env[t.value.id], ev(t.slice): ev(s.value)}
            elif isinstance(s, ast.If):
                c = ev(s.test)
                if isinstance(c, str) and c == 'diff': c = z3.Not(diff_empty)
                if isinstance(c, str): c = z3.Bool(c)
                if s.test.__class__ is ast.Compare and ast.unparse(s.test) == 'diff is not None': c = True
                block(s.body if ex.branch(c) else s.orelse)
            elif isinstance(s, ast.Return): raise Ret(ev(s.value))
            else: raise NotImplementedError(ast.dump(s))
    try: block(fn.body)
    except Ret as r: return ex, r.v
    return ex, None

# enumerate all paths (DFS over choice vectors)
t0 = time.time(); paths = []; stack = [[]]
while stack:
    ch = stack.pop()
    ex, res = run(ch)
    n = len(ch)
    # any forks beyond the prefix were defaulted True: schedule the False alternatives
    for i in range(n, len(ex.taken)):
        stack.append(ex.taken[:i] + [False])
    paths.append((ex.pc, res))
print(len(paths), "paths in", round(time.time()-t0,3), "s")
# spec from the property statement (precedence list)
def spec():
    R = z3.Function  # noqa
    return [(ev_deleted, Reason.GONE), (z3.And(ongoing, z3.Not(blocked)), Reason.FREE), (ongoing, Reason.DELETE),
            (old_none, Reason.CREATE), (z3.And(diff_empty, initial), Reason.RESUME), (diff_empty, Reason.NOOP), (True, Reason.UPDATE)]
ok = 0
for pc, res in paths:
    reason = res[1]['reason']
    # VC: pc => spec selects `reason`
    prior = []
    for g, r in spec():
        g = z3.BoolVal(True) if g is True else g
        sel = z3.And(g, *[z3.Not(p) for p in prior]); prior.append(g)
        s = z3.Solver(); s.add(*pc, sel)
        if s.check() == z3.sat:
            assert r == reason, (pc, r, reason)
            ok += 1
print("obligations discharged:", ok)
