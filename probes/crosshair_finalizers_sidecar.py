import copy
from typing import Any
import deal
from kopf._cogs.structs import finalizers as _f

def _others(lst, fin): return [x for x in lst if x != fin]

@deal.pre(lambda fins, fin: len(fin) > 0)
@deal.ensure(lambda fins, fin, result: _others(result, fin) == _others(fins, fin) and fin not in result)
def allow(fins: list[str], fin: str) -> list[str]:
    body: dict[str, Any] = {'metadata': {'finalizers': list(fins)}}
    _f.allow_deletion(body, fin)
    return body.get('metadata', {}).get('finalizers', [])

@deal.pre(lambda fins, fin: len(fin) > 0)
@deal.ensure(lambda fins, fin, result: _others(result, fin) == _others(fins, fin) and result.count(fin) == max(1, fins.count(fin)) and (fin in fins or result[-1] == fin))
def block(fins: list[str], fin: str) -> list[str]:
    body: dict[str, Any] = {'metadata': {'finalizers': list(fins)}}
    _f.block_deletion(body, fin)
    return body.get('metadata', {}).get('finalizers', [])
