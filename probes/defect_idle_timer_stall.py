import asyncio, logging, time, threading, os, signal
import kopf
from kopf._core.intents import registries, causes, handlers, stoppers
from kopf._cogs.structs import bodies, patches, references, ephemera
from kopf._cogs.configs import configuration
from kopf._core.engines import daemons, indexing

async def fn(**_): 
    print("timer fired")

async def main():
    settings = configuration.OperatorSettings()
    res = references.Resource('g','v1','things', namespaced=True)
    h = handlers.TimerHandler(id='t', fn=fn, param=None, errors=None, timeout=None, retries=None, backoff=None,
        selector=None, labels=None, annotations=None, when=None, field=None, value=None,
        requires_finalizer=True, initial_delay=None, sharp=None, idle=1.0, interval=None)
    body = bodies.Body({'metadata': {'name':'n','namespace':'ns','uid':'u'}})
    mem = daemons.DaemonsMemory()
    mem.live_fresh_body = body
    mem.idle_reset_time = asyncio.get_running_loop().time() - 10
    stopper = stoppers.DaemonStopper()
    cause = causes.DaemonCause(logger=logging.getLogger(), indices=indexing.OperatorIndexers().indices, memo=ephemera.Memo(),
        resource=res, patch=patches.Patch(body=body), body=body, stopper=stopper)
    d = {}
    task = asyncio.create_task(daemons._runner(settings=settings, daemons=d, handler=h, memory=mem, cause=cause))
    d['t'] = daemons.Daemon(task=task, logger=logging.getLogger(), handler=h, stopper=stopper)
    await asyncio.sleep(0.2)
    print("setting stopper"); 
    stopper.set(reason=stoppers.DaemonStoppingReason.RESOURCE_DELETED)
    t0=time.time()
    await asyncio.sleep(0.5)
    print("main resumed after", time.time()-t0, "task done?", task.done())

def watchdog():
    time.sleep(5); print("WATCHDOG: event loop stalled >5s"); os._exit(3)
threading.Thread(target=watchdog, daemon=True).start()
asyncio.run(main())
