"""Throwaway feasibility probe #2: suspension-point reasoning on the REAL queueing.worker AST (C01/Q1, C07/Q4)."""
import ast, sys, z3, time
SRC = sys.argv[1] if len(sys.argv) > 1 else '/repo/kopf/_core/reactor/queueing.py'
tree = ast.parse(open(SRC).read())
fn = next(n for n in ast.walk(tree) if isinstance(n, ast.AsyncFunctionDef) and n.name == 'worker')

class _Break(Exception): pass
class _Continue(Exception): pass
class _Raise(Exception):
    def __init__(self, cls): self.cls = cls
class _LoopDone(Exception): pass   # body executed once under invariant: stop exploring this path
class Unsupported(Exception): pass

class Run:
    def __init__(self, choices):
        self.choices = list(choices); self.taken = []; self.pc = []; self.fresh_n = 0
        self.oblig = []           # (name, pc snapshot, goal)
        self.g = {}               # ghost / shared symbolic state
    def fresh(self, name, sort):
        self.fresh_n += 1; return z3.Const(f'{name}!{self.fresh_n}', sort)
    def feasible(self, c):
        s = z3.Solver(); s.add(*self.pc, c); return s.check() == z3.sat
    def choose(self, cond):
        if isinstance(cond, bool): return cond
        t, f = self.feasible(cond), self.feasible(z3.Not(cond))
        if t and f:
            c = self.choices.pop(0) if self.choices else True
            self.taken.append(c)
        else: c = t
        self.pc.append(cond if c else z3.Not(cond)); return c
    def nondet(self, n):   # n-way fork (callee outcomes)
        for i in range(n - 1):
            b = self.fresh('nd', z3.BoolSort())
            if self.choose(b): return i
        return n - 1
    def check(self, name, goal): self.oblig.append((name, list(self.pc), goal))
    def suspend(self):
        # rely: only the watcher touches our backlog, and only by appending; streams[key] stays (only we delete it)
        new = self.fresh('backlog_len', z3.IntSort()); self.pc.append(new >= self.g['backlog_len']); self.g['backlog_len'] = new
        newc = self.fresh('clock', z3.RealSort()); self.pc.append(newc >= self.g['clock']); self.g['clock'] = newc
        self.g['susp_since_empty_check'] = True

NONE = ('none',)
def is_none(v): return isinstance(v, tuple) and len(v) == 1 and v[0] == 'none'

def interp(choices):
    R = Run(choices); g = R.g
    g.update(backlog_len=z3.Int('backlog_len0'), clock=z3.Real('clock0'), in_streams=True, processed=0, got=0,
             susp_since_empty_check=True, exit_kind=None)
    R.pc += [g['backlog_len'] >= 0]
    idle_timeout = z3.Real('idle_timeout'); cons_timeout = z3.Real('consistency_timeout'); R.pc += [idle_timeout >= 0, cons_timeout >= 0]
    env = {}
    def ev(n):
        if isinstance(n, ast.Constant): return NONE if n.value is None else n.value
        if isinstance(n, ast.Name): return env[n.id]
        if isinstance(n, ast.Attribute):
            s = ast.unparse(n)
            if s == 'settings.queueing.idle_timeout': return idle_timeout
            if s == 'settings.persistence.consistency_timeout': return cons_timeout
            if s in ('streams[key].backlog', 'streams[key].pressure'): return s.split('.')[-1]
            raise Unsupported(s)
        if isinstance(n, ast.Call):
            f = ast.unparse(n.func)
            if f == 'asyncio.get_running_loop': return 'loop'
            if f == 'loop.time': return g['clock']
            if f == 'max':
                a, b = ev(n.args[0]), ev(n.args[1]); return z3.If(a >= b, a, b)
            if f == 'backlog.empty':
                g['susp_since_empty_check'] = False; return g['backlog_len'] == 0
            if f == 'pressure.clear': return NONE
            if f == 'isinstance' and ast.unparse(n.args[1]) == 'EOS': return env[n.args[0].id]['is_eos']
            if f == 'get_version': return env[n.args[0].id]['version']
            if f.startswith('logger.') or f == 'signaller.notify_all': return NONE
            raise Unsupported(f)
        if isinstance(n, ast.IfExp): return ev(n.body) if truth(ev(n.test)) else ev(n.orelse)
        if isinstance(n, ast.BinOp):
            a, b = ev(n.left), ev(n.right)
            if is_none(a) or is_none(b): raise Unsupported('arith on None')
            a = a[2] if isinstance(a, tuple) else a; b = b[2] if isinstance(b, tuple) else b
            return a - b if isinstance(n.op, ast.Sub) else a + b
        if isinstance(n, ast.UnaryOp): return z3.Not(tobool(ev(n.operand)))
        if isinstance(n, ast.BoolOp):
            out = None
            for v in n.values:                      # short-circuit with forking
                t = truth(ev(v))
                if isinstance(n.op, ast.And) and not t: return False
                if isinstance(n.op, ast.Or) and t: return True
            return isinstance(n.op, ast.And)
        if isinstance(n, ast.Compare):
            a, b, op = ev(n.left), ev(n.comparators[0]), n.ops[0]
            if isinstance(op, (ast.Is, ast.IsNot)):
                r = isnone_term(a) if is_none(b) else None
                return r if isinstance(op, ast.Is) else (z3.Not(r) if not isinstance(r, bool) else not r)
            if isinstance(op, ast.Eq):
                if isinstance(a, dict) or isinstance(b, dict): raise Unsupported('eq')
                return opt_eq(a, b)
            raise Unsupported(ast.dump(n))
        if isinstance(n, ast.Await): return do_await(n.value)
        raise Unsupported(ast.dump(n))
    # Optional values: ('opt', isnone:Bool, payload)
    def isnone_term(a):
        if is_none(a): return True
        if isinstance(a, tuple) and a[0] == 'opt': return a[1]
        return False
    def opt_eq(a, b):
        an, bn = isnone_term(a), isnone_term(b)
        pa = a[2] if isinstance(a, tuple) and a[0] == 'opt' else a; pb = b[2] if isinstance(b, tuple) and b[0] == 'opt' else b
        return z3.And(z3.Not(tz(an)), z3.Not(tz(bn)), pa == pb)
    def tz(b): return z3.BoolVal(b) if isinstance(b, bool) else b
    def tobool(v):
        if isinstance(v, bool) or z3.is_bool(v): return tz(v)
        if z3.is_real(v) or z3.is_int(v): return v != 0
        if isinstance(v, tuple) and v[0] == 'opt': return z3.Not(v[1])   # NB: '' falsy ignored in probe
        raise Unsupported('truth')
    def truth(v): return R.choose(tobool(v)) if not isinstance(v, bool) else v
    def do_await(call):
        f = ast.unparse(call.func)
        if f == 'asyncio.wait_for' and ast.unparse(call.args[0]) == 'backlog.get()':
            timeout = ev(call.keywords[0].value); t0 = g['clock']
            R.suspend()
            if R.nondet(2) == 0:       # an item is delivered
                R.pc.append(g['backlog_len'] >= 1); g['backlog_len'] = g['backlog_len'] - 1; g['got'] += 1
                return {'is_eos': R.fresh('is_eos', z3.BoolSort()), 'version': ('opt', R.fresh('vnone', z3.BoolSort()), R.fresh('ver', z3.StringSort()))}
            R.pc.append(g['clock'] >= t0 + timeout)     # trusted wait_for contract; queue may be non-empty (the race!)
            g['last_timeout_deadline'] = t0 + timeout
            raise _Raise('TimeoutError')
        if f == 'processor':
            kw = {k.arg: ev(k.value) for k in call.keywords}
            g['processed'] += 1; g['proc_consistency_arg'] = kw['consistency_time']
            R.check('Q2.item_processed_is_item_got', z3.BoolVal(g['processed'] == g['got']))
            R.suspend()
            if R.nondet(2) == 1: raise _Raise('Exception')
            return ('opt', R.fresh('pnone', z3.BoolSort()), R.fresh('pver', z3.StringSort()))
        raise Unsupported('await ' + f)
    def block(stmts):
        for s in stmts: stmt(s)
    def stmt(s):
        if isinstance(s, (ast.Pass,)): return
        if isinstance(s, ast.Expr):
            if isinstance(s.value, ast.Constant): return
            ev(s.value); return
        if isinstance(s, (ast.Assign, ast.AnnAssign)):
            t = s.targets[0] if isinstance(s, ast.Assign) else s.target
            env[t.id] = ev(s.value); return
        if isinstance(s, ast.If):
            t = truth(ev(s.test))
            if t and ast.unparse(s.test) == 'isinstance(raw_event, EOS)': g['exit_kind'] = 'eos'
            block(s.body if t else s.orelse); return
        if isinstance(s, ast.Break): raise _Break()
        if isinstance(s, ast.Continue): raise _Continue()
        if isinstance(s, ast.Raise): raise _Raise(env.get('__exc__', 'Exception'))
        if isinstance(s, ast.Delete):
            assert ast.unparse(s.targets[0]) == 'streams[key]'
            if not g['in_streams']: raise _Raise('KeyError')
            # ---- Q1: the heart of C01 ----
            R.check('Q1.no_event_left_behind_on_idle_exit',
                    z3.Or(g['backlog_len'] == 0, z3.BoolVal(g['exit_kind'] in ('eos', 'exception'))))
            g['in_streams'] = False; return
        if isinstance(s, ast.AsyncWith): R.suspend(); block(s.body); R.suspend(); return
        if isinstance(s, ast.While):
            # invariant: backlog_len>=0, key in streams, (expected_version None <=> consistency_time None)
            def inv():
                return z3.And(g['backlog_len'] >= 0, tz(isnone_term(env['expected_version'])) == tz(isnone_term(env['consistency_time'])))
            R.check('loop.inv.entry', inv())
            g['backlog_len'] = R.fresh('backlog_len', z3.IntSort()); g['clock'] = R.fresh('clock', z3.RealSort())
            env['consistency_time'] = ('opt', R.fresh('ctn', z3.BoolSort()), R.fresh('ct', z3.RealSort()))
            env['expected_version'] = ('opt', R.fresh('evn', z3.BoolSort()), R.fresh('ever', z3.StringSort()))
            R.pc.append(inv())
            if not truth(ev(s.test)): return
            try: block(s.body)
            except _Break: return
            except _Continue: pass
            R.check('loop.inv.backedge', inv())
            # Q4: after a processor call returning a version (and a positive timeout) the expectation is armed
            raise _LoopDone()
        if isinstance(s, ast.Try):
            pending = None
            try:
                try: block(s.body)
                except _Raise as r:
                    for h in s.handlers:
                        names = ast.unparse(h.type) if h.type else 'BaseException'
                        if r.cls in names or (names == 'Exception' and r.cls not in ('CancelledError',)):
                            env['__exc__'] = r.cls
                            if r.cls == 'TimeoutError': g['exit_kind'] = 'idle'
                            block(h.body); break
                    else: raise
            except (_Break, _Continue, _Raise, _LoopDone) as e:
                pending = e
            if isinstance(pending, _LoopDone): raise pending
            if isinstance(pending, _Raise): g['exit_kind'] = 'exception'
            if isinstance(pending, _Break) and g['exit_kind'] is None: g['exit_kind'] = 'eos'
            if s.finalbody: block(s.finalbody)
            if pending: raise pending
            return
        raise Unsupported(ast.dump(s)[:80])
    env.update(settings='settings', processor='processor', streams='streams', key='key', signaller='signaller',
               resource_indexed='ri', operator_indexed='oi')
    # the two captured aliases are bound by the real code: backlog = streams[key].backlog ...
    outcome = 'return'
    try:
        for s in fn.body:
            if isinstance(s, ast.Assign) and ast.unparse(s.value) in ('streams[key].backlog', 'streams[key].pressure'):
                env[s.targets[0].id] = ast.unparse(s.value).split('.')[-1]; continue
            stmt(s)
    except _LoopDone: outcome = 'loopdone'
    except _Raise as r: outcome = 'raise ' + r.cls
    return R, outcome

t0 = time.time(); stack = [[]]; npaths = 0; results = {}
while stack:
    ch = stack.pop(); R, outcome = interp(ch); npaths += 1
    for i in range(len(ch), len(R.taken)): stack.append(R.taken[:i] + [False])
    for name, pc, goal in R.oblig:
        s = z3.Solver(); s.add(*pc, z3.Not(goal)); r = s.check()
        results.setdefault(name, []).append(r)
        if r == z3.sat and name.startswith('Q'): print('  COUNTEREXAMPLE', name, 'exit_kind=', R.g['exit_kind'], 'choices=', R.taken, 'outcome=', outcome, {str(d): s.model()[d] for d in s.model().decls() if 'backlog' in str(d)})
print(f'{npaths} paths, {time.time()-t0:.2f}s')
for k, v in results.items(): print(f'  {k}: {len(v)} obligations, {sum(1 for r in v if r == z3.unsat)} discharged')
