from kopf._cogs.configs import progress, diffbase
from kopf._cogs.structs import bodies, patches
A_diff = diffbase.AnnotationsDiffBaseStorage()               # operator A: default prefix
A_prog = progress.SmartProgressStorage()
for bprefix in ['kopf.dev', 'kopf.example.com', 'my-op.example.com']:
    B_prog = progress.AnnotationsProgressStorage(prefix=bprefix)
    body = bodies.Body({'metadata': {'name': 'n', 'annotations': {'user': 'x'}}, 'spec': {'a': 1}})
    p = patches.Patch()
    B_prog.store(key='handler', record=progress.ProgressRecord(started='2020', retries=1), body=body, patch=p)
    after = {'metadata': {'name': 'n', 'annotations': {'user': 'x', **p['metadata']['annotations']}}, 'spec': {'a': 1}}
    e0 = A_prog.clear(essence=A_diff.build(body=body))
    e1 = A_prog.clear(essence=A_diff.build(body=bodies.Body(after)))
    print(bprefix, 'B write invisible to A:', e0 == e1, sorted(p['metadata']['annotations']))
