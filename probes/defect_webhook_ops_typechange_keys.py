import asyncio, logging
import kopf
from kopf._core.intents import registries, causes
from kopf._cogs.structs import bodies, patches, references, ephemera
from kopf._core.engines import indexing

reg = registries.OperatorRegistry()
res = references.Resource('g','v1','things', namespaced=True)

@kopf.on.validate('g','v1','things', operations=['CREATE'], registry=reg)
def only_on_create(**_): pass

body = bodies.Body({'metadata': {'name':'n','namespace':'ns'}, 'spec': {'x': 1}})
cause = causes.WebhookCause(logger=logging.getLogger(), indices=indexing.OperatorIndexers().indices, memo=ephemera.Memo(),
    resource=res, patch=patches.Patch(), body=body, dryrun=False, reason=None, webhook=None, headers={}, sslpeer={}, userinfo={}, warnings=[],
    operation='UPDATE', subresource=None)
print("UPDATE review selects:", [h.id for h in reg._webhooks.get_handlers(cause)])

# type-change merge patch
for b, p in [({'spec': 'x'}, {'spec': {'a': 1}}), ({'spec': {'a': 'x'}}, {'spec': {'a': {'b': None}}}), ({'spec': {'a': 1}}, {'spec': {'a': {'b': 2}}})]:
    try:
        pt = patches.Patch(p, body=bodies.Body(b))
        print(b, p, '->', pt.as_json_patch())
    except Exception as e:
        print(b, p, '-> EXC', type(e).__name__, e)

from kopf._cogs.configs.conventions import StorageKeyFormingConvention
s = StorageKeyFormingConvention(prefix='kopf.zalando.org', v1=True)
import re
qual = re.compile(r'^([A-Za-z0-9][-A-Za-z0-9_.]*)?[A-Za-z0-9]$')
for k in ['_x', 'x_', 'a/', 'fn/spec.x', 'fn.spec.x', 'a<b', 'a_b', '-']:
    for key in s.make_keys(k):
        name = key.split('/',1)[1]
        print(repr(k), '->', key, 'valid' if qual.match(name) and len(name)<=63 else 'INVALID')
