"""Native replay driver probe for Q1: force 'timeout fires while the queue has just been filled' on the REAL worker."""
import asyncio, types, sys, importlib
from kopf._core.reactor import queueing
from kopf._cogs.configs import configuration

async def main():
    settings = configuration.OperatorSettings(); settings.queueing.idle_timeout = 0.01
    key = ('res', 'uid1'); streams = {key: queueing.Stream(backlog=asyncio.Queue(), pressure=asyncio.Event())}
    processed = []
    async def processor(*, raw_event, **_): processed.append(raw_event); return None
    real_wait_for = asyncio.wait_for; fired = []
    async def racing_wait_for(aw, timeout):
        if not fired:                      # first idle wait: the race
            fired.append(1)
            aw.close()                     # the inner get() is cancelled: consumes nothing (trusted Queue contract)
            streams[key].backlog.put_nowait({'type': 'MODIFIED', 'object': {'metadata': {'uid': 'uid1'}}})
            raise asyncio.TimeoutError()
        return await real_wait_for(aw, timeout)
    proxy = types.SimpleNamespace(**{k: getattr(asyncio, k) for k in dir(asyncio)}); proxy.wait_for = racing_wait_for
    queueing.asyncio = proxy
    try:
        await queueing.worker(signaller=asyncio.Condition(), settings=settings, processor=processor, streams=streams, key=key)
    finally:
        queueing.asyncio = asyncio
    lost = (not processed)
    print('processed:', len(processed), 'left in queue:', 0 if key not in streams else streams[key].backlog.qsize(), 'LOST' if lost else 'ok')
asyncio.run(main())
