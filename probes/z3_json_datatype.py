import z3, time
Jref = z3.DatatypeSort('J')
J = z3.Datatype('J')
J.declare('JNull'); J.declare('JAbsent')
J.declare('JBool', ('b', z3.BoolSort()))
J.declare('JInt', ('i', z3.IntSort()))
J.declare('JStr', ('s', z3.StringSort()))
try:
    J.declare('JList', ('items', z3.SeqSort(Jref)))
    J.declare('JObj', ('fields', z3.ArraySort(z3.StringSort(), Jref)))
    J = J.create()
    print("nested array datatype OK")
    x = z3.Const('x', J)
    s = z3.Solver()
    s.add(J.is_JObj(x), z3.Select(J.fields(x), z3.StringVal('a')) == J.JInt(3))
    r = s.check(); print(r, s.model()[x] if r==z3.sat else None)
    # metadata.deletionTimestamp lookup
    md = z3.Select(J.fields(x), z3.StringVal('metadata'))
    s2 = z3.Solver(); s2.add(J.is_JObj(x), J.is_JObj(md), z3.Select(J.fields(md), z3.StringVal('deletionTimestamp')) != J.JAbsent)
    print(s2.check())
except Exception as e:
    import traceback; traceback.print_exc()

key = z3.String('key'); suffix = z3.String('suffix')
s = z3.Solver()
L = z3.Length
maxlen = 63
suf = z3.If(L(key) > maxlen, suffix, z3.StringVal(''))
s.add(L(suffix) >= 2, L(suffix) <= 7)
key_limit = z3.If(maxlen - L(suf) > 0, maxlen - L(suf), 0)
safe = z3.String('safe'); s.add(L(safe) == L(key))
name = z3.Concat(z3.SubString(safe, 0, key_limit), suf)
s.add(z3.Not(L(name) <= 63))
t=time.time(); print("v2 name length<=63 negation:", s.check(), time.time()-t)
