import warnings, re
from kopf._cogs.configs.conventions import StorageKeyFormingConvention
qual = re.compile(r'^([A-Za-z0-9][-A-Za-z0-9_.]*)?[A-Za-z0-9]$')
for plen in (49, 56, 60, 100):
    prefix = ('p' * (plen - 4)) + '.com'
    s = StorageKeyFormingConvention(prefix=prefix, v1=True)
    for k in ['create_fn', 'x'*100]:
        for key in s.make_keys(k):
            name = key.split('/', 1)[1]
            print(plen, len(k), 'name_len', len(name), 'total', len(key), 'OK' if qual.match(name) and len(name) <= 63 and len(key) <= 253 else 'INVALID', name[:20])
