import asyncio, logging
import kopf
from kopf._core.intents import registries, causes, handlers
from kopf._cogs.structs import bodies, patches, references, diffs, ephemera
from kopf._core.engines import indexing

reg = registries.OperatorRegistry()
res = references.Resource('g','v1','things', namespaced=True)

@kopf.on.create('g','v1','things', field='spec.x', value=kopf.ABSENT, registry=reg)
def created_without_x(**_): pass

@kopf.on.create('g','v1','things', field='spec.x', value=lambda v, **_: (print('callback got', repr(v)), False)[1], registry=reg, id='cb')
def created_cb(**_): pass

body = bodies.Body({'metadata': {'name':'n','namespace':'ns'}, 'spec': {'x': 1}})
new = {'spec': {'x': 1}}
cause = causes.ChangingCause(logger=logging.getLogger(), indices=indexing.OperatorIndexers().indices, memo=ephemera.Memo(),
    resource=res, patch=patches.Patch(), body=body, initial=False, reason=causes.Reason.CREATE, diff=diffs.diff(None,new), old=None, new=new)
print([h.id for h in reg._changing.get_handlers(cause)])
