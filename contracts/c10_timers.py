"""Contracts for the in-memory loops of kopf._core.engines.daemons: _timer (D4, D5, D6) and _daemon (D4d)."""
import asyncio

import z3

from pyvc import *
from pyvc.stubs import Opaque, NullLogger, Clock, StubLoop, StubEvent, make_sleep
from pyvc.loader import _STOP
from kopf._core.intents import handlers as handlers_


class Cell:
    """The stop flag: a monotone boolean shared by stopper.is_set() and stopper.async_event."""
    def __init__(self, vc, name='stopper'):
        self.vc, self.name = vc, name
        self.state = vc.bool(name + '.is_set')

    def havoc_monotone(self):
        new = self.vc.bool(self.name + '.is_set')
        self.vc.assume(Implies(self.state, new), 'a stop flag, once set, stays set')
        self.state = new


class StopEvent:
    def __init__(self, cell): self.cell = cell
    def is_set(self): return self.cell.state

    @property
    def state(self): return self.cell.state

    @state.setter
    def state(self, v):
        # make_sleep marks the event as set when it reports "woken": consistent only if it really is set
        E().assume(Iff(self.cell.state, v) if not isinstance(v, bool) or v is not True else self.cell.state, 'woken only by the stop flag')


class StubState:
    """progression.State for ONE handler, by contract G3: `done` is a boolean of the state; when not done there
    is exactly one delay entry, and it is >= 0 (the remaining time until the handler's `delayed` moment)."""
    def __init__(self, vc, tag):
        self.vc, self.tag = vc, tag
        self._done = None
        self._delay = None
        self._failed = None
        self._failures = None

    @property
    def done(self):
        if self._done is None:
            self._done = self.vc.bool(f'done[{self.tag}]')
        return self._done

    @property
    def failed(self):
        """the handler finished with a failure for good (PermanentError, errors=PERMANENT, retries/timeout exhausted): G3"""
        if self._failed is None:
            self._failed = self.vc.bool(f'failed[{self.tag}]')
            self.vc.assume(Implies(self._failed, self.done), 'G3: failed for good implies finished')
        return self._failed

    @property
    def counts(self):
        if self._failures is None:
            self._failures = self.vc.int(f'failures[{self.tag}]')
            self.vc.assume(And(self._failures >= 0, self._failures <= 1, Iff(self._failures > 0, self.failed)),
                           'G7 State.counts: failure = the number of handlers that failed for good (one handler here)')
        f = self._failures
        return Opaque('counts', failure=f, success=If(And(self.done, Not(self.failed)), 1, 0), running=If(self.done, 0, 1))

    @property
    def delays(self):
        if self._delay is None:
            self._delay = self.vc.real(f'delay[{self.tag}]')
            self.vc.assume(self._delay >= 0, 'G3: delays are >= 0')
        return [self._delay]

    @property
    def delay(self):
        return self.delays[0]

    def with_outcomes(self, outcomes):
        s = StubState(self.vc, 'after-run')
        s.outcomes = outcomes
        self.vc.emit('with_outcomes', self, s)
        return s

    def with_handlers(self, hs):
        return self


_COMMON = dict(
    targets='kopf._core.engines.daemons._timer', props=['C10', 'C09', 'C08', 'C11'],
    trusted=['aiotime.sleep by contract T1 (pyvc.stubs.make_sleep)', 'progression.State by contract G3',
             'execution.execute_handlers_once by contract X2', 'application.patch_and_check by contract A2',
             'Mult(x, b) ("x is an integer multiple of b") is uninterpreted; only closure under +-b is used'],
    assumes=['timer settings are positive durations where given: interval > 0, idle > 0 (kopf.timer docs); initial_delay is a number or None (callables: the value they return)',
             'memory.idle_reset_time is only ever set to the current loop time by process_spawning_cause (H7): monotone, never in the future'])
_BASE = ['no_self_overlap', 'first_run_after_initial_delay', 'start_not_before_scheduled_time', 'after_failure_delay',
         'patch_carried_over', 'state_threaded', 'results_delivered_into_the_patch_sent', 'sleeps_wake_on_stop',
         'permanent_failure_ends_the_timer']


def _timer_contract(vc, has_interval, has_idle, sharp_values):
    """
    daemons._timer: one arbitrary round of its main loop (and of each inner waiting loop) from an arbitrary state
    satisfying   stopper set  or  clock >= next_allowed   where the ghost `next_allowed` is what the schedule
    law of the property statement gives for the previous round:
      first run: entry time + initial_delay;  after a successful run: run end + interval (non-sharp) / the first
      point of the grid {start + k*interval} not before the run's end (sharp);  after a failed run: run end +
      the error's delay / backoff (state.delays);  idle: at every start  clock - idle_reset_time >= idle;
      idle-only timers wait for a change after the run started;  neither interval nor idle: returns after the
      first finished run;  the handler is awaited inside the loop (never two runs at once).
    Every `await` is a suspension point where the clock advances, the stop flag may get set (never cleared)
    and idle_reset_time may move forward to at most the current time.
    D4 (C09 "stopping never stalls"): no waiting loop can spin without a suspension point while the stop flag is set.
    D6 (C08): after every attempt cause.patch := Patch(remaining_patch returned by patch_and_check, body=body).
    """
    sym = not vc.concrete
    clock = Clock()
    stop = Cell(vc)
    interval = vc.real('interval') if has_interval else None
    idle = vc.real('idle') if has_idle else None
    initial_delay = vc.opt('initial_delay', vc.real)
    sharp = vc.fin('sharp', sharp_values)
    if interval is not None: vc.assume(interval > 0, 'interval is a positive duration')
    if idle is not None: vc.assume(idle > 0, 'idle is a positive duration')
    handler = handlers_.TimerHandler(
        id='t', fn=Opaque('fn'), param=None, errors=None, timeout=None, retries=None, backoff=None,
        selector=None, labels=None, annotations=None, when=None, field=None, value=None,
        requires_finalizer=None, initial_delay=initial_delay, sharp=sharp, idle=idle, interval=interval)
    memory = Opaque('memory')
    memory.idle_reset_time = vc.real('idle_reset_time0')
    vc.assume(memory.idle_reset_time <= clock.now, 'idle_reset_time is a past loop time')
    t_entry = clock.now
    G = Opaque('ghost')
    G.running = False
    G.run_start = G.run_end = None       # of the run in THIS round (if any)
    G.next_allowed = None                # lower bound for the next start, from the law
    G.next_is_grid = None
    G.susp = 0
    G.state_after = None
    G.runs = 0
    G.prev_state = None

    def on_suspend(site):
        G.susp += 1
        clock.advance(0)
        stop.havoc_monotone()
        new = vc.real('idle_reset_time')
        vc.assume(And(new >= memory.idle_reset_time, new <= clock.now), 'idle_reset_time moves forward, never into the future')
        memory.idle_reset_time = new

    _sleep = make_sleep(clock)
    stopper = Opaque('stopper', is_set=lambda: stop.state, async_event=StopEvent(stop))

    async def sleep(delays, wakeup=None):
        # every in-memory sleep of a timer can be interrupted by its stopper (a stop is not outlived by a sleeping timer: C09, C20)
        vc.ensure('sleeps_wake_on_stop', wakeup is stopper.async_event)
        return await _sleep(delays, wakeup=wakeup)
    body, resource = Opaque('body'), Opaque('resource')
    cause = Opaque('cause', resource=resource, stopper=stopper, logger=NullLogger(), patch=Opaque('patch0'), body=body, kwargs={})
    settings = Opaque('settings')
    s_initial = StubState(vc, 'scratch')

    class StateCls:
        @staticmethod
        def from_scratch():
            def with_handlers(hs):
                st = StubState(vc, 'fresh')
                vc.assume(Not(st.done), 'G1/G3: a state made from scratch for a handler has not finished (neither succeeded nor failed)')
                vc.emit('fresh_state', hs, st)
                return st
            return Opaque('blank', with_handlers=with_handlers)

    async def execute_handlers_once(**kw):
        # ---- a run starts here: the schedule laws are obligations on this very moment
        vc.ensure('no_self_overlap', not G.running)
        vc.ensure('state_threaded', kw['handlers'] == [handler] and kw['cause'] is cause and kw['settings'] is settings
                  and isinstance(kw['state'], StubState))
        if G.next_allowed is not None:
            law = clock.now >= G.next_allowed
            name = G.next_law
            vc.ensure(name, law)
        if idle is not None:
            vc.ensure('not_within_idle_time', clock.now - memory.idle_reset_time >= idle)
        # a finished (done) state is never re-used for the next run; an unfinished one is threaded through
        st = kw['state']
        if G.prev_state is not None:
            vc.ensure('state_threaded', Implies(Not(G.prev_state.done), st is G.prev_state))
            vc.ensure('state_threaded', Implies(G.prev_state.done, st is not G.prev_state))
            # ... and the run after a finished one starts with a state made from scratch FOR this run: its `started`
            # (HandlerState.from_scratch stamps now) is what the handler's timeout and runtime are counted from (X1); a blank
            # state made once for the whole timer counts the age of the timer TASK instead (seeded C10-11: past `timeout`
            # every later run ends in HandlerTimeoutError before the function is called)
            # C11: "a permanent error, or an arbitrary error in permanent mode, ends it without retry ... for ... timers"; docs/timers.rst:
            # "For kopf.PermanentError, the timer stops forever and is not retried": no run ever follows a run that failed for good
            vc.ensure('permanent_failure_ends_the_timer', Not(And(G.prev_state.done, G.prev_state.failed)))
            fresh_now = [e[2] for e in vc.trace[getattr(G, 'round_mark', 0):] if e and e[0] == 'fresh_state']
            vc.ensure('state_threaded', Implies(G.prev_state.done, any(st is f for f in fresh_now)))
        vc.canary('canary.never_runs', False)
        G.running = True
        G.run_start = clock.now
        G.runs += 1
        vc.emit('run', clock.now)
        await suspend('handler run')
        G.running = False
        G.run_end = clock.now
        G.outcomes = Opaque('outcomes')
        return G.outcomes

    async def patch_and_check(**kw):
        # D6 (C08): what the run produced goes into the object's accumulated patch, and that very patch is sent
        since_run = vc.trace[max(i for i, e in enumerate(vc.trace) if e and e[0] == 'run'):]
        delivered = [e[1] for e in since_run if e[0] == 'deliver_results']
        vc.ensure('results_delivered_into_the_patch_sent', kw['patch'] is cause.patch and kw['body'] is body
                  and kw['resource'] is resource and kw['settings'] is settings)
        vc.ensure('results_delivered_into_the_patch_sent', len(delivered) == 1 and delivered[0].get('outcomes') is G.outcomes
                  and delivered[0].get('patch') is kw['patch'])
        vc.emit('patch_and_check', kw)
        await suspend('patch_and_check')
        G.remaining = Opaque('remaining_patch')
        return (None, G.remaining)
    new_patches = []

    def Patch(src=None, body=None):
        p = Opaque('Patch', src=src, body=body)
        new_patches.append(p)
        return p

    # ---------------------------------------------------------------- loop contracts
    def inv_main(loc):
        ok_time = True if G.next_allowed is None else Or(stop.state, clock.now >= G.next_allowed)
        st_ = loc.get('state')
        # a round is only ever started from a state that has NOT failed for good: such a run ends the timer (C11, docs/timers.rst)
        alive = Not(And(st_.done, st_.failed)) if isinstance(st_, StubState) and G.prev_state is not None else True
        return And(ok_time, memory.idle_reset_time <= clock.now, isinstance(st_, StubState), not G.running, alive,
                   loc.get('patch') is cause.patch)       # the local and the cause share THE accumulated patch

    def entry_main(loc):
        if initial_delay is not None:
            vc.ensure('first_run_after_initial_delay', Or(stop.state, clock.now >= t_entry + initial_delay))
        else:
            vc.ensure('first_run_after_initial_delay', G.susp == 0)     # nothing delays the first round

    def havoc_main(loc):
        clock.advance(0)
        stop.state = vc.bool('stopper.is_set')
        memory.idle_reset_time = vc.real('idle_reset_time')
        st = StubState(vc, 'loop-head')
        had_run = vc.nondet(2, 'a previous round ran the handler?') == 1
        G.prev_state = st if had_run else None
        G.next_allowed = vc.real('next_allowed') if (had_run or initial_delay is not None) and vc.nondet(2, 'bound pending?') == 1 else None
        G.next_law = 'start_not_before_scheduled_time' if G.next_allowed is not None else None
        G.run_start = G.run_end = None
        G.susp = 0
        G.runs = 0
        G.round_mark = len(vc.trace)
        new_patches.clear()
        cause.patch = Opaque('patch-carried')
        # re-bind only what is bound at the loop head (a deleted initialisation must not be masked by the havoc)
        return {k: v for k, v in {'state': st, 'patch': cause.patch}.items() if k in loc}

    def back_main(loc):
        # ---- what the round just finished owes to the next one
        if G.run_end is None:
            # no run in this round: only possible when the stop flag got set while idling
            vc.ensure('not_within_idle_time', stop.state)
            return
        st = loc['state']
        vc.ensure('state_threaded', isinstance(st, StubState) and getattr(st, 'outcomes', None) is G.outcomes)
        G.prev_state = st
        # D6: patch carry-over
        vc.ensure('patch_carried_over', len(new_patches) == 1 and new_patches[0].src is G.remaining and new_patches[0].body is body
                  and cause.patch is new_patches[0] and loc['patch'] is new_patches[0])
        sh = resolve(sharp)
        if st.done is False or (sym and isinstance(st.done, SBool)):
            pass
        done = st.done
        # the law, by cases (the case split is on concrete settings and on the symbolic `done`)
        if interval is not None and sh:
            want = ('after_success_sharp_grid', None)
        elif interval is not None:
            want = ('after_success_interval', G.run_end + interval)
        elif idle is not None:
            want = ('idle_only_waits_for_change', None)
        else:
            want = None
        fail_bound = G.run_end + st.delays[0]
        # failed run: the next start is not before the error's delay / backoff
        vc.ensure('after_failure_delay', Implies(Not(done), Or(stop.state, clock.now >= fail_bound)))
        if want is not None and want[0] == 'after_success_interval':
            vc.ensure('after_success_interval', Implies(done, Or(stop.state, clock.now >= want[1])))
            vc.canary('canary.never_sleeps_interval', Not(done))
            G.next_allowed = If(done, want[1], fail_bound) if sym else (want[1] if done else fail_bound)
            G.next_law = 'start_not_before_scheduled_time'
        elif want is not None and want[0] == 'after_success_sharp_grid':
            # the next start is not before a grid point g = start + k*interval (k >= 1) that is not before the run's end:
            # g is observable as (time of the schedule sleep) + (its duration)
            sl = [ev for ev in vc.trace if ev[0] == 'sleep']
            if bool(done) if not isinstance(done, SBool) else True:
                pass
            last = sl[-1] if sl else None
            if last is None:
                vc.ensure('after_success_sharp_grid', Not(done))
            else:
                g = last[5] + last[1]
                on_grid = And(is_multiple(g - G.run_start, interval), g - G.run_start >= interval, g >= G.run_end)
                vc.ensure('after_success_sharp_grid', Implies(done, And(on_grid, Or(stop.state, clock.now >= g))))
            G.next_allowed = None
        elif want is not None:
            vc.ensure('idle_only_waits_for_change', Implies(done, Or(stop.state, memory.idle_reset_time > G.run_start)))
            G.next_allowed = None
        else:
            # neither interval nor idle: a finished run ends the timer -- the back edge is only for retries
            vc.ensure('one_shot_without_interval_and_idle', Not(done))
            G.next_allowed = fail_bound
            G.next_law = 'start_not_before_scheduled_time'
        if G.next_allowed is None:
            G.next_law = None

    def exit_main(loc):
        # leaving the main loop: the stop flag is set, or it is the one-shot case after a finished run
        one_shot_done = interval is None and idle is None and G.run_end is not None
        st_ = loc.get('state')
        failed_for_good = And(st_.done, st_.failed) if G.run_end is not None and isinstance(st_, StubState) else False
        vc.ensure('one_shot_without_interval_and_idle', Or(stop.state, one_shot_done, failed_for_good))

    def inv_wait(loc):
        return memory.idle_reset_time <= clock.now

    def havoc_wait(loc):
        clock.advance(0)
        stop.state = vc.bool('stopper.is_set')
        memory.idle_reset_time = vc.real('idle_reset_time')
        G.susp = 0
        return {}

    def back_wait(loc):
        # D4: an iteration of a waiting loop must contain a suspension point (otherwise, with the same state,
        # the loop spins forever and freezes the whole event loop)
        vc.ensure('no_spin_under_stop', G.susp > 0, excuse={'F-C09-1': stop.state})

    ld = vc.load('kopf._core.engines.daemons', '_timer', stubs={
        'aiotime.sleep': sleep,
        'asyncio.get_running_loop': lambda: StubLoop(clock),
        'progression.State': StateCls,
        'progression.deliver_results': lambda **kw: vc.emit('deliver_results', kw),
        'execution.execute_handlers_once': execute_handlers_once,
        'application.patch_and_check': patch_and_check,
        'patches.Patch': Patch,
    }, loops=({
        1: LoopSpec('while not stopper.is_set():', name='main loop', invariant=inv_main, havoc=havoc_main, at_backedge=back_main, on_exit=exit_main, at_entry=entry_main,
                    dedup_key=lambda loc: (initial_delay is None,)),
        2: LoopSpec('while not stopper.is_set() and', invariant=inv_wait, name='idle wait before a run',
                    havoc=havoc_wait, at_backedge=back_wait),
        3: LoopSpec('while memory.idle_reset_time', invariant=inv_wait, havoc=havoc_wait, at_backedge=back_wait,
                    name='idle-only wait for a change'),
    }))
    # before the loop: the initial delay
    if initial_delay is not None:
        G.next_allowed = t_entry + initial_delay
        G.next_law = 'first_run_after_initial_delay'
    vc.drive(ld.fn(settings=settings, handler=handler, memory=memory, cause=cause), on_suspend=on_suspend)
    return ('returned', G.runs)


def _mk(hid, has_interval, has_idle, sharp_values, extra_clauses, canaries, doc, prop_clauses=None):
    def fn(vc):
        return _timer_contract(vc, has_interval, has_idle, sharp_values)
    fn.__doc__ = doc + '\n' + (_timer_contract.__doc__ or '')
    fn.__name__ = hid
    common = dict(_COMMON)
    if prop_clauses:
        common['props'] = list(common['props']) + [p for p in prop_clauses if p not in common['props']]
    harness(hid, clauses=_BASE + extra_clauses, canaries=canaries, prop_clauses=prop_clauses or {}, **common)(fn)


# C20 (a stop reaches every timer and is not outlived): a run started on a stop-interrupted idle wait lives through the cleanup;
# a spin under the stop flag freezes the loop
_C20 = {'C20': ['not_within_idle_time', 'no_spin_under_stop', 'sleeps_wake_on_stop']}
# C13 ("while paused ... daemons stopped"): a timer run started although the stop flag (OPERATOR_PAUSING) is raised begins before
# its scheduled time -- timers would keep firing in a paused operator; a spin under the flag freezes the paused operator
_C13 = {'C13': ['start_not_before_scheduled_time', 'sleeps_wake_on_stop']}
_C13x = {'C13': ['start_not_before_scheduled_time', 'sleeps_wake_on_stop', 'not_within_idle_time', 'no_spin_under_stop']}


_mk('D5i', True, False, [None, False], ['after_success_interval'], ['canary.never_runs', 'canary.never_sleeps_interval'],
    'daemons._timer with interval=, non-sharp, no idle=.', prop_clauses=_C13)
_mk('D5s', True, False, [True], ['after_success_sharp_grid'], ['canary.never_runs'],
    'daemons._timer with interval= and sharp=True, no idle=.', prop_clauses=_C13)
_mk('D5x', True, True, [None, False, True], ['after_success_interval', 'after_success_sharp_grid', 'not_within_idle_time', 'no_spin_under_stop'],
    ['canary.never_runs'], 'daemons._timer with interval= and idle=.', prop_clauses={**_C20, **_C13x})
_mk('D5d', False, True, [None, False, True], ['not_within_idle_time', 'idle_only_waits_for_change', 'no_spin_under_stop'], ['canary.never_runs'],
    'daemons._timer with idle= only (runs once after every idle period following a change).', prop_clauses={**_C20, **_C13x})
_mk('D5o', False, False, [None, False, True], ['one_shot_without_interval_and_idle'], ['canary.never_runs'],
    'daemons._timer with neither interval= nor idle=: a one-shot handler (retried until it finishes).', prop_clauses=_C13)
