"""Contracts for the per-object in-memory flags behind "resume handlers once" (C14):
inventory.ResourceMemories.recall/forget/_build_key (V1) and the two entry points that recall the memory of the
same object with different flags (V2)."""
import ast
import os

from pyvc import *
from pyvc.loader import repo_root
from pyvc.stubs import Opaque
from kopf._core.reactor import inventory

INV = 'kopf._core.reactor.inventory'


class SymMap:
    """
    `ResourceMemories._items` with symbolic string keys: an association list of (key, memory) with pairwise
    distinct keys; membership/lookup compare keys by value (forking), as a dict does for strings.
    """
    def __init__(self, pairs):
        self.pairs = list(pairs)
        self._decided = {}

    def same(self, a, b):
        """a == b, decided once per pair of values on a path (forks like the dict's own comparison would)"""
        if a is b:
            return True
        k = (id(a), id(b))
        if k not in self._decided:
            self._decided[k] = (a, b, bool(Eq(a, b)))
        return self._decided[k][2]

    def _find(self, k):
        for i, (key, _) in enumerate(self.pairs):
            if self.same(key, k):
                return i
        return None

    def __contains__(self, k): return self._find(k) is not None

    def __getitem__(self, k):
        i = self._find(k)
        if i is None:
            raise KeyError(k)
        return self.pairs[i][1]

    def get(self, k, default=None):
        i = self._find(k)
        return default if i is None else self.pairs[i][1]

    def setdefault(self, k, default=None):
        i = self._find(k)
        if i is None:
            self.pairs.append((k, default))
            return default
        return self.pairs[i][1]

    def pop(self, k, *default):
        i = self._find(k)
        if i is None:
            if default:
                return default[0]
            raise KeyError(k)
        return self.pairs.pop(i)[1]

    def __setitem__(self, k, v):
        i = self._find(k)
        if i is None:
            self.pairs.append((k, v))
        else:
            self.pairs[i] = (k, v)

    def __delitem__(self, k):
        i = self._find(k)
        if i is None:
            raise KeyError(k)
        del self.pairs[i]

    def values(self): return [v for _, v in self.pairs]
    def items(self): return list(self.pairs)
    def __iter__(self): return iter([k for k, _ in self.pairs])
    def __len__(self): return len(self.pairs)


def load_memories(vc, pairs):
    """A ResourceMemories whose methods under contract are the extracted real source and whose map is a SymMap."""
    ld = {n: vc.load(INV, f'ResourceMemories.{n}', stubs={'ResourceMemory': new_memory})
          for n in ('recall', 'recall_memo', 'forget', '_build_key')}

    class Memories:
        def __init__(self):
            self._items = SymMap(pairs)

        def _build_key(self, raw_body): return ld['_build_key'].fn(self, raw_body)
        def recall(self, raw_body, **kw): return ld['recall'].fn(self, raw_body, **kw)
        def recall_memo(self, raw_body, **kw): return ld['recall_memo'].fn(self, raw_body, **kw)
        def forget(self, raw_body): return ld['forget'].fn(self, raw_body)
    return Memories()


def draw_body(vc, name='body'):
    """A raw body as delivered by the API: metadata.uid is a string (the property is about real objects; bodies
    without metadata/uid -- hand-made test events -- all share the key '')."""
    shape = ['uid', 'no-uid', 'null-uid', 'no-metadata'][vc.nondet(4, f'{name}: shape')]
    uid = vc.str(f'{name}.uid') if shape == 'uid' else None
    raw = {'uid': {'metadata': {'uid': uid, 'name': 'n'}}, 'no-uid': {'metadata': {'name': 'n'}},
           'null-uid': {'metadata': {'uid': None}}, 'no-metadata': {'spec': {}}}[shape]
    return raw, uid


def new_memory(*args, **kwargs):
    """The real dataclass ResourceMemory; only its daemons_memory default (whose factory reads the clock of a
    running event loop) is replaced by an opaque object -- it plays no role here."""
    kwargs.setdefault('daemons_memory', Opaque('daemons_memory'))
    return inventory.ResourceMemory(*args, **kwargs)


def existing_memory(vc, name):
    return new_memory(noticed_by_listing=vc.bool(f'{name}.noticed_by_listing'),
                      fully_handled_once=vc.bool(f'{name}.fully_handled_once'))


# ---- frame scans over the whole package (re-read from the tree under check on every run) -----------------------------
_scan_cache = {}


def package_sources():
    root = os.path.join(repo_root(), 'kopf')
    if root not in _scan_cache:
        out = []
        for d, _, files in sorted(os.walk(root)):
            for f in sorted(files):
                if f.endswith('.py'):
                    p = os.path.join(d, f)
                    out.append((os.path.relpath(p, repo_root()), ast.parse(open(p, encoding='utf-8').read(), filename=p)))
        _scan_cache[root] = out
    return _scan_cache[root]


def writers_of(attr):
    """
    Every place in the package that can set the attribute/field `attr`: assignments (plain, augmented, annotated,
    walrus-free by syntax), `del`, setattr/delattr/__setattr__/__dict__ tricks mentioning the name as a string,
    keyword arguments `attr=` of any call (constructor, dataclasses.replace).  Returns (file, enclosing def, kind).
    Class-level field declarations (the dataclass default) are reported as kind 'field-default'.
    """
    ckey = (repo_root(), 'writers', attr)
    if ckey in _scan_cache:
        return _scan_cache[ckey]
    found = []
    for rel, tree in package_sources():
        def visit(node, scope, in_class):
            for child in ast.iter_child_nodes(node):
                sc, ic = scope, False
                if isinstance(child, (ast.FunctionDef, ast.AsyncFunctionDef)):
                    sc = child.name if scope is None else f'{scope}.{child.name}'
                elif isinstance(child, ast.ClassDef):
                    sc, ic = (child.name if scope is None else f'{scope}.{child.name}'), True
                targets = []
                if isinstance(child, ast.Assign):
                    targets = child.targets
                elif isinstance(child, (ast.AugAssign, ast.AnnAssign)):
                    targets = [child.target]
                elif isinstance(child, ast.Delete):
                    targets = child.targets
                elif isinstance(child, (ast.For, ast.AsyncFor)):
                    targets = [child.target]
                elif isinstance(child, (ast.With, ast.AsyncWith)):
                    targets = [i.optional_vars for i in child.items if i.optional_vars is not None]
                for t in targets:
                    for n in ast.walk(t):
                        if isinstance(n, ast.Attribute) and n.attr == attr:
                            found.append((rel, scope, 'assign'))
                        if isinstance(n, ast.Name) and n.id == attr and in_class:
                            found.append((rel, scope, 'field-default'))
                if isinstance(child, ast.Call):
                    for kw in child.keywords:
                        if kw.arg == attr:
                            found.append((rel, scope, 'keyword'))
                        if kw.arg is None:
                            found.append((rel, scope, '**kwargs')) if _mentions(kw.value, attr) else None
                if isinstance(child, ast.Constant) and child.value == attr:
                    found.append((rel, scope, 'string'))
                visit(child, sc, ic)
        visit(tree, None, False)
    _scan_cache[ckey] = sorted(set(found))
    return _scan_cache[ckey]


def _mentions(node, attr):
    return any(isinstance(n, ast.Constant) and n.value == attr for n in ast.walk(node))


def call_site_keyword(modname, funcname, method, keyword):
    """
    The source of the keyword argument `keyword` at the (single) call `<x>.<method>(...)` inside `funcname` of
    `modname`, compiled to an expression; None if the call does not pass it.  Ties V2 to the real call sites.
    """
    rel = modname.replace('.', '/') + '.py'
    tree = dict(package_sources())[rel]
    fn = [n for n in ast.walk(tree) if isinstance(n, (ast.FunctionDef, ast.AsyncFunctionDef)) and n.name == funcname]
    calls = [c for f in fn for c in ast.walk(f)
             if isinstance(c, ast.Call) and isinstance(c.func, ast.Attribute) and c.func.attr == method]
    if len(calls) != 1:
        raise Unsupported(f'{modname}.{funcname}: expected exactly one call of .{method}(), found {len(calls)}')
    for kw in calls[0].keywords:
        if kw.arg is None:
            raise Unsupported(f'{modname}.{funcname}: .{method}(**kwargs) is not analysed')
        if kw.arg == keyword:
            return compile(ast.Expression(kw.value), f'<{modname}.{funcname}:{method}:{keyword}>', 'eval')
    return None


def recall_call_sites():
    """(file, function, method) of every call `.recall(` / `.recall_memo(` / `.forget(` in the package."""
    ckey = (repo_root(), 'recall-sites')
    if ckey in _scan_cache:
        return _scan_cache[ckey]
    out = []
    for rel, tree in package_sources():
        for f in ast.walk(tree):
            if isinstance(f, (ast.FunctionDef, ast.AsyncFunctionDef)):
                for c in ast.walk(f):
                    if isinstance(c, ast.Call) and isinstance(c.func, ast.Attribute) and c.func.attr in ('recall', 'recall_memo', 'forget'):
                        out.append((rel, f.name, c.func.attr))
    _scan_cache[ckey] = sorted(set(out))
    return _scan_cache[ckey]


# ----------------------------------------------------------------------------------------------- V1
@harness('V1', targets=[f'{INV}.ResourceMemories.recall', f'{INV}.ResourceMemories.forget', f'{INV}.ResourceMemories._build_key'],
         props=['C14', 'C03', 'C09', 'C05', 'C06', 'C07', 'C08', 'C10', 'C12', 'C13', 'C17'],
         clauses=['keyed_by_uid', 'existing_returned_unchanged', 'flag_fixed_at_creation', 'remembered_unless_ephemeral',
                  'forget_removes_only_that_key', 'others_untouched', 'single_writer_fully_handled_once',
                  'noticed_by_listing_never_reassigned'],
         canaries=['canary.always_creates', 'canary.forget_is_noop'],
         trusted=['ResourceMemory() construction (dataclass defaults) and copy.copy(memobase) as in CPython',
                  'dict semantics for string keys (modelled by an association list with distinct keys)'],
         assumes=['the memories map holds 0..2 other entries with arbitrary pairwise distinct string keys; uids are '
                  'arbitrary strings'])
def V1(vc):
    """
    ResourceMemories over an arbitrary map of memories (0..2 entries with arbitrary distinct keys, arbitrary flags)
    and an arbitrary raw body:
      keyed_by_uid       the key of a body with a non-empty metadata.uid is that uid (so two objects share a memory
                         iff they share the uid); without a uid it is '';
      recall             if a memory is stored under the key: that very object is returned, its flags
                         noticed_by_listing / fully_handled_once are not touched -- whatever `noticed_by_listing`
                         is passed (re-listings and later events do not re-notice the object);
                         otherwise a NEW memory is returned with noticed_by_listing == the argument and
                         fully_handled_once == False, and it is stored under the key iff not ephemeral;
      forget             removes the entry of that key only (no-op if absent);
      both               leave every other entry (object and flags) untouched.
    Frame (scan of every module of the package under check): `fully_handled_once` is written only by
    processing.process_changing_cause (H1: set to True at cycle closure, never reset); `noticed_by_listing`
    is written only as the constructor keyword inside `recall`.
    """
    n = vc.nondet(3, 'other entries')
    raw, uid = draw_body(vc)
    others = [(vc.str(f'key{i}'), existing_memory(vc, f'other{i}')) for i in range(n)]
    for i in range(n):
        for j in range(i):
            vc.assume(Not(Eq(others[i][0], others[j][0])), 'map keys are distinct')
    mems = load_memories(vc, others)
    key_spec = '' if uid is None else uid                       # '' or '' is ''
    key = mems._build_key(raw)
    vc.ensure('keyed_by_uid', Eq(key, key_spec))
    flags_before = [(m, m.noticed_by_listing, m.fully_handled_once) for _, m in others]
    present_before = [m for k, m in others if mems._items.same(k, key_spec)]     # at most one: keys are distinct
    present = len(present_before) == 1

    def others_intact(except_key=True):
        ok = all(m.noticed_by_listing is a and m.fully_handled_once is b for m, a, b in flags_before)
        kept = [(k, m) for k, m in others if not mems._items.same(k, key_spec)]
        now = [(k, m) for k, m in mems._items.items() if not mems._items.same(k, key_spec)]
        return ok and len(kept) == len(now) and all(a[0] is b[0] and a[1] is b[1] for a, b in zip(kept, now))

    # frame scans (independent of the path; cheap: cached per tree)
    w1 = [w for w in writers_of('fully_handled_once') if w[2] != 'field-default']
    vc.ensure('single_writer_fully_handled_once',
              w1 == [('kopf/_core/reactor/processing.py', 'process_changing_cause', 'assign')], note=repr(w1))
    w2 = [w for w in writers_of('noticed_by_listing') if w[2] != 'field-default']
    vc.ensure('noticed_by_listing_never_reassigned',
              all(w in (('kopf/_core/reactor/inventory.py', 'ResourceMemories.recall', 'keyword'),
                        ('kopf/_core/reactor/processing.py', 'process_resource_event', 'keyword')) for w in w2)
              and len(w2) >= 1, note=repr(w2))

    if vc.nondet(2, 'recall / forget') == 1:
        vc.drive(mems.forget(raw))
        vc.ensure('forget_removes_only_that_key', key_spec not in mems._items and len(mems._items) == n - (1 if present else 0))
        vc.ensure('others_untouched', others_intact())
        vc.canary('canary.forget_is_noop', len(mems._items) == n)
        return ('forget', present)

    flag = vc.bool('noticed_by_listing')
    ephemeral = vc.bool('ephemeral')
    memobase = resolve(vc.fin('memobase', [None, 'a memo']))
    if memobase is not None:
        from kopf._cogs.structs import ephemera
        memobase = ephemera.Memo(x=1)
    memory = vc.drive(mems.recall(raw, memobase=memobase, noticed_by_listing=flag, ephemeral=ephemeral))
    vc.ensure('others_untouched', others_intact())
    vc.canary('canary.always_creates', not present)
    if present:
        old = present_before[0]
        vc.ensure('existing_returned_unchanged', memory is old and mems._items[key_spec] is old and len(mems._items) == n)
        return ('recall-existing', memory.noticed_by_listing, memory.fully_handled_once)
    vc.ensure('flag_fixed_at_creation', isinstance(memory, inventory.ResourceMemory)
              and all(memory is not m for _, m in others))
    vc.ensure('flag_fixed_at_creation', Eq(memory.noticed_by_listing, flag))
    vc.ensure('flag_fixed_at_creation', Eq(memory.fully_handled_once, False))
    stored = key_spec in mems._items
    vc.ensure('remembered_unless_ephemeral', Iff(stored, Not(ephemeral)))
    vc.ensure('remembered_unless_ephemeral', (not stored) or mems._items[key_spec] is memory)
    vc.ensure('remembered_unless_ephemeral', len(mems._items) == n + (1 if stored else 0))
    if memobase is not None:
        vc.ensure('flag_fixed_at_creation', memory.memo is not memobase and dict(memory.memo) == dict(memobase))
    return ('recall-new', memory.noticed_by_listing, stored)


# ----------------------------------------------------------------------------------------------- V2
@harness('V2', targets=[f'{INV}.ResourceMemories.recall', f'{INV}.ResourceMemories.recall_memo'], props=['C14', 'C03', 'C06', 'C08', 'C13', 'C17', 'C18', 'C05'],
         prop_clauses={'C05': ['listed_preexisting_object_is_noticed', 'relisting_changes_nothing']},
         clauses=['listed_preexisting_object_is_noticed', 'relisting_changes_nothing', 'call_sites_known'],
         canaries=['canary.always_noticed'],
         trusted=['the keyword expressions `noticed_by_listing=...` (processing.process_resource_event) and '
                  '`ephemeral=...` (admission.serve_admission_request) are read from the call sites of the tree under '
                  'check and evaluated on the event type / the review operation'],
         assumes=['histories of at most one earlier entry-point call for the object before its listing event'])
def V2(vc):
    """
    The property demands that every object that exists when the operator starts gets its resume handlers, i.e.
    (H5: initial = noticed_by_listing and not fully_handled_once) that the memory recalled for the object's
    LISTING event (raw type None) is noticed_by_listing, unless the stream of this process has already delivered
    a regular event of the same object before (then it is a re-listing and nothing may change).  The memories
    are recalled from two entry points: the watch-stream processing (recall(noticed_by_listing=<type is None>))
    and the admission server (recall_memo(ephemeral=<operation == 'CREATE'>)), both modelled by the argument
    expressions found at the real call sites.  History: an optional earlier call for the same uid, then the
    listing event.
      listed_preexisting_object_is_noticed   first == none / an admission review  ==>  memory.noticed_by_listing
      relisting_changes_nothing              first == a stream event  ==>  the same memory, flags as they were
    """
    sites = recall_call_sites()
    vc.ensure('call_sites_known', sites == [('kopf/_core/engines/admission.py', 'serve_admission_request', 'recall_memo'),
                                            ('kopf/_core/reactor/inventory.py', 'recall_memo', 'recall'),
                                            ('kopf/_core/reactor/processing.py', 'process_resource_event', 'forget'),
                                            ('kopf/_core/reactor/processing.py', 'process_resource_event', 'recall')],
              note=repr(sites))
    e_noticed = call_site_keyword('kopf._core.reactor.processing', 'process_resource_event', 'recall', 'noticed_by_listing')
    e_ephemeral = call_site_keyword('kopf._core.engines.admission', 'serve_admission_request', 'recall_memo', 'ephemeral')
    e_adm_noticed = call_site_keyword('kopf._core.engines.admission', 'serve_admission_request', 'recall_memo', 'noticed_by_listing')

    def stream_flag(raw_type):
        return eval(e_noticed, {'raw_type': raw_type}) if e_noticed is not None else False

    def review_kwargs(operation):
        kw = {'ephemeral': eval(e_ephemeral, {'operation': operation}) if e_ephemeral is not None else False}
        if e_adm_noticed is not None:
            kw['noticed_by_listing'] = eval(e_adm_noticed, {'operation': operation})
        return kw
    uid = vc.str('uid')
    vc.assume(truthy_str(uid), 'a real object has a non-empty uid')
    other = vc.str('other-key')
    vc.assume(Not(Eq(other, uid)), 'another object')
    mems = load_memories(vc, [(other, existing_memory(vc, 'other'))])

    def body():
        return {'metadata': {'uid': uid, 'name': 'obj'}, 'spec': {}}
    from kopf._cogs.structs import ephemera
    memobase = ephemera.Memo()
    first = ['none', 'stream:ADDED', 'stream:MODIFIED', 'stream:listing', 'review:CREATE', 'review:UPDATE', 'review:DELETE',
             'review:CONNECT'][vc.nondet(8, 'earlier entry-point call for this object')]
    m1 = None
    if first.startswith('stream:'):
        t = first.split(':')[1]
        m1 = vc.drive(mems.recall(body(), noticed_by_listing=stream_flag(None if t == 'listing' else t), memobase=memobase))
        m1_flags = (m1.noticed_by_listing, m1.fully_handled_once)
    elif first.startswith('review:'):
        vc.drive(mems.recall_memo(body(), memobase=memobase, **review_kwargs(first.split(':')[1])))
    # the listing event of the (re)starting watch-stream
    memory = vc.drive(mems.recall(body(), noticed_by_listing=stream_flag(None), memobase=memobase))
    if first.startswith('stream:'):
        vc.ensure('relisting_changes_nothing', memory is m1 and (memory.noticed_by_listing, memory.fully_handled_once) == m1_flags)
    else:
        vc.ensure('listed_preexisting_object_is_noticed', Eq(memory.noticed_by_listing, True),
                  excuse={'F-C14-1': first.startswith('review:') and review_kwargs(first.split(':')[1])['ephemeral'] is False})
    vc.canary('canary.always_noticed', Eq(memory.noticed_by_listing, True))
    return ('listing-after', first, memory.noticed_by_listing)


def truthy_str(s):
    return s.truth() if isinstance(s, SV) else bool(s)
