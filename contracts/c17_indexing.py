"""Contracts for C17 "in-memory indices mirror the cluster; handling waits for the initial index":
I1 (Index/Store against an abstract view, bounded), I2/I2d/I2r (OperatorIndexers.replace/discard,
index_resource: the per-indexer outcome table of docs/indexing.rst), Q7 (queueing.watcher: toggle
clause), O1 (orchestration.spawn_missing_watchers: blocker bracket), O1t (aiotoggles.ToggleSet)."""
import asyncio
import collections.abc
import itertools
import types

from pyvc import *
from pyvc.loader import _STOP
from pyvc.stubs import Opaque, NullLogger
from kopf._cogs.structs import ephemera
from kopf._core.actions import execution, lifecycles
from kopf._core.engines import indexing

EM = execution.ErrorsMode


class _Other(Exception):
    """an arbitrary exception unrelated to the framework's classes"""


# =============================================================================================== I2
class _Old:
    """Ghost value: "whatever entries the object had in this index before the call"."""
    def __repr__(self): return '<OLD>'


OLD = _Old()


class GhostIndex:
    """
    indexing.Index by its contract I1, restricted to the entries of ONE object (the one whose key is
    passed): `_discard(a)` -> the object has no entries; `_replace(a, m)` -> the object's entries are
    exactly m's items (m must be a Mapping, as in the real method, which calls m.items()).  Entries of
    other objects are not touched by either (I1 frame), so they are not modelled.
    """
    def __init__(self, vc, name):
        self.vc, self.name = vc, name
        self.entries = OLD
        self.keys_seen = []

    def _discard(self, acckey, obj_keys=None):
        self.vc.emit('index._discard', self.name, acckey)
        self.keys_seen.append(acckey)
        if obj_keys is None:
            self.entries = {}
        else:
            raise Unsupported('partial discard is internal to Index')

    def _replace(self, acckey, obj):
        self.vc.emit('index._replace', self.name, acckey, obj)
        self.keys_seen.append(acckey)
        if not isinstance(obj, collections.abc.Mapping):
            raise AttributeError(f'{type(obj).__name__!r} object has no attribute items')
        self.entries = dict(obj.items())


def same_entries(a, b):
    """Equality of ghost entries: same sentinel, or the same keys bound to the very same value objects."""
    if a is OLD or b is OLD:
        return a is b
    return set(a) == set(b) and all(a[k] is b[k] for k in a)


RESULT_SHAPES = ['temporary', 'permanent', 'arbitrary', 'none', 'scalar', 'empty-list', 'dict', 'empty-dict',
                 'dict-subclass', 'mapping']


def draw_outcome(vc, shape, tag):
    """An execution.Outcome of the given shape; results carry symbolic leaves (incl. falsy ones: 0, [], {})."""
    final = vc.bool(f'{tag}.final')
    if shape == 'temporary':
        return execution.Outcome(final=final, exception=execution.TemporaryError('t'), delay=vc.opt(f'{tag}.delay', vc.real))
    if shape == 'permanent':
        return execution.Outcome(final=True, exception=execution.PermanentError('p'))
    if shape == 'arbitrary':      # errors=TEMPORARY/PERMANENT modes keep the arbitrary exception in the outcome
        return execution.Outcome(final=final, exception=_Other('x'), delay=vc.opt(f'{tag}.delay', vc.real))
    if shape == 'none':           # returned None, or an arbitrary error in the IGNORED mode (X1: exception None, no result)
        return execution.Outcome(final=True)
    if shape == 'scalar':
        return execution.Outcome(final=True, result=vc.int(f'{tag}.result'))
    if shape == 'empty-list':
        return execution.Outcome(final=True, result=[])
    if shape == 'dict':
        return execution.Outcome(final=True, result={'k1': vc.opt(f'{tag}.v1', vc.int), 'k2': vc.str(f'{tag}.v2')})
    if shape == 'empty-dict':
        return execution.Outcome(final=True, result={})
    if shape == 'dict-subclass':
        return execution.Outcome(final=True, result=ephemera.Memo(k1=vc.int(f'{tag}.v1')))
    if shape == 'mapping':
        return execution.Outcome(final=True, result=types.MappingProxyType({'k1': vc.int(f'{tag}.v1')}))
    raise AssertionError(shape)


def spec_entries(in_outcomes, outcome):
    """
    docs/indexing.rst, as a function from what happened to the indexing function for this object to
    the object's entries in that index afterwards:
      filter mismatch (no outcome for the index)          -> removed
      temporary / permanent / non-ignored arbitrary error -> removed
      None result (or ignored error)                      -> kept as they were
      a dict (strictly dict)                              -> replaced by the dict's items
      any other value                                     -> replaced by {None: value}
    """
    if not in_outcomes:
        return {}
    if outcome.exception is not None:
        return {}
    if outcome.result is None:
        return OLD
    if type(outcome.result) is dict:
        return dict(outcome.result)
    return {None: outcome.result}


def make_body(vc):
    return {'metadata': {'namespace': vc.opt('ns', vc.str), 'name': vc.str('name'), 'uid': vc.str('uid')}}


def key_matches(key, body):
    m = body['metadata']
    return isinstance(key, tuple) and len(key) == 3 and key[0] is m['namespace'] and key[1] is m['name'] and key[2] is m['uid']


class TrackedIndexer:
    """A real-code OperatorIndexer (its replace/discard are the extracted real methods) over a GhostIndex."""
    def __init__(self, vc, name, ld_replace, ld_discard):
        self.index = GhostIndex(vc, name)
        self._r, self._d = ld_replace, ld_discard

    def replace(self, key, obj):
        return self._r.fn(self, key, obj)

    def discard(self, key):
        return self._d.fn(self, key)


class Outcomes:
    """The `outcomes` mapping: membership of the tracked id is fixed; any other id's is arbitrary."""
    def __init__(self, vc, tracked, tracked_in):
        self.vc, self.tracked, self.tracked_in = vc, tracked, tracked_in

    def __contains__(self, id):
        if id == self.tracked:
            return self.tracked_in
        return self.vc.nondet(2, 'other id in outcomes?') == 1

    def items(self):
        return ('items-of', self)


@harness('I2', targets=['kopf._core.engines.indexing.OperatorIndexers.replace',
                        'kopf._core.engines.indexing.OperatorIndexer.replace',
                        'kopf._core.engines.indexing.OperatorIndexer.discard'], props=['C17'],
         clauses=['outcome_table', 'mismatch_discarded', 'same_object_key'],
         canaries=['canary.always_kept', 'canary.always_removed'],
         trusted=['Index._replace/_discard by contract I1 (bounded)',
                  'dict iteration visits every key exactly once (loop exhaustion)',
                  'outcomes of an ignored arbitrary error carry neither exception nor result (X1, execution.execute_handler_once)'])
def I2(vc):
    """
    OperatorIndexers.replace(body, outcomes), for an ARBITRARY indexer X among arbitrarily many (both
    loops are cut by loop contracts; every other iteration concerns an arbitrary other indexer with an
    arbitrary outcome): afterwards the object's entries in X's index are what docs/indexing.rst says --
    no outcome for X (filter mismatch) or an outcome with an exception => removed; result None => kept;
    a dict => replaced by its items; any other value v => replaced by {None: v} (falsy results 0, [], {}
    are results).  The docs say *strictly* dict: a dict subclass (kopf.Memo) or another Mapping is a
    value; the code merges them by key => known finding F-C17-1.  All index calls use the object's
    key (namespace, name, uid).  Index is used by contract I1 (GhostIndex).
    """
    X, Y = 'ix', 'iy'
    x_in = vc.nondet(2, 'X in outcomes?') == 1
    shape = RESULT_SHAPES[vc.nondet(len(RESULT_SHAPES), 'outcome shape of X')] if x_in else None
    out_x = draw_outcome(vc, shape, 'X') if x_in else None
    body = make_body(vc)
    ld_ir = vc.load('kopf._core.engines.indexing', 'OperatorIndexer.replace')
    ld_id = vc.load('kopf._core.engines.indexing', 'OperatorIndexer.discard')
    ix, iy = TrackedIndexer(vc, X, ld_ir, ld_id), TrackedIndexer(vc, Y, ld_ir, ld_id)
    self_ = indexing.OperatorIndexers()
    dict.__setitem__(self_, X, ix); dict.__setitem__(self_, Y, iy)
    outcomes = Outcomes(vc, X, x_in)
    after_loop1 = spec_entries(x_in, out_x) if x_in else OLD     # loop 1 handles the ids that have outcomes
    final = spec_entries(x_in, out_x)
    known = shape in ('dict-subclass', 'mapping')
    st = dict(done1=False, done2=False, visiting=None, phase1=0, phase2=0)

    def check_keys():
        for k in ix.index.keys_seen + iy.index.keys_seen:
            vc.ensure('same_object_key', key_matches(k, body))

    # ---- loop 1: for id, outcome in outcomes.items()
    def havoc1(loc):
        st['done1'] = x_in and vc.nondet(2, 'X already visited by loop 1?') == 1
        ix.index.entries = after_loop1 if st['done1'] else OLD
        return {}

    def element1(loc, iterable):
        vc.ensure('outcome_table', isinstance(iterable, tuple) and iterable[1] is outcomes)
        c = vc.nondet(3, 'loop 1: exhausted / X / another id')
        if c == 0:
            vc.assume(st['done1'] == x_in, 'exhausted: every key of outcomes was visited')
            return _STOP
        if c == 1:
            vc.assume(x_in and not st['done1'], 'each key is visited once')
            st['visiting'] = X
            return (X, out_x)
        st['visiting'] = Y
        return (Y, draw_outcome(vc, RESULT_SHAPES[vc.nondet(len(RESULT_SHAPES), 'outcome shape of Y')], 'Y'))

    def inv1(loc):
        st['phase1'] += 1
        if st['phase1'] == 1:       # entry
            return ix.index.entries is OLD
        if st['phase1'] == 2:       # assumed after the havoc: established by construction
            return True
        done = st['done1'] or st['visiting'] == X
        ok = same_entries(ix.index.entries, after_loop1 if done else OLD)
        vc.ensure('outcome_table', ok, excuse={'F-C17-1': known})
        check_keys()
        return True

    # ---- loop 2: for id, indexer in self.items()
    def havoc2(loc):
        st['done2'] = vc.nondet(2, 'X already visited by loop 2?') == 1
        ix.index.entries = final if st['done2'] else after_loop1
        return {}

    def element2(loc, iterable):
        c = vc.nondet(3, 'loop 2: exhausted / X / another id')
        if c == 0:
            vc.assume(st['done2'], 'exhausted: every indexer was visited')
            return _STOP
        if c == 1:
            vc.assume(not st['done2'], 'each key is visited once')
            st['visiting'] = X
            return (X, ix)
        st['visiting'] = Y
        return (Y, iy)

    def inv2(loc):
        st['phase2'] += 1
        if st['phase2'] == 1:       # entry: what loop 1 left
            vc.ensure('outcome_table', same_entries(ix.index.entries, after_loop1), excuse={'F-C17-1': known})
            return True
        if st['phase2'] == 2:
            return True
        done = st['done2'] or st['visiting'] == X
        vc.ensure('mismatch_discarded', same_entries(ix.index.entries, final if done else after_loop1),
                  excuse={'F-C17-1': known})
        check_keys()
        return True

    ld = vc.load('kopf._core.engines.indexing', 'OperatorIndexers.replace', loops={
        1: LoopSpec('for id, outcome in outcomes.items()', invariant=inv1, havoc=havoc1, element=element1),
        2: LoopSpec('for id, indexer in self.items()', invariant=inv2, havoc=havoc2, element=element2)})
    ld.fn(self_, body, outcomes)
    check_keys()
    vc.ensure('outcome_table', same_entries(ix.index.entries, final), excuse={'F-C17-1': known})
    vc.canary('canary.always_kept', ix.index.entries is OLD)
    vc.canary('canary.always_removed', ix.index.entries == {})
    e = ix.index.entries
    return ('entries', 'OLD' if e is OLD else sorted(map(repr, e)))
