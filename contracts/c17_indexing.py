"""Contracts for C17 "in-memory indices mirror the cluster; handling waits for the initial index":
I1 (Index/Store against an abstract view: bounded operation sequences) + I1p (the same contract as an
inductive step over all well-formed states of a small key universe, values symbolic), I2/I2d/I2r (OperatorIndexers.replace/discard,
index_resource: the per-indexer outcome table of docs/indexing.rst), Q7 (queueing.watcher: toggle
clause), O1 (orchestration.spawn_missing_watchers: blocker bracket), O1t (aiotoggles.ToggleSet)."""
import asyncio
import collections.abc
import itertools
import types

from pyvc import *
from pyvc.loader import _STOP
from pyvc.stubs import Opaque, NullLogger
from kopf._cogs.structs import ephemera
from kopf._core.actions import execution, lifecycles
from kopf._core.engines import indexing

EM = execution.ErrorsMode


class _Other(Exception):
    """an arbitrary exception unrelated to the framework's classes"""


# =============================================================================================== I2
class _Old:
    """Ghost value: "whatever entries the object had in this index before the call"."""
    def __repr__(self): return '<OLD>'


OLD = _Old()
PARTIAL = _Old()      # ghost value: "some, but not necessarily all, of the old entries were removed"


class GhostIndex:
    """
    indexing.Index by its contract I1, restricted to the entries of ONE object (the one whose key is
    passed): `_discard(a)` -> the object has no entries; `_replace(a, m)` -> the object's entries are
    exactly m's items (m must be a Mapping, as in the real method, which calls m.items()).  Entries of
    other objects are not touched by either (I1 frame), so they are not modelled.
    """
    def __init__(self, vc, name):
        self.vc, self.name = vc, name
        self.entries = OLD
        self.keys_seen = []

    def _discard(self, acckey, obj_keys=None):
        self.vc.emit('index._discard', self.name, acckey)
        self.keys_seen.append(acckey)
        # an explicit obj_keys restricts the removal to those index keys: not "all of the object's entries"
        self.entries = {} if obj_keys is None else PARTIAL

    def _replace(self, acckey, obj):
        self.vc.emit('index._replace', self.name, acckey, obj)
        self.keys_seen.append(acckey)
        if not isinstance(obj, collections.abc.Mapping):
            raise AttributeError(f'{type(obj).__name__!r} object has no attribute items')
        self.entries = dict(obj.items())


def same_entries(a, b):
    """Equality of ghost entries: same sentinel, or the same keys bound to the very same value objects."""
    if isinstance(a, _Old) or isinstance(b, _Old):
        return a is b
    return set(a) == set(b) and all(a[k] is b[k] for k in a)


RESULT_SHAPES = ['temporary', 'permanent', 'arbitrary', 'none', 'scalar', 'empty-list', 'dict', 'empty-dict',
                 'dict-subclass', 'mapping']


def draw_outcome(vc, shape, tag):
    """An execution.Outcome of the given shape; results carry symbolic leaves (incl. falsy ones: 0, [], {})."""
    final = vc.bool(f'{tag}.final')
    if shape == 'temporary':
        return execution.Outcome(final=final, exception=execution.TemporaryError('t'), delay=vc.opt(f'{tag}.delay', vc.real))
    if shape == 'permanent':
        return execution.Outcome(final=True, exception=execution.PermanentError('p'))
    if shape == 'arbitrary':      # errors=TEMPORARY/PERMANENT modes keep the arbitrary exception in the outcome
        return execution.Outcome(final=final, exception=_Other('x'), delay=vc.opt(f'{tag}.delay', vc.real))
    if shape == 'none':           # returned None, or an arbitrary error in the IGNORED mode (X1: exception None, no result)
        return execution.Outcome(final=True)
    if shape == 'scalar':
        return execution.Outcome(final=True, result=vc.int(f'{tag}.result'))
    if shape == 'empty-list':
        return execution.Outcome(final=True, result=[])
    if shape == 'dict':
        return execution.Outcome(final=True, result={'k1': vc.opt(f'{tag}.v1', vc.int), 'k2': vc.str(f'{tag}.v2')})
    if shape == 'empty-dict':
        return execution.Outcome(final=True, result={})
    if shape == 'dict-subclass':
        return execution.Outcome(final=True, result=ephemera.Memo(k1=vc.int(f'{tag}.v1')))
    if shape == 'mapping':
        return execution.Outcome(final=True, result=types.MappingProxyType({'k1': vc.int(f'{tag}.v1')}))
    raise AssertionError(shape)


def spec_entries(in_outcomes, outcome):
    """
    docs/indexing.rst, as a function from what happened to the indexing function for this object to
    the object's entries in that index afterwards:
      filter mismatch (no outcome for the index)          -> removed
      temporary / permanent / non-ignored arbitrary error -> removed
      None result (or ignored error)                      -> kept as they were
      a dict (strictly dict)                              -> replaced by the dict's items
      any other value                                     -> replaced by {None: value}
    """
    if not in_outcomes:
        return {}
    if outcome.exception is not None:
        return {}
    if outcome.result is None:
        return OLD
    if type(outcome.result) is dict:
        return dict(outcome.result)
    return {None: outcome.result}


def make_body(vc):
    return {'metadata': {'namespace': vc.opt('ns', vc.str), 'name': vc.str('name'), 'uid': vc.str('uid')}}


def key_matches(key, body):
    m = body['metadata']
    return isinstance(key, tuple) and len(key) == 3 and key[0] is m['namespace'] and key[1] is m['name'] and key[2] is m['uid']


class TrackedIndexer:
    """A real-code OperatorIndexer (its replace/discard are the extracted real methods) over a GhostIndex."""
    def __init__(self, vc, name, ld_replace, ld_discard):
        self.index = GhostIndex(vc, name)
        self._r, self._d = ld_replace, ld_discard

    def replace(self, key, obj):
        return self._r.fn(self, key, obj)

    def discard(self, key):
        return self._d.fn(self, key)


class Outcomes:
    """The `outcomes` mapping: membership of the tracked id is fixed; any other id's is arbitrary."""
    def __init__(self, vc, tracked, tracked_in):
        self.vc, self.tracked, self.tracked_in = vc, tracked, tracked_in

    def __contains__(self, id):
        if id == self.tracked:
            return self.tracked_in
        return self.vc.nondet(2, 'other id in outcomes?') == 1

    def items(self):
        return ('items-of', self)


@harness('I2', targets=['kopf._core.engines.indexing.OperatorIndexers.replace',
                        'kopf._core.engines.indexing.OperatorIndexer.replace',
                        'kopf._core.engines.indexing.OperatorIndexer.discard'], props=['C17'],
         clauses=['outcome_table', 'mismatch_discarded', 'same_object_key'],
         canaries=['canary.always_kept', 'canary.always_removed'],
         trusted=['Index._replace/_discard by contract I1 (bounded)',
                  'dict iteration visits every key exactly once (loop exhaustion)',
                  'outcomes of an ignored arbitrary error carry neither exception nor result (X1, execution.execute_handler_once)'])
def I2(vc):
    """
    OperatorIndexers.replace(body, outcomes), for an ARBITRARY indexer X among arbitrarily many (both
    loops are cut by loop contracts; every other iteration concerns an arbitrary other indexer with an
    arbitrary outcome): afterwards the object's entries in X's index are what docs/indexing.rst says --
    no outcome for X (filter mismatch) or an outcome with an exception => removed; result None => kept;
    a dict => replaced by its items; any other value v => replaced by {None: v} (falsy results 0, [], {}
    are results).  The docs say *strictly* dict: a dict subclass (kopf.Memo) or another Mapping is a
    value; the code merges them by key => known finding F-C17-1.  All index calls use the object's
    key (namespace, name, uid).  Index is used by contract I1 (GhostIndex).
    """
    X, Y = 'ix', 'iy'
    x_in = vc.nondet(2, 'X in outcomes?') == 1
    shape = RESULT_SHAPES[vc.nondet(len(RESULT_SHAPES), 'outcome shape of X')] if x_in else None
    out_x = draw_outcome(vc, shape, 'X') if x_in else None
    body = make_body(vc)
    ld_ir = vc.load('kopf._core.engines.indexing', 'OperatorIndexer.replace')
    ld_id = vc.load('kopf._core.engines.indexing', 'OperatorIndexer.discard')
    ix, iy = TrackedIndexer(vc, X, ld_ir, ld_id), TrackedIndexer(vc, Y, ld_ir, ld_id)
    self_ = indexing.OperatorIndexers()
    dict.__setitem__(self_, X, ix); dict.__setitem__(self_, Y, iy)
    outcomes = Outcomes(vc, X, x_in)
    after_loop1 = spec_entries(x_in, out_x) if x_in else OLD     # loop 1 handles the ids that have outcomes
    final = spec_entries(x_in, out_x)
    nondict_mapping = shape in ('dict-subclass', 'mapping')

    class _Excuse:
        """F-C17-1 covers exactly: a non-dict Mapping result was merged by its keys (instead of {None: result})."""
        def __bool__(self):
            return bool(nondict_mapping and same_entries(ix.index.entries, dict(out_x.result.items())))
    known = _Excuse()
    st = dict(done1=False, done2=False, visiting=None, phase1=0, phase2=0)

    def check_keys():
        for k in ix.index.keys_seen + iy.index.keys_seen:
            vc.ensure('same_object_key', key_matches(k, body))

    # ---- loop 1: for id, outcome in outcomes.items()
    def havoc1(loc):
        st['done1'] = x_in and vc.nondet(2, 'X already visited by loop 1?') == 1
        ix.index.entries = after_loop1 if st['done1'] else OLD
        return {}

    def element1(loc, iterable):
        vc.ensure('outcome_table', isinstance(iterable, tuple) and iterable[1] is outcomes)
        c = vc.nondet(3, 'loop 1: exhausted / X / another id')
        if c == 0:
            vc.assume(st['done1'] == x_in, 'exhausted: every key of outcomes was visited')
            return _STOP
        if c == 1:
            vc.assume(x_in and not st['done1'], 'each key is visited once')
            st['visiting'] = X
            return (X, out_x)
        st['visiting'] = Y
        return (Y, draw_outcome(vc, RESULT_SHAPES[vc.nondet(len(RESULT_SHAPES), 'outcome shape of Y')], 'Y'))

    def inv1(loc):
        st['phase1'] += 1
        if st['phase1'] == 1:       # entry
            return ix.index.entries is OLD
        if st['phase1'] == 2:       # assumed after the havoc: established by construction
            return True
        done = st['done1'] or st['visiting'] == X
        ok = same_entries(ix.index.entries, after_loop1 if done else OLD)
        vc.ensure('outcome_table', ok, excuse={'F-C17-1': known})
        check_keys()
        return True

    # ---- loop 2: for id, indexer in self.items()
    def havoc2(loc):
        st['done2'] = vc.nondet(2, 'X already visited by loop 2?') == 1
        ix.index.entries = final if st['done2'] else after_loop1
        return {}

    def element2(loc, iterable):
        c = vc.nondet(3, 'loop 2: exhausted / X / another id')
        if c == 0:
            vc.assume(st['done2'], 'exhausted: every indexer was visited')
            return _STOP
        if c == 1:
            vc.assume(not st['done2'], 'each key is visited once')
            st['visiting'] = X
            return (X, ix)
        st['visiting'] = Y
        return (Y, iy)

    def inv2(loc):
        st['phase2'] += 1
        if st['phase2'] == 1:       # entry: what loop 1 left
            vc.ensure('outcome_table', same_entries(ix.index.entries, after_loop1), excuse={'F-C17-1': known})
            return True
        if st['phase2'] == 2:
            return True
        done = st['done2'] or st['visiting'] == X
        vc.ensure('mismatch_discarded', same_entries(ix.index.entries, final if done else after_loop1),
                  excuse={'F-C17-1': known})
        check_keys()
        return True

    ld = vc.load('kopf._core.engines.indexing', 'OperatorIndexers.replace', loops={
        1: LoopSpec('for id, outcome in outcomes.items()', invariant=inv1, havoc=havoc1, element=element1),
        2: LoopSpec('for id, indexer in self.items()', invariant=inv2, havoc=havoc2, element=element2)})
    ld.fn(self_, body, outcomes)
    check_keys()
    vc.ensure('outcome_table', same_entries(ix.index.entries, final), excuse={'F-C17-1': known})
    vc.canary('canary.always_kept', ix.index.entries is OLD)
    vc.canary('canary.always_removed', ix.index.entries == {})
    e = ix.index.entries
    return ('entries', 'OLD' if e is OLD else sorted(map(repr, e)))


@harness('I2d', targets='kopf._core.engines.indexing.OperatorIndexers.discard', props=['C17'],
         clauses=['all_discarded', 'same_object_key'], canaries=['canary.kept'],
         trusted=['Index._discard by contract I1 (bounded)', 'dict iteration visits every key exactly once (loop exhaustion)'])
def I2d(vc):
    """
    OperatorIndexers.discard(body): for an ARBITRARY indexer X among arbitrarily many (loop contract),
    the object's entries are removed from X's index, using the object's key (namespace, name, uid).
    """
    X, Y = 'ix', 'iy'
    body = make_body(vc)
    ld_ir = vc.load('kopf._core.engines.indexing', 'OperatorIndexer.replace')
    ld_id = vc.load('kopf._core.engines.indexing', 'OperatorIndexer.discard')
    ix, iy = TrackedIndexer(vc, X, ld_ir, ld_id), TrackedIndexer(vc, Y, ld_ir, ld_id)
    self_ = indexing.OperatorIndexers()
    dict.__setitem__(self_, X, ix); dict.__setitem__(self_, Y, iy)
    st = dict(done=False, visiting=None, phase=0)

    def havoc(loc):
        st['done'] = vc.nondet(2, 'X already visited?') == 1
        ix.index.entries = {} if st['done'] else OLD
        return {}

    def element(loc, iterable):
        c = vc.nondet(3, 'exhausted / X / another id')
        if c == 0:
            vc.assume(st['done'], 'exhausted: every indexer was visited')
            return _STOP
        if c == 1:
            vc.assume(not st['done'], 'each key is visited once')
            st['visiting'] = X
            return (X, ix)
        st['visiting'] = Y
        return (Y, iy)

    def inv(loc):
        st['phase'] += 1
        if st['phase'] == 1:
            return ix.index.entries is OLD
        if st['phase'] == 2:
            return True
        done = st['done'] or st['visiting'] == X
        vc.ensure('all_discarded', same_entries(ix.index.entries, {} if done else OLD))
        for k in ix.index.keys_seen + iy.index.keys_seen:
            vc.ensure('same_object_key', key_matches(k, body))
        vc.canary('canary.kept', ix.index.entries is OLD)
        return True
    ld = vc.load('kopf._core.engines.indexing', 'OperatorIndexers.discard', loops={
        1: LoopSpec('for id, indexer in self.items()', invariant=inv, havoc=havoc, element=element)})
    ld.fn(self_, body)
    vc.ensure('all_discarded', same_entries(ix.index.entries, {}))
    return ('entries', sorted(map(repr, ix.index.entries)))


class _IxState:
    """progression.State by contract (G3), as far as index_resource uses it: every derived state is a
    fresh abstract state; its truth value (any failure/retry records left?) is arbitrary."""
    def __init__(self, vc, tag, parent=None, args=()):
        self.vc, self.tag, self.parent, self.args = vc, tag, parent, args
        self._truth = None

    def _derive(self, tag, *a):
        s = _IxState(self.vc, tag, self, a)
        self.vc.emit('state.' + tag, self, s, a)
        return s

    def with_handlers(self, handlers): return self._derive('with_handlers', handlers)
    def with_outcomes(self, outcomes): return self._derive('with_outcomes', outcomes)
    def without_successes(self): return self._derive('without_successes')

    def __bool__(self):
        if self._truth is None:
            self._truth = self.vc.bool(f'bool(state[{self.tag}])')
        return bool(self._truth)


@harness('I2r', targets='kopf._core.engines.indexing.index_resource', props=['C17', 'C15'],
         prop_clauses={'C15': ['live_is_indexed']},
         clauses=['no_indexing_handlers_noop', 'deleted_discards', 'live_is_indexed', 'errors_ignored_by_default',
                  'failures_remembered'],
         canaries=['canary.always_invokes'],
         trusted=['OperatorIndexers.replace/discard by contracts I2/I2d', 'execution.execute_handlers_once by contract X2/X1',
                  'registry._indexing.has_handlers/get_handlers by contract R1-like selection (filters)',
                  'progression.State by contract G3'])
def I2r(vc):
    """
    index_resource: nothing happens for a resource without indexing handlers; a DELETED event only
    discards the object from all indices (no handler is invoked); any other event invokes exactly the
    handlers selected for this object -- all at once (a handler that is not invoked would count as a
    filter mismatch), arbitrary errors IGNORED by default (X1 then yields "kept"), with the retry/
    exclusion state taken from the memory -- and applies exactly the returned outcomes to the indices
    for this body; failures/retries (not successes) are remembered for the next event.
    """
    has = vc.bool('has_handlers')
    etype = vc.fin('event.type', [None, 'ADDED', 'MODIFIED', 'DELETED'])
    body, resource, settings, memo, logger = Opaque('body'), Opaque('resource'), Opaque('settings'), Opaque('memo'), NullLogger()
    raw_event = {'type': etype, 'object': body}
    handlers_sel = Opaque('selected-indexing-handlers', truth=vc.bool('selected-nonempty'))
    idx = Opaque('registry._indexing')
    idx.has_handlers = lambda resource: (vc.emit('has_handlers', resource), has)[1]
    idx.get_handlers = lambda cause: (vc.emit('get_handlers', cause), handlers_sel)[1]
    registry = Opaque('registry', _indexing=idx)
    indexers = Opaque('indexers', indices=Opaque('indices'))
    indexers.discard = lambda body: vc.emit('indexers.discard', body)
    indexers.replace = lambda body, outcomes: vc.emit('indexers.replace', body, outcomes)
    vc.used('OperatorIndexers.replace', 'I2'); vc.used('OperatorIndexers.discard', 'I2d')
    prior = _IxState(vc, 'remembered') if vc.nondet(2, 'memory has a state?') == 1 else None
    memory = indexing.IndexingMemory(indexing_state=prior)
    scratch = _IxState(vc, 'from_scratch')
    outcomes = Opaque('outcomes')

    class StateCls:
        @staticmethod
        def from_scratch():
            vc.emit('from_scratch'); return scratch

    async def execute_handlers_once(**kw):
        vc.emit('execute', kw)
        await suspend('execute_handlers_once')
        if vc.nondet(2, 'execute raises?') == 1:
            raise asyncio.CancelledError()
        return outcomes
    vc.used('execution.execute_handlers_once', 'X2')
    ld = vc.load('kopf._core.engines.indexing', 'index_resource', stubs={
        'progression.State': StateCls, 'execution.execute_handlers_once': execute_handlers_once})
    raised = None
    try:
        vc.drive(ld.fn(indexers=indexers, registry=registry, settings=settings, resource=resource, raw_event=raw_event,
                       memory=memory, logger=logger, memo=memo, body=body))
    except asyncio.CancelledError as e:
        raised = e
    tr = vc.trace
    names = [ev[0] for ev in tr]
    deleted = Eq(etype, 'DELETED')
    n_exec, n_disc, n_repl = names.count('execute'), names.count('indexers.discard'), names.count('indexers.replace')
    vc.ensure('no_indexing_handlers_noop', Implies(Not(has), n_exec + n_disc + n_repl == 0 and memory.indexing_state is prior))
    vc.ensure('deleted_discards', Implies(And(has, deleted), n_disc == 1 and n_exec == 0 and n_repl == 0))
    vc.ensure('deleted_discards', Implies(n_disc > 0, And(has, deleted)))
    for ev in tr:
        if ev[0] == 'indexers.discard':
            vc.ensure('deleted_discards', ev[1] is body)
    vc.ensure('live_is_indexed', Iff(n_exec == 1, And(has, Not(deleted))) and n_exec <= 1)
    vc.canary('canary.always_invokes', n_exec == 1)
    if n_exec == 0:
        vc.ensure('live_is_indexed', n_repl == 0)
        return ('no-exec', n_disc)
    kw = tr[names.index('execute')][1]
    causes_asked = [ev[1] for ev in tr if ev[0] == 'get_handlers']
    vc.ensure('live_is_indexed', len(causes_asked) == 1 and kw['handlers'] is handlers_sel and kw['cause'] is causes_asked[0]
              and kw['cause'].body is body and kw['cause'].resource is resource and kw['cause'].indices is indexers.indices
              and kw['cause'].memo is memo and kw['settings'] is settings)
    vc.ensure('live_is_indexed', kw['lifecycle'] is lifecycles.all_at_once)
    vc.ensure('errors_ignored_by_default', kw.get('default_errors') is EM.IGNORED)
    # the state handed to the execution: the remembered one (else a fresh one), narrowed to the selected handlers
    st_in = kw['state']
    vc.ensure('failures_remembered', isinstance(st_in, _IxState) and st_in.tag == 'with_handlers' and st_in.args[0] is handlers_sel
              and st_in.parent is (prior if prior is not None else scratch))
    if raised is not None:
        vc.ensure('live_is_indexed', n_repl == 0)
        vc.ensure('failures_remembered', memory.indexing_state is prior)
        return ('raise', type(raised).__name__)
    vc.ensure('live_is_indexed', n_repl == 1 and names.index('indexers.replace') > names.index('execute'))
    rep = tr[names.index('indexers.replace')]
    vc.ensure('live_is_indexed', rep[1] is body and rep[2] is outcomes)
    m = memory.indexing_state
    chain_ok = (isinstance(m, _IxState) and m.tag == 'without_successes' and m.parent.tag == 'with_outcomes'
                and m.parent.args[0] is outcomes and m.parent.parent is st_in)
    last = [ev[2] for ev in tr if ev[0] == 'state.without_successes']
    vc.ensure('failures_remembered', len(last) == 1)
    vc.ensure('failures_remembered', If(last[0]._truth if last[0]._truth is not None else True, chain_ok, m is None or chain_ok))
    return ('indexed', m is None)


# =============================================================================================== I1
from pyvc.bounded import bounded


def index_view(index):
    """view(index) = {(index key, object key) -> value}, read from the private forward map."""
    items = index._Index__items
    return {(k, a): v for k, store in items.items() for a, v in store._Store__items.items()}


def index_wellformed(index):
    """reverse[a] == {k | a in items[k]}, no empty store, no empty reverse set."""
    items, reverse = index._Index__items, index._Index__reverse
    if any(len(store._Store__items) == 0 for store in items.values()):
        return False
    if any(len(ks) == 0 for ks in reverse.values()):
        return False
    derived = {}
    for k, store in items.items():
        for a in store._Store__items:
            derived.setdefault(a, set()).add(k)
    return derived == reverse


def readonly_views_agree(index, view):
    """What handlers can see (kopf.Index / kopf.Store read-only protocols) is exactly the view's projection."""
    keys = {k for k, _ in view}
    if set(index) != keys or len(index) != len(keys) or bool(index) != bool(keys):
        return False
    for k in keys:
        if k not in index:
            return False
        vals = sorted(repr(v) for (k2, _), v in view.items() if k2 == k)
        store = index[k]
        if sorted(repr(v) for v in store) != vals or len(store) != len(vals) or not store:
            return False
        if any(v not in store for (k2, _), v in view.items() if k2 == k):
            return False
    return all(k in keys for k in ('k1', 'k2', 'k3', None) if k in index)


def _i1_ops(thorough):
    objs = [('ns', 'a', 'u1'), ('ns', 'b', 'u2')]
    if thorough:
        maps = []
        for r in range(4):
            for ks in itertools.combinations(['k1', 'k2', 'k3'], r):
                maps.append({k: 'x' for k in ks})
                if ks:
                    maps.append({k: ('y', i) for i, k in enumerate(ks)})
                    maps.append({k: (None, 0, '')[i] for i, k in enumerate(ks)})
    else:
        # 4 result shapes (empty, one key, two keys, re-keyed/three keys) x values over 3 index keys
        # (None is a value like any other: docs/indexing.rst "return {'key': None}" gives {'key': [None, ...]}; so are 0 and '')
        maps = [{}, {'k1': 'x'}, {'k2': 'x'}, {'k1': 'x', 'k2': 'x'}, {'k1': None}, {'k2': 'y', 'k3': None},
                {'k1': 'x', 'k2': 0, 'k3': 'x'}]
    ops = []
    for a in objs:
        ops.append(('discard', a, None))
        ops.extend(('replace', a, m) for m in maps)
    return ops


@bounded('I1', targets=['kopf._core.engines.indexing.Index._replace', 'kopf._core.engines.indexing.Index._discard',
                        'kopf._core.engines.indexing.Store._replace', 'kopf._core.engines.indexing.Store._discard'],
         props=['C17'], clauses=['view_replace', 'view_discard', 'wellformed', 'readonly_views', 'store_view'],
         universe='all operation sequences of length <= 4 over 2 objects x 3 index keys x {discard, replace with 7 mappings '
                  '(empty / one / two / three keys, colliding and re-keyed, values x, y, None, 0)} = 69,904 sequences (thorough: all 8 '
                  'key subsets x 3 value patterns incl. None/0/empty string); plus all Store sequences of length <= 4 over 3 object keys x '
                  '{discard, replace with 4 values incl. None and an equal-but-not-identical one}')
def I1(b):
    """
    BOUNDED stand-in (not a proof) for the view/wf contract of Index and Store.  A deductive encoding
    needs a heap model of dict-of-dict-with-reverse-map objects with aliasing (`store = items[k]`
    mutated in place) and quantified well-formedness invariants over two loops; that is out of reach
    of pyvc's proxy values (symbolic keys cannot be hashed into the real dicts), so the same contract
    is evaluated on the real classes over the stated universe.  (I1p adds the deductive inductive step over all
    well-formed states of a 3 x 2 key universe with symbolic values.)
    After every operation of every sequence, against a dictionary reference model of the WHOLE view:
      Index._replace(a, m): view' == {(k,a')->v in view | a' != a} + {(k,a)->v | (k,v) in m}   (other objects untouched)
      Index._discard(a):    view' == {(k,a')->v in view | a' != a}
      wf': reverse map consistent with the forward map, no empty store, no empty reverse set
      the read-only protocols (iteration, len, bool, in, []) show exactly the projection of view'
      Store._replace/_discard: the same over {object key -> value}.
    """
    ops = _i1_ops(b.thorough)

    def run(seq):
        index = indexing.Index()
        model = {}
        for n, (op, a, m) in enumerate(seq):
            if op == 'discard':
                index._discard(a)
                model = {ka: v for ka, v in model.items() if ka[1] != a}
            else:
                index._replace(a, m)
                model = {ka: v for ka, v in model.items() if ka[1] != a}
                model.update({(k, a): v for k, v in m.items()})
            last = n == len(seq) - 1
            if not last:
                continue       # prefixes are sequences of the universe themselves: checked there
            wit = lambda: dict(sequence=[(o, x, y) for o, x, y in seq], view=index_view(index), expected=model,
                               reverse=dict(index._Index__reverse))
            b.check('view_replace' if op == 'replace' else 'view_discard', index_view(index) == model, wit)
            b.check('wellformed', index_wellformed(index), wit)
            b.check('readonly_views', readonly_views_agree(index, model), wit)

    for n in range(1, 5):
        for seq in itertools.product(ops, repeat=n):
            touched = {a for _, a, _ in seq[:-1]}
            b.case(key=None, nontrivial=(n == 1 or seq[-1][1] in touched or len(touched) > 0))
            run(seq)

    # ---- Store on its own
    class Eq1:
        """equal to 1 but not identical: `!=`-guarded updates must still leave an equal value"""
        def __eq__(self, o): return o == 1 or isinstance(o, Eq1)
        def __hash__(self): return hash(1)
        def __repr__(self): return '1'
    sops = [(op, a, v) for a in ('A', 'B', 'C') for op, v in (('discard', None), ('replace', 0), ('replace', 1), ('replace', Eq1()), ('replace', None))]
    for n in range(1, 5):
        for seq in itertools.product(sops, repeat=n):
            store = indexing.Store()
            model = {}
            for op, a, v in seq:
                if op == 'discard':
                    store._discard(a); model.pop(a, None)
                else:
                    store._replace(a, v); model[a] = v
            b.case(key=None)
            got = store._Store__items
            ok = (got == model and len(store) == len(model) and bool(store) == bool(model)
                  and sorted(map(repr, store)) == sorted(map(repr, model.values())) and all(v in store for v in model.values()))
            b.check('store_view', ok, lambda: dict(sequence=[(o, x, repr(y)) for o, x, y in seq], items=repr(got), expected=repr(model)))


# =============================================================================================== Q7
class GhostToggleSet:
    """
    aiotoggles.ToggleSet(all) by contract (O1t): on <=> no member toggle is off.  Rely used by the
    watcher (from O1: the kind toggle is made OFF before the watcher task exists, and nobody but this
    watcher drops it): while the kind toggle is still a member, is_on() is False; otherwise it is
    arbitrary at every call (other kinds/objects come and go).  make_toggle/drop_toggle suspend.
    """
    def __init__(self, vc, kind_toggle):
        self.vc, self.kind_toggle = vc, kind_toggle
        self.kind_dropped = False

    def is_on(self):
        r = False if (self.kind_toggle is not None and not self.kind_dropped) else self.vc.bool('operator_indexed.is_on()')
        self.vc.emit('is_on', self, r)
        return r

    async def make_toggle(self, *a, name=None):
        t = Opaque('object-toggle')
        self.vc.emit('make_toggle', self, t, a)
        await suspend('make_toggle')
        return t

    async def drop_toggle(self, t):
        self.vc.emit('drop_toggle', self, t)
        if t is self.kind_toggle:
            self.kind_dropped = True
        await suspend('drop_toggle')

    def __bool__(self):
        raise NotImplementedError


class _Q:
    def __init__(self, vc): self.vc = vc
    async def put(self, item):
        self.vc.emit('put', self, item)
        await suspend('backlog.put')


class _Ev:
    def __init__(self, vc): self.vc = vc
    def set(self): self.vc.emit('pressure.set', self)


class _DoneTask:
    def done(self): return True
    def cancel(self): return False


@harness('Q7', targets='kopf._core.reactor.queueing.watcher', props=['C17', 'C03'],
         prop_clauses={'C03': ['listed_drops_kind_toggle', 'no_toggle_without_worker', 'gate_reference_kept']},
         clauses=['listed_drops_kind_toggle', 'kind_toggle_dropped_only_on_listed', 'object_toggle_before_spawn',
                  'object_toggle_only_while_off', 'no_toggle_without_worker', 'gate_reference_kept'],
         canaries=['canary.always_toggles', 'canary.never_drops'],
         trusted=['ToggleSet by contract O1t + rely from O1 (kind toggle made off before the watcher task exists)',
                  'aiotasks.Scheduler.spawn by contract S2 (takes ownership of the coroutine)',
                  'watching.infinite_watch yields Bookmark.LISTED after each listing (W1/W2)'],
         replayable=False)
def Q7(vc):
    """
    The toggle clause of queueing.watcher, for ONE arbitrary event of the infinite stream (loop
    contract; loop state: the kind toggle dropped or not, the local reference to the operator-wide
    set kept or forgotten, the object's stream present or not).  Invariant: while the kind toggle is
    still a member of the set, the watcher still holds the set.  Per event:
      * LISTED  =>  the kind toggle is dropped from the operator-wide set (if not before), and it is
        dropped on no other event;
      * a worker is spawned for a new object: if the set was observed off (and the kind is indexed),
        a per-object toggle was made in that set strictly BEFORE the spawn and is handed to the worker
        together with the set; a toggle is made only right after observing the set off (no suspension
        in between), at most one, and never without a worker being spawned for it.
    Other clauses of the watcher (multiplexing, errors) are Q5/Q6/Q8 in c01_queueing.py.
    """
    from kopf._cogs.clients import watching
    from kopf._core.reactor import queueing
    has_set = vc.nondet(2, 'operator_indexed given?') == 1
    kind = Opaque('kind-toggle') if vc.nondet(2, 'kind is indexed (resource_indexed given)?') == 1 else None
    tset = GhostToggleSet(vc, kind) if has_set else None
    resource, settings, processor = Opaque('resource'), Opaque('settings', queueing=Opaque('q', worker_limit=None)), Opaque('processor')
    key = (resource, queueing.ObjectUid('u1'))
    streams_ref = []
    st = dict(phase=0, event=None, local0=None, dropped0=False)
    LISTED = watching.Bookmark.LISTED

    class Scheduler:
        def __init__(self, **kw): pass
        async def spawn(self, coro, name=None):
            vc.emit('spawn', coro)
            await suspend('scheduler.spawn')
        def close(self): return None

    def worker(**kw):
        streams_ref.append(kw['streams'])
        return ('worker-coro', kw)

    def on_suspend(site):
        vc.emit('suspension', site)

    def havoc(loc):
        if tset is not None:
            tset.kind_dropped = kind is not None and vc.nondet(2, 'kind toggle dropped earlier?') == 1
        local = tset
        if tset is not None and (kind is None or tset.kind_dropped) and vc.nondet(2, 'set already forgotten?') == 1:
            local = None
        st['local0'], st['dropped0'] = local, (tset is not None and tset.kind_dropped)
        # the watcher may forget the set only after it has once observed it ON (readiness achieved once)
        st['was_on0'] = tset is not None and local is None
        streams = loc['streams']
        streams.clear()
        if vc.nondet(2, 'the object has a stream already?') == 1:
            streams[key] = queueing.Stream(backlog=_Q(vc), pressure=_Ev(vc))
        return {'operator_indexed': local}

    def element(loc, iterable):
        c = vc.nondet(3, 'event: LISTED / k8s BOOKMARK / object event')
        if c == 0:
            ev = LISTED
        elif c == 1:
            ev = {'type': 'BOOKMARK', 'object': {'metadata': {'resourceVersion': vc.str('rv')}}}
        else:
            ev = {'type': vc.fin('event.type', [None, 'ADDED', 'MODIFIED', 'DELETED']),
                  'object': {'metadata': {'uid': 'u1', 'name': 'n', 'namespace': 'ns'}}}
        st['event'] = ev
        return ev

    def holds_set(local):
        # while the kind toggle is still a member of the set, the watcher must still hold the set
        return tset is None or kind is None or tset.kind_dropped or local is tset

    def inv(loc):
        st['phase'] += 1
        if st['phase'] == 1:
            return holds_set(loc['operator_indexed']) and (tset is None or not tset.kind_dropped)
        if st['phase'] == 2:
            return True
        tr = vc.trace
        start = max(i for i, ev in enumerate(tr) if ev[0] == 'loop-head')
        it = tr[start + 1:]
        names = [ev[0] for ev in it]
        ev = st['event']
        gated = tset is not None and kind is not None
        vc.ensure('gate_reference_kept', holds_set(loc['operator_indexed']))
        vc.ensure('gate_reference_kept', loc['operator_indexed'] is None or loc['operator_indexed'] is tset)
        # ... and for EVERY stream (indexed kind or not): the set is forgotten only once it was observed ON;
        # until then every worker must be handed the set, so that its handlers wait at the operator-wide gate
        observed_on = Or(st['was_on0'], *[e[2] for e in it if e[0] == 'is_on'])
        vc.ensure('gate_reference_kept', Or(tset is None, loc['operator_indexed'] is tset, observed_on))
        for e in it:
            if e[0] == 'spawn':
                vc.ensure('gate_reference_kept', Or(tset is None, e[1][1]['operator_indexed'] is tset, observed_on))
        drops = [e for e in it if e[0] == 'drop_toggle']
        if ev is LISTED and gated:
            vc.ensure('listed_drops_kind_toggle', tset.kind_dropped)
            vc.ensure('listed_drops_kind_toggle', st['dropped0'] or any(e[1] is tset and e[2] is kind for e in drops))
        vc.canary('canary.never_drops', not drops)
        for e in drops:
            vc.ensure('kind_toggle_dropped_only_on_listed', ev is LISTED and e[2] is kind and e[1] is tset)
        made = [i for i, n in enumerate(names) if n == 'make_toggle']
        spawns = [i for i, n in enumerate(names) if n == 'spawn']
        seen_on = [e[2] for e in it if e[0] == 'is_on']
        vc.ensure('object_toggle_only_while_off', len(made) <= 1)
        for i in made:
            vc.ensure('object_toggle_only_while_off', gated and it[i][1] is tset and not it[i][3])   # made OFF, in the set
            before = [j for j in range(i) if names[j] == 'is_on']
            vc.ensure('object_toggle_only_while_off', bool(before) and 'suspension' not in names[before[-1]:i]
                      and it[before[-1]][1] is tset)
            if before:
                vc.ensure('object_toggle_only_while_off', Not(it[before[-1]][2]))
            vc.ensure('no_toggle_without_worker', len(spawns) == 1 and spawns[0] > i)
        vc.canary('canary.always_toggles', len(made) == 1)
        for j in spawns:
            kw = it[j][1][1]
            t, s = kw['resource_indexed'], kw['operator_indexed']
            off = And(*[Not(x) for x in seen_on])
            must = And(gated and st['local0'] is tset, off)
            vc.ensure('object_toggle_before_spawn', Implies(must, len(made) == 1 and made[0] < j and t is it[made[0]][2] and s is tset)
                      if made else Not(must))
            vc.ensure('object_toggle_before_spawn', t is None or (len(made) == 1 and made[0] < j and t is it[made[0]][2] and s is tset))
            vc.ensure('object_toggle_before_spawn', s is None or s is tset)
        return True
    ld = vc.load('kopf._core.reactor.queueing', 'watcher', stubs={
        'asyncio.current_task': lambda: Opaque('watcher-task', cancel=lambda: None),
        'asyncio.Condition': lambda: Opaque('signaller'),
        'asyncio.Queue': lambda: _Q(vc), 'asyncio.Event': lambda: _Ev(vc),
        'asyncio.create_task': lambda coro, **kw: _DoneTask(),
        'asyncio.shield': lambda t: t,
        'aiotasks.Scheduler': Scheduler,
        'watching.infinite_watch': lambda **kw: (vc.emit('infinite_watch', kw), 'the-stream')[1],
        'worker': worker,
        '_wait_for_depletion': lambda **kw: None,
    }, loops={1: LoopSpec('async for raw_event in stream', invariant=inv, havoc=havoc, element=element)})
    vc.drive(ld.fn(namespace='ns', settings=settings, resource=resource, processor=processor,
                   operator_paused=Opaque('operator_paused'), operator_indexed=tset, resource_indexed=kind),
             on_suspend=on_suspend)
    raise Unsupported('the infinite stream ended')


# =============================================================================================== O1
class _RecToggleSet:
    """ToggleSet by contract (O1t), recording on the ghost trace; make/drop suspend (condition lock)."""
    def __init__(self, vc): self.vc = vc

    async def make_toggle(self, *a, name=None):
        t = Opaque(f'toggle:{name if isinstance(name, str) else "?"}')
        self.vc.emit('make_toggle', self, t, a)
        await suspend('make_toggle')
        return t

    async def drop_toggle(self, t):
        self.vc.emit('drop_toggle', self, t)
        await suspend('drop_toggle')

    async def drop_toggles(self, ts):
        for t in ts:
            self.vc.emit('drop_toggle', self, t)
        await suspend('drop_toggles')

    def __bool__(self):
        raise NotImplementedError


class _SymKeys:
    """A mapping/container whose membership answers are arbitrary (one fresh boolean per question)."""
    def __init__(self, vc, name): self.vc, self.name, self.set_calls = vc, name, []
    def __contains__(self, k): return self.vc.nondet(2, f'key in {self.name}?') == 1
    def __setitem__(self, k, v): self.set_calls.append((k, v)); self.vc.emit('task_registered', k, v)


@harness('O1', targets='kopf._core.reactor.orchestration.spawn_missing_watchers', props=['C17', 'C01', 'C03', 'C05', 'C07', 'C08', 'C09', 'C13', 'C14', 'C15', 'C19', 'C20'],
         clauses=['blocker_first', 'blocker_dropped_last', 'kind_toggle_before_task', 'frame'],
         canaries=['canary.every_kind_gated'],
         trusted=['ToggleSet.make_toggle/drop_toggle by contract O1t', 'aiotasks.create_guarded_task by contract S3/U1 (a task is created)'],
         replayable=False)
def O1(vc):
    """
    spawn_missing_watchers: the operator-wide blocker toggle is made (off) in ensemble.operator_indexed
    before anything else -- in particular before the first watcher task is created --, it is not
    dropped while watchers are being created, and it is dropped (it, and nothing else) after the last
    per-kind toggle was made and the last task created.  For an ARBITRARY (resource, namespace) pair
    (loop contract): a new watcher of an indexed resource gets a fresh toggle made OFF in the same set
    strictly before its task is created, and the watcher is given that toggle and that set; a watcher
    of a non-indexed resource gets no toggle.  Together with Q7 and O1t: the set cannot turn on before
    every indexed kind has dropped its toggle (lemma of DESIGN C17).
    """
    tset = _RecToggleSet(vc)
    paused = Opaque('operator_paused')
    tasks = _SymKeys(vc, 'ensemble.watcher_tasks')
    ensemble = Opaque('ensemble', operator_indexed=tset, operator_paused=paused, watcher_tasks=tasks)
    indexed = _SymKeys(vc, 'indexed_resources')
    settings = Opaque('settings')
    def processor(**kw): raise AssertionError('the processor is not called here')
    st = dict(phase=0, resource=None)

    def watcher(**kw):
        return ('watcher-coro', kw)

    def create_guarded_task(coro, name=None, **kw):
        t = Opaque('task')
        vc.emit('create_task', t, coro, kw)
        return t

    async def sleep(d):
        await suspend('asyncio.sleep')

    def blocker_of(tr):
        return tr[0][2] if tr and tr[0][0] == 'make_toggle' else None

    def prefix_ok(tr):
        """the blocker is the first event, made off in the set, and has not been dropped"""
        b = blocker_of(tr)
        return (b is not None and tr[0][1] is tset and not tr[0][3]
                and not any(ev[0] == 'drop_toggle' for ev in tr))

    def element(loc, iterable):
        if vc.nondet(2, 'pairs exhausted?') == 0:
            return _STOP
        st['resource'] = Opaque('resource', namespaced=vc.bool('resource.namespaced'))
        return (st['resource'], vc.fin('namespace', [None, 'ns1']))

    def inv(loc):
        st['phase'] += 1
        tr = [ev for ev in vc.trace if ev[0] != 'loop-head']
        if st['phase'] == 1:
            vc.ensure('blocker_first', prefix_ok(tr) and len(tr) == 1)
            return True
        if st['phase'] == 2:
            return True
        vc.ensure('blocker_dropped_last', prefix_ok(tr))
        it = tr[1:]
        names = [ev[0] for ev in it]
        created = [i for i, n in enumerate(names) if n == 'create_task']
        made = [i for i, n in enumerate(names) if n == 'make_toggle']
        vc.ensure('frame', len(created) <= 1 and len(made) <= len(created))
        vc.canary('canary.every_kind_gated', len(made) == len(created))
        for i in created:
            kw = it[i][2][1]
            r = kw['resource']
            vc.ensure('frame', r is st['resource'] and kw['operator_indexed'] is tset and kw['operator_paused'] is paused
                      and kw['settings'] is settings)
            vc.ensure('frame', len(tasks.set_calls) == 1 and tasks.set_calls[0][1] is it[i][1])
            t = kw['resource_indexed']
            asked = [ev for ev in it if ev[0] == 'indexed?']
            vc.ensure('kind_toggle_before_task', len(asked) >= 1 and all(ev[1] is r for ev in asked))
            is_indexed = asked[-1][2] if asked else False
            if is_indexed:
                vc.ensure('kind_toggle_before_task', len(made) == 1 and made[0] < i and t is it[made[0]][2]
                          and it[made[0]][1] is tset and not it[made[0]][3])
            else:
                vc.ensure('kind_toggle_before_task', t is None and not made)
        return True

    class Indexed:
        def __contains__(self, r):
            ans = vc.nondet(2, 'resource in indexed_resources?') == 1
            vc.emit('indexed?', r, ans)
            return ans
    ld = vc.load('kopf._core.reactor.orchestration', 'spawn_missing_watchers', stubs={
        'aiotasks.create_guarded_task': create_guarded_task, 'queueing.watcher': watcher, 'asyncio.sleep': sleep,
        'itertools.product': lambda *a: ('product-of', a),
    }, loops={1: LoopSpec('for resource, namespace in itertools.product(watched_resources, watched_namespaces)',
                          invariant=inv, element=element)})
    vc.drive(ld.fn(processor=processor, settings=settings, indexed_resources=Indexed(), watched_resources=Opaque('resources'),
                   watched_namespaces=Opaque('namespaces'), ensemble=ensemble))
    tr = [ev for ev in vc.trace if ev[0] not in ('loop-head', 'indexed?')]
    b = blocker_of(tr)
    drops = [i for i, ev in enumerate(tr) if ev[0] == 'drop_toggle']
    vc.ensure('blocker_first', b is not None and tr[0][1] is tset and not tr[0][3])
    vc.ensure('blocker_dropped_last', len(drops) == 1 and tr[drops[0]][1] is tset and tr[drops[0]][2] is b)
    vc.ensure('blocker_dropped_last', all(i < drops[0] for i, ev in enumerate(tr) if ev[0] in ('make_toggle', 'create_task')) if drops else False)
    return ('done', len(tr))


# =============================================================================================== O1t
class _Cond:
    """asyncio.Condition by contract: an async context manager (may suspend on entry) + notify_all()."""
    def __init__(self, vc): self.vc, self.held = vc, False
    async def __aenter__(self):
        await suspend('condition.acquire'); self.held = True
    async def __aexit__(self, *a):
        self.held = False
    def notify_all(self):
        self.vc.emit('notify_all', self.held)


@harness('O1t', targets=['kopf._cogs.aiokits.aiotoggles.ToggleSet.is_on', 'kopf._cogs.aiokits.aiotoggles.ToggleSet.make_toggle',
                         'kopf._cogs.aiokits.aiotoggles.ToggleSet.drop_toggle'], props=['C17', 'C09', 'C13', 'C19', 'C01', 'C03', 'C06'],
         clauses=['on_iff_no_member_off', 'made_toggle_blocks', 'dropped_toggle_leaves', 'waiters_notified'],
         canaries=['canary.always_on'],
         trusted=['asyncio.Condition (lock + notify_all) by contract', 'members bounded by 3 (the generator expression in is_on is run natively)'])
def O1t(vc):
    """
    ToggleSet with fn=all: is_on() <=> no member toggle is off (true for the empty set), for 0..3 member
    toggles of arbitrary states; make_toggle() returns a new member that is OFF by default (so the set is
    off afterwards) and wakes the waiters under the lock; drop_toggle(t) removes exactly t (others stay)
    and wakes the waiters.  Toggle/ToggleSet are the real classes; only the asyncio.Condition is a stub.
    """
    from kopf._cogs.aiokits import aiotoggles
    cond = _Cond(vc)
    ts = aiotoggles.ToggleSet.__new__(aiotoggles.ToggleSet)
    ts._condition, ts._toggles, ts._fn = cond, set(), all
    n = vc.nondet(4, 'number of member toggles')
    states = [vc.bool(f'toggle{i}.state') for i in range(n)]
    members = []
    for i, s in enumerate(states):
        t = aiotoggles.Toggle.__new__(aiotoggles.Toggle)
        t._condition, t._state, t._name = cond, s, f't{i}'
        members.append(t); ts._toggles.add(t)
    ld_on = vc.load('kopf._cogs.aiokits.aiotoggles', 'ToggleSet.is_on')
    ld_mk = vc.load('kopf._cogs.aiokits.aiotoggles', 'ToggleSet.make_toggle')
    ld_dr = vc.load('kopf._cogs.aiokits.aiotoggles', 'ToggleSet.drop_toggle')
    on0 = ld_on.fn(ts)
    all_on = And(*states) if states else True
    vc.ensure('on_iff_no_member_off', Iff(on0, all_on))
    vc.canary('canary.always_on', on0)
    op = vc.nondet(3, 'then: nothing / make_toggle / drop_toggle')
    if op == 1:
        explicit = vc.nondet(3, 'initial state: default / False / True')
        args = [(), (False,), (True,)][explicit]
        t = vc.drive(ld_mk.fn(ts, *args, name='new'))
        vc.ensure('made_toggle_blocks', isinstance(t, aiotoggles.Toggle) and t in ts._toggles and len(ts._toggles) == n + 1
                  and all(m in ts._toggles for m in members) and t._condition is cond)
        vc.ensure('made_toggle_blocks', t.is_on() is (explicit == 2))
        on1 = ld_on.fn(ts)
        vc.ensure('made_toggle_blocks', Iff(on1, And(all_on, explicit == 2)))
        vc.ensure('waiters_notified', [ev for ev in vc.trace if ev[0] == 'notify_all'] == [('notify_all', True)])
    elif op == 2 and n > 0:
        victim = members[vc.nondet(n, 'which member is dropped')]
        vc.drive(ld_dr.fn(ts, victim))
        vc.ensure('dropped_toggle_leaves', victim not in ts._toggles and len(ts._toggles) == n - 1
                  and all(m in ts._toggles for m in members if m is not victim))
        on1 = ld_on.fn(ts)
        rest = [s for m, s in zip(members, states) if m is not victim]
        vc.ensure('dropped_toggle_leaves', Iff(on1, And(*rest) if rest else True))
        vc.ensure('waiters_notified', [ev for ev in vc.trace if ev[0] == 'notify_all'] == [('notify_all', True)])
    elif op == 2:
        stranger = aiotoggles.Toggle.__new__(aiotoggles.Toggle)
        stranger._condition, stranger._state, stranger._name = cond, False, 'x'
        vc.drive(ld_dr.fn(ts, stranger))
        vc.ensure('dropped_toggle_leaves', len(ts._toggles) == 0)
    return ('ok', n, op)


# =============================================================================================== I1p
def _alias_private(obj, cls, *names):
    """The extracted method is compiled outside its class body, so `self.__x` is not name-mangled there:
    give the real instance plain `__x` attributes that are the very same objects as its `_Cls__x` ones."""
    for n in names:
        setattr(obj, '__' + n, getattr(obj, f'_{cls}__{n}'))
    return obj


def _build_index(present, values):
    """A real Index whose private maps are set directly (not through the methods under contract)."""
    index = indexing.Index()
    items, reverse = index._Index__items, index._Index__reverse
    for (k, a), p in present.items():
        if p:
            store = items.get(k)
            if store is None:
                store = items[k] = indexing.Store()
            store._Store__items[a] = values[(k, a)]
            reverse.setdefault(a, set()).add(k)
    return _alias_private(index, 'Index', 'items', 'reverse')


@harness('I1p', targets=['kopf._core.engines.indexing.Index._replace', 'kopf._core.engines.indexing.Index._discard',
                         'kopf._core.engines.indexing.Store._replace', 'kopf._core.engines.indexing.Store._discard'],
         props=['C17'], clauses=['step_view_replace', 'step_view_discard', 'step_wellformed', 'store_step', 'initially_empty'],
         canaries=['canary.view_unchanged', 'canary.nothing_removed'],
         trusted=['key universe: 3 index keys x 2 object keys (keys are used through hash/== only); values are symbolic'],
         max_paths=40000)
def I1p(vc):
    """
    INDUCTIVE STEP of the view/wf contract (complements the bounded I1, which covers sequences <= 4):
    for EVERY well-formed index over 3 index keys x 2 object keys (all 64 shapes by case split, all
    stored values symbolic) and EVERY single operation -- _discard(a), or _replace(a, m) for every key
    subset m with symbolic new values (equal to or different from the old ones) -- the result is again
    well-formed and its whole view is  view - a  resp.  view - a + {(k,a)->m[k]}  (entries of the other
    object unchanged).  With `initially_empty` (a new Index is empty and well-formed) this gives the
    contract for operation sequences of any length over that key universe.  Same for Store over 2
    object keys.  The methods are the extracted real ones; Store methods called from Index run natively.
    """
    KEYS, OBJS = ['k1', 'k2', 'k3'], [('ns', 'a', 'u1'), ('ns', 'b', 'u2')]
    mode = vc.nondet(3, 'Index step / Store step / initial state')
    if mode == 2:
        fresh = indexing.Index()
        vc.ensure('initially_empty', index_view(fresh) == {} and index_wellformed(fresh) and readonly_views_agree(fresh, {}))
        fs = indexing.Store()
        vc.ensure('initially_empty', fs._Store__items == {} and not fs and len(fs) == 0)
        return ('initial',)
    if mode == 1:
        A, B = 'A', 'B'
        store = indexing.Store()
        model = {}
        for a in (A, B):
            if vc.nondet(2, f'{a} stored?') == 1:
                model[a] = store._Store__items[a] = vc.int(f'old[{a}]')
        _alias_private(store, 'Store', 'items')
        if vc.nondet(2, 'discard / replace') == 0:
            vc.load('kopf._core.engines.indexing', 'Store._discard').fn(store, A)
            model.pop(A, None)
        else:
            new = vc.int('new')
            vc.load('kopf._core.engines.indexing', 'Store._replace').fn(store, A, new)
            model[A] = new
        got = store._Store__items
        vc.ensure('store_step', set(got) == set(model) and And(*[Eq(got[a], model[a]) for a in got if a in model]))
        vc.ensure('store_step', len(store) == len(model) and bool(store) == bool(model))
        return ('store', sorted(got))
    present = {(k, a): vc.nondet(2, f'({k},{a[1]}) present?') == 1 for k in KEYS for a in OBJS}
    values = {(k, a): vc.int(f'old[{k},{a[1]}]') for k in KEYS for a in OBJS}
    index = _build_index(present, values)
    view0 = {ka: values[ka] for ka, p in present.items() if p}
    acc = OBJS[vc.nondet(2, 'which object')]
    if vc.nondet(2, 'discard / replace') == 0:
        vc.load('kopf._core.engines.indexing', 'Index._discard').fn(index, acc)
        expected = {ka: v for ka, v in view0.items() if ka[1] != acc}
        clause = 'step_view_discard'
    else:
        sub = vc.nondet(8, 'key subset of the new mapping')
        m = {k: vc.int(f'new[{k}]') for i, k in enumerate(KEYS) if sub >> i & 1}
        vc.load('kopf._core.engines.indexing', 'Index._replace').fn(index, acc, m)
        expected = {ka: v for ka, v in view0.items() if ka[1] != acc}
        expected.update({(k, acc): v for k, v in m.items()})
        clause = 'step_view_replace'
    view1 = index_view(index)
    vc.ensure(clause, set(view1) == set(expected))
    vc.ensure(clause, And(*[Eq(view1[ka], expected[ka]) for ka in view1 if ka in expected]))
    vc.ensure(clause, all(view1[ka] is view0[ka] for ka in view1 if ka[1] != acc and ka in view0))     # the other object: untouched
    vc.ensure('step_wellformed', index_wellformed(index))
    vc.ensure('step_wellformed', index._Index__items is getattr(index, '__items') and index._Index__reverse is getattr(index, '__reverse'))
    vc.canary('canary.view_unchanged', set(view1) == set(view0))
    vc.canary('canary.nothing_removed', set(view0) <= set(view1))
    return ('index', sorted(map(repr, view1)))
