"""Second-wave contracts (builder w2e): more of the functions the properties depend on.

  S6   aioenums.FlagSetter / FlagWaiter family (= stoppers.DaemonStopper)                       C09
  M6   handlers.WebhookHandler.operation (deprecated accessor)                                  C18
"""
import asyncio
import itertools

from pyvc import *
from pyvc.bounded import bounded
from pyvc.stubs import Opaque, NullLogger, Clock, StubLoop
from kopf._core.intents import causes, handlers, stoppers

SR = stoppers.DaemonStoppingReason
SR_MEMBERS = list(SR)


class _Super:
    """`super()` inside an extracted method (no __class__ cell there): object.__init__ does nothing."""
    def __init__(self, *a, **kw):
        pass


def _escapes(e):
    """Engine-internal exceptions must never be swallowed by a harness' `except`."""
    return isinstance(e, (PathEnd, Unsupported))


# =============================================================================================== S6
class SymFlag:
    """
    A value of an enum.Flag type by contract: a set of member bits.  `a | b` is the union, `a in b` is
    "every bit of a is a bit of b" (enum.Flag.__contains__), nothing else is offered.  In concrete mode the harness
    uses the REAL DaemonStoppingReason values instead (see mk_flag), so the CPython cross-check of every path
    validates this model against enum.Flag itself.
    """
    def __init__(self, bits):
        self.bits = dict(bits)

    def __or__(self, o):
        if not isinstance(o, SymFlag):
            return NotImplemented
        return SymFlag({r: Or(self.bits[r], o.bits[r]) for r in SR_MEMBERS})
    __ror__ = __or__

    def __and__(self, o):
        if not isinstance(o, SymFlag):
            return NotImplemented
        return SymFlag({r: And(self.bits[r], o.bits[r]) for r in SR_MEMBERS})
    __rand__ = __and__

    def __xor__(self, o):
        if not isinstance(o, SymFlag):
            return NotImplemented
        return SymFlag({r: Not(Iff(self.bits[r], o.bits[r])) for r in SR_MEMBERS})
    __rxor__ = __xor__

    def __invert__(self):
        return SymFlag({r: Not(self.bits[r]) for r in SR_MEMBERS})

    def __contains__(self, o):
        if not isinstance(o, SymFlag):
            raise TypeError('unsupported operand type for `in`')
        return And(*[Implies(o.bits[r], self.bits[r]) for r in SR_MEMBERS])

    def __bool__(self):
        return bool(Or(*self.bits.values()))

    def __repr__(self):
        return '<flags>'


def mk_flag(vc, name):
    """An arbitrary NON-EMPTY combination of DaemonStoppingReason members (all 255 of them)."""
    bits = {r: vc.bool(f'{name}.{r.name}') for r in SR_MEMBERS}
    vc.assume(Or(*bits.values()), 'a reason is a non-empty combination of members')
    if vc.concrete:
        v = SR(0)
        for r, b in bits.items():
            if b:
                v = v | r
        return v
    return SymFlag(bits)


def flag_has(flag, r):
    """member r is raised in `flag` (None = no reason at all)"""
    if flag is None:
        return False
    if isinstance(flag, SymFlag):
        return flag.bits[r]
    return r in flag


def flag_subset(a, b):
    return And(*[Implies(flag_has(a, r), flag_has(b, r)) for r in SR_MEMBERS])


class _Ev:
    """threading.Event / asyncio.Event by contract: a boolean cell; set() raises it; clear() lowers it (recorded)."""
    def __init__(self, vc, name, state=False):
        self.vc, self.name, self.state = vc, name, state
        self.sets = self.clears = 0
        self.waits = []

    def is_set(self):
        return self.state

    def set(self):
        self.sets += 1
        self.state = True

    def clear(self):
        self.clears += 1
        self.state = False

    def wait(self, timeout=None):       # the sync flavour (threading.Event.wait); the async one is never awaited here
        self.waits.append(timeout)
        return self.state


def _s6_setter(vc, clock):
    """An arbitrary reachable FlagSetter state: (event, when, reason) under the class invariant."""
    from kopf._cogs.aiokits import aioenums
    ev0 = vc.bool('event@pre')
    when0 = vc.opt('when@pre', vc.real)
    reason0 = mk_flag(vc, 'reason@pre') if vc.nondet(2, 'reason@pre: None / some flags') == 1 else None
    vc.assume(ev0 if when0 is not None else Not(ev0), 'class invariant: when is not None <=> the events are set')
    if reason0 is not None:
        vc.assume(ev0, 'class invariant: a reason is recorded only by set(), which raises the events')
    me = aioenums.FlagSetter.__new__(aioenums.FlagSetter)
    me.when, me.reason = when0, reason0
    me.sync_event, me.async_event = _Ev(vc, 'sync', ev0), _Ev(vc, 'async', ev0)
    me.sync_waiter, me.async_waiter = aioenums.SyncFlagWaiter(me), aioenums.AsyncFlagWaiter(me)
    return me, ev0, when0, reason0


def _s6_set(vc):
    clock = Clock()
    me, ev0, when0, reason0 = _s6_setter(vc, clock)
    ld_is = vc.load('kopf._cogs.aiokits.aioenums', 'FlagSetter.is_set')
    ld_set = vc.load('kopf._cogs.aiokits.aioenums', 'FlagSetter.set',
                     stubs={'asyncio.get_running_loop': lambda: StubLoop(clock)})
    q = mk_flag(vc, 'query') if vc.nondet(2, 'is_set(): any reason / a specific one') == 1 else None
    r = mk_flag(vc, 'reason') if vc.nondet(2, 'set(): no reason / a reason') == 1 else None
    # ---- is_set before
    before = ld_is.fn(me) if q is None else ld_is.fn(me, q) if vc.nondet(2, 'positional / keyword') == 0 else ld_is.fn(me, reason=q)
    spec_before = ev0 if q is None else And(ev0, reason0 is not None, flag_subset(q, reason0))
    vc.ensure('is_set_any_vs_specific', Iff(before, spec_before))
    vc.canary('canary.never_set', Not(before))
    vc.ensure('is_set_is_pure', me.when is when0 and me.reason is reason0 and me.sync_event.sets + me.async_event.sets == 0
              and me.sync_event.clears + me.async_event.clears == 0)
    # ---- set(r)
    now = clock.now
    if r is None:
        ld_set.fn(me)
    else:
        ld_set.fn(me, r) if vc.nondet(2, 'positional / keyword') == 0 else ld_set.fn(me, reason=r)
    vc.ensure('set_raises_both_events', And(me.sync_event.state, me.async_event.state))
    vc.ensure('set_raises_both_events', me.sync_event.sets >= 1 and me.async_event.sets >= 1
              and me.sync_event.clears + me.async_event.clears == 0)
    vc.ensure('first_set_time_kept', Eq(me.when, now) if when0 is None else Eq(me.when, when0))
    vc.ensure('first_set_time_kept', me.when is not None)
    for m in SR_MEMBERS:      # the recorded reasons are exactly the old ones plus the new ones: OR-ed, never cleared
        vc.ensure('reasons_accumulate', Iff(flag_has(me.reason, m), Or(flag_has(reason0, m), flag_has(r, m))))
    vc.ensure('reasons_accumulate', (me.reason is None) == (reason0 is None and r is None))
    # ---- is_set after
    after = ld_is.fn(me) if q is None else ld_is.fn(me, reason=q)
    union_has_q = True if q is None else And(*[Implies(flag_has(q, m), Or(flag_has(reason0, m), flag_has(r, m))) for m in SR_MEMBERS])
    vc.ensure('is_set_any_vs_specific', Iff(after, union_has_q if q is None or not (reason0 is None and r is None) else False))
    vc.ensure('never_cleared', Implies(before, after))
    vc.canary('canary.always_matches', after)
    return ('set', before, after)


def _s6_init(vc):
    from kopf._cogs.aiokits import aioenums
    made = []

    def mk_event(kind):
        def make():
            made.append(_Ev(vc, kind))
            return made[-1]
        return make
    ld = vc.load('kopf._cogs.aiokits.aioenums', 'FlagSetter.__init__',
                 stubs={'threading.Event': mk_event('sync'), 'asyncio.Event': mk_event('async'), 'super': _Super})
    me = aioenums.FlagSetter.__new__(aioenums.FlagSetter)
    ld.fn(me)
    ld_is = vc.load('kopf._cogs.aiokits.aioenums', 'FlagSetter.is_set')
    q = mk_flag(vc, 'query') if vc.nondet(2, 'is_set(): any reason / a specific one') == 1 else None
    vc.ensure('fresh_is_unset', me.when is None and me.reason is None)
    vc.ensure('fresh_is_unset', Not(ld_is.fn(me, q)))
    vc.ensure('fresh_is_unset', sorted(e.name for e in made) == ['async', 'sync'] and me.sync_event.name == 'sync'
              and me.async_event.name == 'async' and not me.sync_event.state and not me.async_event.state)
    vc.ensure('waiters_reflect_setter', isinstance(me.sync_waiter, aioenums.SyncFlagWaiter) and me.sync_waiter._setter is me
              and isinstance(me.async_waiter, aioenums.AsyncFlagWaiter) and me.async_waiter._setter is me)
    vc.canary('canary.always_matches', ld_is.fn(me))
    return ('init',)


class _Timeout(Exception):
    pass


def _s6_waiters(vc):
    from kopf._cogs.aiokits import aioenums
    clock = Clock()
    me, ev0, when0, reason0 = _s6_setter(vc, clock)
    ld_is = vc.load('kopf._cogs.aiokits.aioenums', 'FlagSetter.is_set')
    me_is_set = lambda reason=None: ld_is.fn(me, reason)
    kind = vc.nondet(2, 'waiter: sync / async')
    w = me.sync_waiter if kind == 0 else me.async_waiter
    # the waiter's view goes through the REAL setter methods extracted above
    proxy = Opaque('setter-view', is_set=me_is_set, reason=me.reason, sync_event=me.sync_event, async_event=me.async_event)
    wself = Opaque('waiter', _setter=proxy)
    ld_b = vc.load('kopf._cogs.aiokits.aioenums', 'FlagWaiter.__bool__')
    ld_w = vc.load('kopf._cogs.aiokits.aioenums', 'FlagWaiter.is_set')
    ld_r = vc.load('kopf._cogs.aiokits.aioenums', 'FlagWaiter.reason')
    vc.ensure('waiters_reflect_setter', Iff(ld_b.fn(wself), ev0))
    vc.ensure('waiters_reflect_setter', Iff(ld_w.fn(wself), ev0))
    vc.ensure('waiters_reflect_setter', ld_r.fn(wself) is reason0)
    vc.canary('canary.never_set', Not(ld_b.fn(wself)))
    timeout = vc.opt('timeout', vc.real)
    if kind == 0:
        ld = vc.load('kopf._cogs.aiokits.aioenums', 'SyncFlagWaiter.wait')
        got = ld.fn(wself, timeout) if vc.nondet(2, 'positional / keyword') == 0 else ld.fn(wself, timeout=timeout)
        vc.ensure('sync_wait_blocks_on_the_event', got is wself and len(me.sync_event.waits) == 1
                  and (me.sync_event.waits[0] is timeout if timeout is None else Eq(me.sync_event.waits[0], timeout)))
        return ('sync-wait',)
    # async: wait(timeout) gives an awaitable that waits for the ASYNC event for at most `timeout` and then yields the
    # original waiter, whether the flag was raised or the time ran out; a cancellation propagates
    ld = vc.load('kopf._cogs.aiokits.aioenums', 'AsyncFlagWaiter.wait')
    promise = ld.fn(w, timeout) if vc.nondet(2, 'positional / keyword') == 0 else ld.fn(w, timeout=timeout)
    vc.ensure('async_wait_returns_waiter', isinstance(promise, aioenums.AsyncFlagPromise) and promise._waiter is w
              and promise._setter is me and (promise._timeout is timeout if timeout is None else Eq(promise._timeout, timeout)))
    waited = []

    async def ev_wait():
        waited.append('async_event.wait')
        await suspend('event.wait')
    me.async_event.wait = ev_wait
    outcome = ['set', 'timeout', 'cancelled'][vc.nondet(3, 'the wait ends by: flag set / timeout / cancellation')]

    def wait_for(aw, timeout=None):
        return ('wait_for', aw, timeout)

    class Task:
        def __init__(self, spec): self.spec = spec
        def __iter__(self):
            _, aw, t = self.spec
            vc.ensure('async_wait_returns_waiter', t is timeout if timeout is None else Eq(t, timeout))
            inner = aw.__await__()
            try:
                yield from inner
            finally:
                inner.close()
            if outcome == 'timeout':
                raise asyncio.TimeoutError()
            if outcome == 'cancelled':
                raise asyncio.CancelledError()
            return True
        __await__ = __iter__

    def create_task(coro, name=None):
        return Task(coro)
    ld_a = vc.load('kopf._cogs.aiokits.aioenums', 'AsyncFlagPromise.__await__',
                   stubs={'asyncio.wait_for': wait_for, 'asyncio.create_task': create_task})

    class Awaitable:
        def __await__(self): return ld_a.fn(promise)

    async def run():
        return await Awaitable()
    raised = got = None
    try:
        got = vc.drive(run())
    except asyncio.CancelledError as e:
        raised = e
    vc.ensure('async_wait_returns_waiter', waited == ['async_event.wait'])
    vc.ensure('async_wait_returns_waiter', (raised is not None and got is None) if outcome == 'cancelled' else (got is w and raised is None))
    return ('async-wait', outcome)


@harness('S6', targets=['kopf._cogs.aiokits.aioenums.FlagSetter.__init__', 'kopf._cogs.aiokits.aioenums.FlagSetter.is_set',
                        'kopf._cogs.aiokits.aioenums.FlagSetter.set', 'kopf._cogs.aiokits.aioenums.FlagWaiter.__bool__',
                        'kopf._cogs.aiokits.aioenums.FlagWaiter.is_set', 'kopf._cogs.aiokits.aioenums.FlagWaiter.reason',
                        'kopf._cogs.aiokits.aioenums.SyncFlagWaiter.wait', 'kopf._cogs.aiokits.aioenums.AsyncFlagWaiter.wait',
                        'kopf._cogs.aiokits.aioenums.AsyncFlagPromise.__await__'],
         props=['C09'],
         clauses=['fresh_is_unset', 'is_set_any_vs_specific', 'is_set_is_pure', 'set_raises_both_events', 'first_set_time_kept',
                  'reasons_accumulate', 'never_cleared', 'waiters_reflect_setter', 'sync_wait_blocks_on_the_event',
                  'async_wait_returns_waiter'],
         canaries=['canary.never_set', 'canary.always_matches'],
         trusted=['enum.Flag: `a | b` is the union of the member bits, `a in b` is bit inclusion (SymFlag; the concrete '
                  're-run of every path uses the real DaemonStoppingReason values)',
                  'threading.Event / asyncio.Event: a boolean cell (set / is_set / wait)',
                  'asyncio.wait_for(aw, timeout) raises TimeoutError when the time runs out; awaiting a task re-raises its outcome',
                  'asyncio.get_running_loop().time(): the ghost clock'])
def S6(vc):
    """
    stoppers.DaemonStopper = aioenums.FlagSetter[DaemonStoppingReason] -- the contract every daemon/timer contract of C09
    relies on (contracts/c09_daemons.py: SymStopper), here discharged on the real class.  State: the two events (always
    equal: class invariant), `when`, `reason`; the arbitrary pre-state satisfies  when is not None <=> events set, and
    reason is not None ==> events set (both established by __init__ and preserved by set(), which is proved here).
      fresh_is_unset            __init__: when/reason None, two fresh un-set events, is_set(q) False for every q
      is_set_any_vs_specific    is_set(None) <=> events set;  is_set(q) <=> events set and every member of q was given
                                as a reason before (q: ANY non-empty combination of the 8 members, symbolic bits)
      is_set_is_pure            is_set changes nothing
      set_raises_both_events    after set(r) the sync AND the async event are set; nothing is ever cleared
      first_set_time_kept       `when` is the loop time of the FIRST set() and is never moved by later ones
      reasons_accumulate        reason' = reason | r member by member (set(None) keeps what was there; None only if both None)
      never_cleared             is_set(q) before set(r)  ==>  is_set(q) after it
      waiters_reflect_setter    bool(waiter) == waiter.is_set() == setter.is_set(); waiter.reason is setter.reason;
                                sync_waiter/async_waiter are bound to their setter
      sync_wait_blocks_on_the_event   SyncFlagWaiter.wait(t) waits on the sync event with that timeout, returns itself
      async_wait_returns_waiter `await async_waiter.wait(t)` waits for the async event for at most t and yields the original
                                waiter both when the flag is raised and on timeout; a cancellation propagates
    """
    k = vc.nondet(3, 'scenario: init / is_set+set / waiters')
    if k == 0:
        return _s6_init(vc)
    if k == 1:
        return _s6_set(vc)
    return _s6_waiters(vc)


# =============================================================================================== M6
OPS = ('CREATE', 'UPDATE', 'DELETE', 'CONNECT')
WT = causes.WebhookType


def _all_op_collections():
    """None, the empty collections, and every non-empty subset of the four operations as list / tuple / frozenset."""
    out = [None, [], (), frozenset()]
    for n in range(1, 5):
        for i, c in enumerate(itertools.combinations(OPS, n)):
            out.append([list(c), tuple(c), frozenset(c)][(i + n) % 3])
    return out


M6_OPERATIONS = _all_op_collections()


@harness('M6', targets='kopf._core.intents.handlers.WebhookHandler.operation', props=['C18'],
         clauses=['none_when_unset', 'the_only_one', 'ambiguous_raises', 'warns_deprecated'],
         canaries=['canary.never_raises', 'canary.always_none'],
         trusted=['warnings.warn by contract: records (message, category)'])
def M6(vc):
    """
    WebhookHandler.operation (deprecated read accessor of `operations`): None when no operation is declared (None or an
    empty collection = "all operations", docs/admission.rst), the operation itself when exactly one is declared, and a
    ValueError -- never an arbitrary pick -- when several are; a DeprecationWarning is issued on every access.
    Domain: None, [], (), frozenset(), every non-empty subset of the four operations (as list/tuple/frozenset).
    """
    ops = resolve(vc.fin('operations', M6_OPERATIONS))
    h = Opaque('handler', operations=ops)
    warned = []
    ld = vc.load('kopf._core.intents.handlers', 'WebhookHandler.operation',
                 stubs={'warnings.warn': lambda msg, cat=UserWarning, *a, **kw: warned.append((msg, cat))})
    raised = got = None
    try:
        got = ld.fn(h)
    except ValueError as e:
        raised = e
    n = 0 if ops is None else len(ops)
    vc.ensure('none_when_unset', Implies(n == 0, raised is None and got is None))
    vc.ensure('the_only_one', Implies(n == 1, raised is None and got is not None and got in OPS and got in (ops or ())))
    vc.ensure('the_only_one', Implies(got is not None, n == 1))
    vc.ensure('ambiguous_raises', (raised is not None) == (n > 1))
    vc.ensure('warns_deprecated', len(warned) == 1 and warned[0][1] is DeprecationWarning)
    vc.canary('canary.never_raises', raised is None)
    vc.canary('canary.always_none', got is None)
    return ('operation', got, type(raised).__name__)
