"""Second-wave contracts (builder w2e): more of the functions the properties depend on.

  M2   admission.serve_admission_request -- one review end to end, against M3/V1/R5/X2/A5/M1        C18, C14
  M3   admission.find_resource, build_webhooks, _build_labels_selector                              C18   (finding F-C18-5)
  M4   admission._normalize_name, _inject_handler_id (bounded: regex / urllib / deepcopy)           C18   (finding F-C18-6)
  M5   admission.configuration_manager                                                              C18, C12
  M6   handlers.WebhookHandler.operation (deprecated accessor)                                      C18
  P3   peering.detect_own_id, guess_selectors, touch_command                                        C13
  S5   aiotasks.Scheduler.__init__/empty/wait/close, aiotasks.all_tasks                             C01, C20
  S6   aioenums.FlagSetter / FlagWaiter family (= stoppers.DaemonStopper)                           C09
  O1u  aiotoggles.Toggle.__init__/is_on/is_off/turn_to/wait_for, ToggleSet.wait_for                 C13, C17
"""
import asyncio
import collections.abc
import itertools

from pyvc import *
from pyvc.bounded import bounded
from pyvc.stubs import Opaque, NullLogger, Clock, StubLoop
from kopf._core.intents import causes, handlers, stoppers

SR = stoppers.DaemonStoppingReason
SR_MEMBERS = list(SR)


class _Super:
    """`super()` inside an extracted method (no __class__ cell there): object.__init__ does nothing."""
    def __init__(self, *a, **kw):
        pass


def _escapes(e):
    """Engine-internal exceptions must never be swallowed by a harness' `except`."""
    return isinstance(e, (PathEnd, Unsupported))


# =============================================================================================== S6
class SymFlag:
    """
    A value of an enum.Flag type by contract: a set of member bits.  `a | b` is the union, `a in b` is
    "every bit of a is a bit of b" (enum.Flag.__contains__), nothing else is offered.  In concrete mode the harness
    uses the REAL DaemonStoppingReason values instead (see mk_flag), so the CPython cross-check of every path
    validates this model against enum.Flag itself.
    """
    def __init__(self, bits):
        self.bits = dict(bits)

    def __or__(self, o):
        if not isinstance(o, SymFlag):
            return NotImplemented
        return SymFlag({r: Or(self.bits[r], o.bits[r]) for r in SR_MEMBERS})
    __ror__ = __or__

    def __and__(self, o):
        if not isinstance(o, SymFlag):
            return NotImplemented
        return SymFlag({r: And(self.bits[r], o.bits[r]) for r in SR_MEMBERS})
    __rand__ = __and__

    def __xor__(self, o):
        if not isinstance(o, SymFlag):
            return NotImplemented
        return SymFlag({r: Not(Iff(self.bits[r], o.bits[r])) for r in SR_MEMBERS})
    __rxor__ = __xor__

    def __invert__(self):
        return SymFlag({r: Not(self.bits[r]) for r in SR_MEMBERS})

    def __contains__(self, o):
        if not isinstance(o, SymFlag):
            raise TypeError('unsupported operand type for `in`')
        return And(*[Implies(o.bits[r], self.bits[r]) for r in SR_MEMBERS])

    def __bool__(self):
        return bool(Or(*self.bits.values()))

    def __repr__(self):
        return '<flags>'


def mk_flag(vc, name):
    """An arbitrary NON-EMPTY combination of DaemonStoppingReason members (all 255 of them)."""
    bits = {r: vc.bool(f'{name}.{r.name}') for r in SR_MEMBERS}
    vc.assume(Or(*bits.values()), 'a reason is a non-empty combination of members')
    if vc.concrete:
        v = SR(0)
        for r, b in bits.items():
            if b:
                v = v | r
        return v
    return SymFlag(bits)


def flag_has(flag, r):
    """member r is raised in `flag` (None = no reason at all)"""
    if flag is None:
        return False
    if isinstance(flag, SymFlag):
        return flag.bits[r]
    return r in flag


def flag_subset(a, b):
    return And(*[Implies(flag_has(a, r), flag_has(b, r)) for r in SR_MEMBERS])


class _Ev:
    """threading.Event / asyncio.Event by contract: a boolean cell; set() raises it; clear() lowers it (recorded)."""
    def __init__(self, vc, name, state=False):
        self.vc, self.name, self.state = vc, name, state
        self.sets = self.clears = 0
        self.waits = []

    def is_set(self):
        return self.state

    def set(self):
        self.sets += 1
        self.state = True

    def clear(self):
        self.clears += 1
        self.state = False

    def wait(self, timeout=None):       # the sync flavour (threading.Event.wait); the async one is never awaited here
        self.waits.append(timeout)
        return self.state


def _s6_setter(vc, clock):
    """An arbitrary reachable FlagSetter state: (event, when, reason) under the class invariant."""
    from kopf._cogs.aiokits import aioenums
    ev0 = vc.bool('event@pre')
    when0 = vc.opt('when@pre', vc.real)
    reason0 = mk_flag(vc, 'reason@pre') if vc.nondet(2, 'reason@pre: None / some flags') == 1 else None
    vc.assume(ev0 if when0 is not None else Not(ev0), 'class invariant: when is not None <=> the events are set')
    if reason0 is not None:
        vc.assume(ev0, 'class invariant: a reason is recorded only by set(), which raises the events')
    me = aioenums.FlagSetter.__new__(aioenums.FlagSetter)
    me.when, me.reason = when0, reason0
    me.sync_event, me.async_event = _Ev(vc, 'sync', ev0), _Ev(vc, 'async', ev0)
    me.sync_waiter, me.async_waiter = aioenums.SyncFlagWaiter(me), aioenums.AsyncFlagWaiter(me)
    return me, ev0, when0, reason0


def _s6_set(vc):
    clock = Clock()
    me, ev0, when0, reason0 = _s6_setter(vc, clock)
    ld_is = vc.load('kopf._cogs.aiokits.aioenums', 'FlagSetter.is_set')
    ld_set = vc.load('kopf._cogs.aiokits.aioenums', 'FlagSetter.set',
                     stubs={'asyncio.get_running_loop': lambda: StubLoop(clock)})
    q = mk_flag(vc, 'query') if vc.nondet(2, 'is_set(): any reason / a specific one') == 1 else None
    r = mk_flag(vc, 'reason') if vc.nondet(2, 'set(): no reason / a reason') == 1 else None
    # ---- is_set before
    before = ld_is.fn(me) if q is None else ld_is.fn(me, q) if vc.nondet(2, 'positional / keyword') == 0 else ld_is.fn(me, reason=q)
    spec_before = ev0 if q is None else And(ev0, reason0 is not None, flag_subset(q, reason0))
    vc.ensure('is_set_any_vs_specific', Iff(before, spec_before))
    vc.canary('canary.never_set', Not(before))
    vc.ensure('is_set_is_pure', me.when is when0 and me.reason is reason0 and me.sync_event.sets + me.async_event.sets == 0
              and me.sync_event.clears + me.async_event.clears == 0)
    # ---- set(r)
    now = clock.now
    if r is None:
        ld_set.fn(me)
    else:
        ld_set.fn(me, r) if vc.nondet(2, 'positional / keyword') == 0 else ld_set.fn(me, reason=r)
    vc.ensure('set_raises_both_events', And(me.sync_event.state, me.async_event.state))
    vc.ensure('set_raises_both_events', me.sync_event.sets >= 1 and me.async_event.sets >= 1
              and me.sync_event.clears + me.async_event.clears == 0)
    vc.ensure('first_set_time_kept', Eq(me.when, now) if when0 is None else Eq(me.when, when0))
    vc.ensure('first_set_time_kept', me.when is not None)
    for m in SR_MEMBERS:      # the recorded reasons are exactly the old ones plus the new ones: OR-ed, never cleared
        vc.ensure('reasons_accumulate', Iff(flag_has(me.reason, m), Or(flag_has(reason0, m), flag_has(r, m))))
    vc.ensure('reasons_accumulate', (me.reason is None) == (reason0 is None and r is None))
    # ---- is_set after
    after = ld_is.fn(me) if q is None else ld_is.fn(me, reason=q)
    union_has_q = True if q is None else And(*[Implies(flag_has(q, m), Or(flag_has(reason0, m), flag_has(r, m))) for m in SR_MEMBERS])
    vc.ensure('is_set_any_vs_specific', Iff(after, union_has_q if q is None or not (reason0 is None and r is None) else False))
    vc.ensure('never_cleared', Implies(before, after))
    vc.canary('canary.always_matches', after)
    return ('set', before, after)


def _s6_init(vc):
    from kopf._cogs.aiokits import aioenums
    made = []

    def mk_event(kind):
        def make():
            made.append(_Ev(vc, kind))
            return made[-1]
        return make
    ld = vc.load('kopf._cogs.aiokits.aioenums', 'FlagSetter.__init__',
                 stubs={'threading.Event': mk_event('sync'), 'asyncio.Event': mk_event('async'), 'super': _Super})
    me = aioenums.FlagSetter.__new__(aioenums.FlagSetter)
    ld.fn(me)
    ld_is = vc.load('kopf._cogs.aiokits.aioenums', 'FlagSetter.is_set')
    q = mk_flag(vc, 'query') if vc.nondet(2, 'is_set(): any reason / a specific one') == 1 else None
    vc.ensure('fresh_is_unset', me.when is None and me.reason is None)
    vc.ensure('fresh_is_unset', Not(ld_is.fn(me, q)))
    vc.ensure('fresh_is_unset', sorted(e.name for e in made) == ['async', 'sync'] and me.sync_event.name == 'sync'
              and me.async_event.name == 'async' and not me.sync_event.state and not me.async_event.state)
    vc.ensure('waiters_reflect_setter', isinstance(me.sync_waiter, aioenums.SyncFlagWaiter) and me.sync_waiter._setter is me
              and isinstance(me.async_waiter, aioenums.AsyncFlagWaiter) and me.async_waiter._setter is me)
    vc.canary('canary.always_matches', ld_is.fn(me))
    return ('init',)


class _Timeout(Exception):
    pass


def _s6_waiters(vc):
    from kopf._cogs.aiokits import aioenums
    clock = Clock()
    me, ev0, when0, reason0 = _s6_setter(vc, clock)
    ld_is = vc.load('kopf._cogs.aiokits.aioenums', 'FlagSetter.is_set')
    me_is_set = lambda reason=None: ld_is.fn(me, reason)
    kind = vc.nondet(2, 'waiter: sync / async')
    w = me.sync_waiter if kind == 0 else me.async_waiter
    # the waiter's view goes through the REAL setter methods extracted above
    proxy = Opaque('setter-view', is_set=me_is_set, reason=me.reason, sync_event=me.sync_event, async_event=me.async_event)
    wself = Opaque('waiter', _setter=proxy)
    ld_b = vc.load('kopf._cogs.aiokits.aioenums', 'FlagWaiter.__bool__')
    ld_w = vc.load('kopf._cogs.aiokits.aioenums', 'FlagWaiter.is_set')
    ld_r = vc.load('kopf._cogs.aiokits.aioenums', 'FlagWaiter.reason')
    vc.ensure('waiters_reflect_setter', Iff(ld_b.fn(wself), ev0))
    vc.ensure('waiters_reflect_setter', Iff(ld_w.fn(wself), ev0))
    vc.ensure('waiters_reflect_setter', ld_r.fn(wself) is reason0)
    vc.canary('canary.never_set', Not(ld_b.fn(wself)))
    timeout = vc.opt('timeout', vc.real)
    if kind == 0:
        ld = vc.load('kopf._cogs.aiokits.aioenums', 'SyncFlagWaiter.wait')
        got = ld.fn(wself, timeout) if vc.nondet(2, 'positional / keyword') == 0 else ld.fn(wself, timeout=timeout)
        vc.ensure('sync_wait_blocks_on_the_event', got is wself and len(me.sync_event.waits) == 1
                  and (me.sync_event.waits[0] is timeout if timeout is None else Eq(me.sync_event.waits[0], timeout)))
        return ('sync-wait',)
    # async: wait(timeout) gives an awaitable that waits for the ASYNC event for at most `timeout` and then yields the
    # original waiter, whether the flag was raised or the time ran out; a cancellation propagates
    ld = vc.load('kopf._cogs.aiokits.aioenums', 'AsyncFlagWaiter.wait')
    promise = ld.fn(w, timeout) if vc.nondet(2, 'positional / keyword') == 0 else ld.fn(w, timeout=timeout)
    vc.ensure('async_wait_returns_waiter', isinstance(promise, aioenums.AsyncFlagPromise) and promise._waiter is w
              and promise._setter is me and (promise._timeout is timeout if timeout is None else Eq(promise._timeout, timeout)))
    waited = []

    async def ev_wait():
        waited.append('async_event.wait')
        await suspend('event.wait')
    me.async_event.wait = ev_wait
    outcome = ['set', 'timeout', 'cancelled'][vc.nondet(3, 'the wait ends by: flag set / timeout / cancellation')]

    def wait_for(aw, timeout=None):
        return ('wait_for', aw, timeout)

    class Task:
        def __init__(self, spec): self.spec = spec
        def __iter__(self):
            _, aw, t = self.spec
            vc.ensure('async_wait_returns_waiter', t is timeout if timeout is None else Eq(t, timeout))
            inner = aw.__await__()
            try:
                yield from inner
            finally:
                inner.close()
            if outcome == 'timeout':
                raise asyncio.TimeoutError()
            if outcome == 'cancelled':
                raise asyncio.CancelledError()
            return True
        __await__ = __iter__

    def create_task(coro, name=None):
        return Task(coro)
    ld_a = vc.load('kopf._cogs.aiokits.aioenums', 'AsyncFlagPromise.__await__',
                   stubs={'asyncio.wait_for': wait_for, 'asyncio.create_task': create_task})

    class Awaitable:
        def __await__(self): return ld_a.fn(promise)

    async def run():
        return await Awaitable()
    raised = got = None
    try:
        got = vc.drive(run())
    except asyncio.CancelledError as e:
        raised = e
    vc.ensure('async_wait_returns_waiter', waited == ['async_event.wait'])
    vc.ensure('async_wait_returns_waiter', (raised is not None and got is None) if outcome == 'cancelled' else (got is w and raised is None))
    return ('async-wait', outcome)


@harness('S6', targets=['kopf._cogs.aiokits.aioenums.FlagSetter.__init__', 'kopf._cogs.aiokits.aioenums.FlagSetter.is_set',
                        'kopf._cogs.aiokits.aioenums.FlagSetter.set', 'kopf._cogs.aiokits.aioenums.FlagWaiter.__bool__',
                        'kopf._cogs.aiokits.aioenums.FlagWaiter.is_set', 'kopf._cogs.aiokits.aioenums.FlagWaiter.reason',
                        'kopf._cogs.aiokits.aioenums.SyncFlagWaiter.wait', 'kopf._cogs.aiokits.aioenums.AsyncFlagWaiter.wait',
                        'kopf._cogs.aiokits.aioenums.AsyncFlagPromise.__await__'],
         props=['C09', 'C10', 'C20', 'C13', 'C06'],
         clauses=['fresh_is_unset', 'is_set_any_vs_specific', 'is_set_is_pure', 'set_raises_both_events', 'first_set_time_kept',
                  'reasons_accumulate', 'never_cleared', 'waiters_reflect_setter', 'sync_wait_blocks_on_the_event',
                  'async_wait_returns_waiter'],
         canaries=['canary.never_set', 'canary.always_matches'],
         trusted=['enum.Flag: `a | b` is the union of the member bits, `a in b` is bit inclusion (SymFlag; the concrete '
                  're-run of every path uses the real DaemonStoppingReason values)',
                  'threading.Event / asyncio.Event: a boolean cell (set / is_set / wait)',
                  'asyncio.wait_for(aw, timeout) raises TimeoutError when the time runs out; awaiting a task re-raises its outcome',
                  'asyncio.get_running_loop().time(): the ghost clock'])
def S6(vc):
    """
    stoppers.DaemonStopper = aioenums.FlagSetter[DaemonStoppingReason] -- the contract every daemon/timer contract of C09
    relies on (contracts/c09_daemons.py: SymStopper), here discharged on the real class.  State: the two events (always
    equal: class invariant), `when`, `reason`; the arbitrary pre-state satisfies  when is not None <=> events set, and
    reason is not None ==> events set (both established by __init__ and preserved by set(), which is proved here).
      fresh_is_unset            __init__: when/reason None, two fresh un-set events, is_set(q) False for every q
      is_set_any_vs_specific    is_set(None) <=> events set;  is_set(q) <=> events set and every member of q was given
                                as a reason before (q: ANY non-empty combination of the 8 members, symbolic bits)
      is_set_is_pure            is_set changes nothing
      set_raises_both_events    after set(r) the sync AND the async event are set; nothing is ever cleared
      first_set_time_kept       `when` is the loop time of the FIRST set() and is never moved by later ones
      reasons_accumulate        reason' = reason | r member by member (set(None) keeps what was there; None only if both None)
      never_cleared             is_set(q) before set(r)  ==>  is_set(q) after it
      waiters_reflect_setter    bool(waiter) == waiter.is_set() == setter.is_set(); waiter.reason is setter.reason;
                                sync_waiter/async_waiter are bound to their setter
      sync_wait_blocks_on_the_event   SyncFlagWaiter.wait(t) waits on the sync event with that timeout, returns itself
      async_wait_returns_waiter `await async_waiter.wait(t)` waits for the async event for at most t and yields the original
                                waiter both when the flag is raised and on timeout; a cancellation propagates
    """
    k = vc.nondet(3, 'scenario: init / is_set+set / waiters')
    if k == 0:
        return _s6_init(vc)
    if k == 1:
        return _s6_set(vc)
    return _s6_waiters(vc)


# =============================================================================================== M6
OPS = ('CREATE', 'UPDATE', 'DELETE', 'CONNECT')
WT = causes.WebhookType


def _all_op_collections():
    """None, the empty collections, and every non-empty subset of the four operations as list / tuple / frozenset."""
    out = [None, [], (), frozenset()]
    for n in range(1, 5):
        for i, c in enumerate(itertools.combinations(OPS, n)):
            out.append([list(c), tuple(c), frozenset(c)][(i + n) % 3])
    return out


M6_OPERATIONS = _all_op_collections()


@harness('M6', targets='kopf._core.intents.handlers.WebhookHandler.operation', props=['C18'],
         clauses=['none_when_unset', 'the_only_one', 'ambiguous_raises', 'warns_deprecated'],
         canaries=['canary.never_raises', 'canary.always_none'],
         trusted=['warnings.warn by contract: records (message, category)'])
def M6(vc):
    """
    WebhookHandler.operation (deprecated read accessor of `operations`): None when no operation is declared (None or an
    empty collection = "all operations", docs/admission.rst), the operation itself when exactly one is declared, and a
    ValueError -- never an arbitrary pick -- when several are; a DeprecationWarning is issued on every access.
    Domain: None, [], (), frozenset(), every non-empty subset of the four operations (as list/tuple/frozenset).
    """
    ops = resolve(vc.fin('operations', M6_OPERATIONS))
    h = Opaque('handler', operations=ops)
    warned = []
    ld = vc.load('kopf._core.intents.handlers', 'WebhookHandler.operation',
                 stubs={'warnings.warn': lambda msg, cat=UserWarning, *a, **kw: warned.append((msg, cat))})
    raised = got = None
    try:
        got = ld.fn(h)
    except ValueError as e:
        raised = e
    n = 0 if ops is None else len(ops)
    vc.ensure('none_when_unset', Implies(n == 0, raised is None and got is None))
    vc.ensure('the_only_one', Implies(n == 1, raised is None and got is not None and got in OPS and got in (ops or ())))
    vc.ensure('the_only_one', Implies(got is not None, n == 1))
    vc.ensure('ambiguous_raises', (raised is not None) == (n > 1))
    vc.ensure('warns_deprecated', len(warned) == 1 and warned[0][1] is DeprecationWarning)
    vc.canary('canary.never_raises', raised is None)
    vc.canary('canary.always_none', got is None)
    return ('operation', got, type(raised).__name__)


# =============================================================================================== M3
from kopf._core.engines import admission          # noqa: E402
from kopf._core.intents import filters           # noqa: E402
from kopf._cogs.structs import references        # noqa: E402

RES = references.Resource
M3_UNIVERSE = [RES('kopf.dev', 'v1', 'kopfexamples', preferred=True), RES('kopf.dev', 'v1beta1', 'kopfexamples', preferred=False),
               RES('', 'v1', 'pods'), RES('metrics.k8s.io', 'v1beta1', 'pods')]
M3_SUBSETS = [frozenset(c) for n in range(5) for c in itertools.combinations(range(4), n)]
F_SUBRESOURCE_STAR = 'F-C18-5'


def _m3_find_real(vc):
    """find_resource with the REAL references.Selector over a universe of 4 resources (two versions of one kind, a
    core-v1 kind and its namesake in another group): every subset served, every (group, version, plural) asked."""
    served = {M3_UNIVERSE[i] for i in resolve(vc.fin('webhook_resources', M3_SUBSETS))}
    group = resolve(vc.fin('group', ['kopf.dev', '', 'metrics.k8s.io', 'other.dev']))
    version = resolve(vc.fin('version', ['v1', 'v1beta1']))
    plural = resolve(vc.fin('resource', ['kopfexamples', 'pods']))
    request = {'request': {'uid': 'u', 'resource': {'group': group, 'version': version, 'resource': plural}}}
    insights = Opaque('insights', webhook_resources=served, watched_resources={M3_UNIVERSE[0], M3_UNIVERSE[2]},
                      indexed_resources=set(M3_UNIVERSE))
    ld = vc.load('kopf._core.engines.admission', 'find_resource')
    got = raised = None
    try:
        got = ld.fn(request=request, insights=insights)
    except Exception as e:
        if _escapes(e):
            raise
        raised = e
    wanted = [r for r in served if (r.group, r.version, r.plural) == (group, version, plural)]
    vc.ensure('found_by_group_version_plural', (got is wanted[0] and raised is None) if wanted else got is None)
    vc.ensure('unknown_resource_error', isinstance(raised, admission.UnknownResourceError) if not wanted else raised is None)
    vc.canary('canary.always_found', raised is None)
    return ('find', len(served), type(raised).__name__)


def _m3_find_contract(vc):
    """find_resource against the CONTRACT of Selector.select (any sub-collection of any size)."""
    n = vc.nondet(4, 'how many resources the selector selects')
    selected = [Opaque(f'resource{i}') for i in range(n)]
    shape = vc.nondet(3, 'the selection is a set / list / tuple')
    result = [set, list, tuple][shape](selected)
    made = []

    class Selector:
        def __init__(self, *a, **kw):
            made.append(self)
            self.a, self.kw = a, kw

        def select(self, resources):
            self.selected_from = resources
            return result
    group, version, plural = vc.str('group'), vc.str('version'), vc.str('resource')
    served = Opaque('webhook_resources')
    request = {'request': {'uid': 'u', 'resource': {'group': group, 'version': version, 'resource': plural}}}
    insights = Opaque('insights', webhook_resources=served, watched_resources=Opaque('watched'), indexed_resources=Opaque('indexed'))
    ld = vc.load('kopf._core.engines.admission', 'find_resource', stubs={'references.Selector': Selector})
    got = raised = None
    try:
        got = ld.fn(request=request, insights=insights)
    except Exception as e:
        if _escapes(e):
            raise
        raised = e
    vc.ensure('found_by_group_version_plural', len(made) == 1 and not made[0].a and sorted(made[0].kw) == ['group', 'plural', 'version'])
    kw = made[0].kw
    vc.ensure('found_by_group_version_plural', And(Eq(kw['group'], group), Eq(kw['version'], version), Eq(kw['plural'], plural)))
    vc.ensure('found_by_group_version_plural', made[0].selected_from is served)
    vc.ensure('found_by_group_version_plural', (got is selected[0] and raised is None) if n == 1 else got is None)
    vc.ensure('unknown_resource_error', isinstance(raised, admission.UnknownResourceError) == (n == 0))
    vc.ensure('ambiguous_resource_error', isinstance(raised, admission.AmbiguousResourceError) == (n > 1))
    vc.canary('canary.always_found', raised is None)
    return ('find-by-contract', n, type(raised).__name__)


def _callback(value, *a, **kw):
    return True


class _Labels(collections.abc.Mapping):
    """A Mapping[str, criterion] with symbolic keys (an association list with pairwise distinct keys; dict semantics
    for iteration order, emptiness and lookup)."""
    def __init__(self):
        self.pairs = []

    def __iter__(self):
        return iter([k for k, _ in self.pairs])

    def __len__(self):
        return len(self.pairs)

    def __getitem__(self, key):
        for k, v in self.pairs:
            if k is key or bool(Eq(k, key)):
                return v
        raise KeyError(key)

    def items(self):
        return list(self.pairs)


def _m3_labels(vc):
    """_build_labels_selector over None / {} / 1..3 criteria with symbolic keys and every kind of criterion."""
    PRESENT, ABSENT = filters.MetaFilterToken.PRESENT, filters.MetaFilterToken.ABSENT
    n = vc.nondet(5, 'labels: None / {} / 1..3 criteria')
    labels, spec = (None if n == 0 else _Labels()), []
    for i in range(max(0, n - 1)):
        key = vc.str(f'key{i}')
        for k in labels:
            vc.assume(Not(Eq(k, key)), 'mapping keys are distinct')
        kind = vc.nondet(4, f'criterion{i}: value / PRESENT / ABSENT / callback')
        if kind == 0:
            val = vc.str(f'value{i}')           # any string, the empty one included
            spec.append((key, 'In', val))
        elif kind == 1:
            val = PRESENT
            spec.append((key, 'Exists', None))
        elif kind == 2:
            val = ABSENT
            spec.append((key, 'DoesNotExist', None))
        else:
            val = _callback if vc.nondet(2, 'callback: function / lambda') == 0 else (lambda value, **_: False)
        labels.pairs.append((key, val))
    ld = vc.load('kopf._core.engines.admission', '_build_labels_selector')
    snapshot = None if labels is None else list(labels.pairs)
    got = ld.fn(labels)
    vc.ensure('labels.input_untouched', labels is None or (len(labels.pairs) == len(snapshot)
                                                           and all(a[0] is b[0] and a[1] is b[1] for a, b in zip(labels.pairs, snapshot))))
    vc.ensure('labels.none_when_nothing_expressible', (got is None) == (not spec))
    vc.canary('canary.always_selector', got is not None)
    if got is None:
        return ('labels', n, None)
    vc.ensure('labels.criteria_as_expressions', isinstance(got, dict) and list(got) == ['matchExpressions']
              and isinstance(got['matchExpressions'], (list, tuple)) and len(got['matchExpressions']) == len(spec))
    for e, (key, op, val) in zip(got['matchExpressions'], spec):
        vc.ensure('labels.criteria_as_expressions', isinstance(e, dict) and Eq(e.get('key'), key) and e.get('operator') == op)
        if op == 'In':
            vals = e.get('values')
            vc.ensure('labels.criteria_as_expressions', isinstance(vals, (list, tuple)) and len(vals) == 1 and Eq(vals[0], val))
        else:       # Kubernetes: "values" must be empty for Exists / DoesNotExist
            vc.ensure('labels.criteria_as_expressions', not e.get('values'))
    vc.ensure('labels.callbacks_omitted', len(got['matchExpressions']) == len(spec))
    return ('labels', n, len(got['matchExpressions']))


M3_OPERATIONS = [None, [], ['UPDATE', 'DELETE'], frozenset({'CONNECT'})]
TRI = [None, False, True]


def fin_truthy(x):
    """truthiness of a value drawn with vc.fin, as a formula over its alternatives (no case split)"""
    if isinstance(x, SFin):
        from pyvc.values import _UNRESOLVED
        return bool(x._chosen) if x._chosen is not _UNRESOLVED else x._where(bool)
    return bool(x)


def _m3_handler(vc, tag, selector, *, full):
    return handlers.WebhookHandler(
        id=f'{tag}/fn_x', fn=Opaque('fn'), param=None, errors=None, timeout=None, retries=None, backoff=None,
        selector=selector, labels=Opaque(f'{tag}.labels'), annotations=None, when=None, field=None, value=None,
        reason=WT.VALIDATING,
        operations=vc.fin(f'{tag}.operations', M3_OPERATIONS) if full else ['UPDATE', 'DELETE'],
        subresource=vc.opt(f'{tag}.subresource', vc.str) if full else 'status',
        persistent=vc.fin(f'{tag}.persistent', TRI),
        side_effects=vc.fin(f'{tag}.side_effects', TRI) if full or tag == 'A' else True,
        ignore_failures=vc.fin(f'{tag}.ignore_failures', TRI) if full else None)


def _m3_webhooks(vc):
    n_handlers = vc.nondet(3, '#handlers')
    n_res = vc.nondet(3, '#resources') if n_handlers == 1 else 1
    resources = [RES(vc.str(f'res{j}.group'), vc.str(f'res{j}.version'), vc.str(f'res{j}.plural')) for j in range(n_res)]
    matches, hs = {}, []

    def mk_selector(tag):
        if vc.nondet(2, f'{tag}.selector: None / a selector') == 0:
            return None
        m = matches[tag] = [vc.bool(f'{tag}.selector.check(res{j})') for j in range(n_res)]
        return Opaque(f'{tag}.selector', check=lambda r: m[[k for k, x in enumerate(resources) if x is r][0]])
    if n_handlers >= 1:
        hs.append(_m3_handler(vc, 'A', mk_selector('A'), full=n_handlers == 1))
    if n_handlers == 2:        # two handlers: what decides presence, order and independence varies; the rest is fixed
        hs.insert(vc.nondet(2, 'B after / before A'), _m3_handler(vc, 'B', mk_selector('B'), full=False))
    persistent_only = [None, False, True][vc.nondet(3, 'persistent_only: default / False / True')]
    suffix = vc.str('name_suffix')
    client_config = Opaque('client_config')
    names, configs, selectors = {}, {}, {}

    def _normalize_name(id, suffix=None, **kw):
        names[id] = Opaque(f'normalized-name({id})', args=(id, suffix, kw)); return names[id]

    def _inject_handler_id(config, id):
        configs[id] = Opaque(f'client-config-for({id})', args=(config, id)); return configs[id]

    def _build_labels_selector(labels):
        selectors[id(labels)] = Opaque('labels-selector', args=labels); return selectors[id(labels)]
    vc.used('admission._normalize_name / _inject_handler_id', 'M4'); vc.used('admission._build_labels_selector', 'M3 (scenario labels)')
    ld = vc.load('kopf._core.engines.admission', 'build_webhooks', stubs={
        '_normalize_name': _normalize_name, '_inject_handler_id': _inject_handler_id, '_build_labels_selector': _build_labels_selector})
    kw = {} if persistent_only is None else {'persistent_only': persistent_only}
    got = ld.fn(iter(hs) if persistent_only is None else hs,        # any iterable: a one-shot one as well
                resources=resources, name_suffix=suffix, client_config=client_config, **kw)
    # ---- one entry per registered handler, in order; on cleanup (persistent_only) only the persistent ones stay
    expected = [h for h in hs if not persistent_only or bool(fin_truthy(h.persistent))]
    vc.ensure('webhooks.one_entry_per_handler', isinstance(got, list) and len(got) == len(expected))
    vc.canary('canary.no_webhooks', len(got) == 0)
    for e, h in zip(got, expected):
        tag = h.id[0]
        vc.ensure('webhooks.one_entry_per_handler', e.get('name') is names.get(h.id) and Eq(names[h.id].args[1], suffix)
                  and names[h.id].args[0] == h.id)
        vc.ensure('webhooks.url_carries_handler_id', e.get('clientConfig') is configs.get(h.id)
                  and configs[h.id].args[0] is client_config and configs[h.id].args[1] == h.id)
        vc.ensure('webhooks.object_selector_from_labels', e.get('objectSelector') is selectors.get(id(h.labels))
                  and selectors[id(h.labels)].args is h.labels)
        vc.ensure('webhooks.policies_as_documented', e.get('sideEffects') in ('NoneOnDryRun', 'None')
                  and Iff(e.get('sideEffects') == 'NoneOnDryRun', fin_truthy(h.side_effects)))
        vc.ensure('webhooks.policies_as_documented', e.get('failurePolicy') in ('Ignore', 'Fail')
                  and Iff(e.get('failurePolicy') == 'Ignore', fin_truthy(h.ignore_failures)))
        vc.ensure('webhooks.policies_as_documented', e.get('matchPolicy') == 'Equivalent')
        t = e.get('timeoutSeconds')
        vc.ensure('webhooks.accepted_by_kubernetes', isinstance(t, int) and 1 <= t <= 30)
        arv = e.get('admissionReviewVersions')
        vc.ensure('webhooks.accepted_by_kubernetes', isinstance(arv, list) and len(arv) >= 1 and set(arv) <= {'v1', 'v1beta1'})
        # ---- rules: one per served resource the handler's selector matches
        m = matches.get(tag)
        want = [] if m is None else [(r, j) for j, r in enumerate(resources) if bool(m[j])]
        rules = e.get('rules')
        vc.ensure('webhooks.rule_per_matching_resource', isinstance(rules, list) and len(rules) == len(want))
        for rule, (r, j) in zip(rules, want):
            vc.ensure('webhooks.rule_per_matching_resource', len(rule['apiGroups']) == 1 and len(rule['apiVersions']) == 1
                      and And(Eq(rule['apiGroups'][0], r.group), Eq(rule['apiVersions'][0], r.version)))
            ops = resolve(h.operations)         # decided by now if the code looked at them at all
            vc.ensure('webhooks.rule_operations', sorted(rule['operations']) == (sorted(ops) if ops else ['*']))
            vc.ensure('webhooks.accepted_by_kubernetes', rule.get('scope') in ('*', 'Cluster', 'Namespaced'))
            got_res = rule['resources']
            sub = h.subresource
            if sub is None:
                vc.ensure('webhooks.rule_subresource', len(got_res) == 1 and Eq(got_res[0], r.plural))
            else:
                # docs/admission.rst: a named subresource -> only it; "*" -> the main body AND any subresource.
                # Kubernetes: "pods/*" are the subresources of pods only, "pods" is the main resource only.
                star = Eq(sub, '*')
                has_sub = Or(*[Eq(x, r.plural + '/' + sub) for x in got_res], False)
                has_main = Or(*[Eq(x, r.plural) for x in got_res], False)
                vc.ensure('webhooks.rule_subresource', And(has_sub, len(got_res) <= 2))
                vc.ensure('webhooks.rule_subresource', Implies(Not(star), And(len(got_res) == 1, Not(has_main))))
                vc.ensure('webhooks.rule_subresource_star_covers_main', Implies(star, has_main),
                          excuse={F_SUBRESOURCE_STAR: star})
    return ('webhooks', n_handlers, n_res, len(got))


@harness('M3', targets=['kopf._core.engines.admission.find_resource', 'kopf._core.engines.admission.build_webhooks',
                        'kopf._core.engines.admission._build_labels_selector'], props=['C18'],
         clauses=['found_by_group_version_plural', 'unknown_resource_error', 'ambiguous_resource_error',
                  'labels.none_when_nothing_expressible', 'labels.criteria_as_expressions', 'labels.callbacks_omitted', 'labels.input_untouched',
                  'webhooks.one_entry_per_handler', 'webhooks.url_carries_handler_id', 'webhooks.object_selector_from_labels',
                  'webhooks.policies_as_documented', 'webhooks.accepted_by_kubernetes', 'webhooks.rule_per_matching_resource',
                  'webhooks.rule_operations', 'webhooks.rule_subresource', 'webhooks.rule_subresource_star_covers_main'],
         canaries=['canary.always_found', 'canary.always_selector', 'canary.no_webhooks'],
         trusted=['references.Selector / Resource run natively in scenario find-real (dataclass equality and hashing)',
                  'Selector.select(resources): some sub-collection of any size (scenario find-contract)',
                  'Kubernetes admissionregistration/v1: rules[].resources "x/*" = the subresources of x only, "x" = x only; '
                  'timeoutSeconds in 1..30; matchExpressions Exists/DoesNotExist carry no values'],
         assumes=['M3 BOUNDS: webhooks: 0..2 handlers (the second one varies only in `persistent` and its selector), 0..2 served '
                  'resources with symbolic group/version/plural, symbolic subresource and name suffix; labels: 0..3 criteria '
                  'with symbolic keys/values; find-real: all subsets of a 4-resource universe'])
def M3(vc):
    """
    How reviews are routed to handlers OUTSIDE the process (the managed webhook configuration) and to a resource inside.
    find_resource: the review's request.resource {group, version, resource} names exactly one served webhook resource,
      which is returned; none => UnknownResourceError, several => AmbiguousResourceError (checked with the real Selector
      over a 4-resource universe, and against the contract of Selector.select for selections of any size).
    _build_labels_selector (docs/admission.rst "Handler options": labels go to objectSelector; everything but callbacks
      is supported): one matchExpression per non-callback criterion, in order: "value" -> In [value] (the empty string
      included), PRESENT -> Exists, ABSENT -> DoesNotExist; callbacks are omitted (they are evaluated in-process);
      nothing expressible (None, {}, callbacks only) -> None, i.e. no server-side filtering.
    build_webhooks: exactly one webhook entry per registered handler, in registration order (on cleanup,
      persistent_only=True: the persistent ones only); its name is the normalized handler id with the managed suffix (M4),
      its clientConfig is the server's config with THIS handler's id injected (M4) -- so the apiserver calls an endpoint
      that dispatches to that handler alone; objectSelector from the labels; sideEffects NoneOnDryRun iff side_effects
      else None, failurePolicy Ignore iff ignore_failures else Fail, matchPolicy Equivalent; timeoutSeconds within
      Kubernetes' 1..30 and admissionReviewVersions among those kopf parses; one rule per served resource matched by the
      handler's selector (none for selector None), carrying the resource's group/version, the declared operations or
      ["*"] when unset/empty, and the plural -- with "/<subresource>" for a named subresource.
    FINDING F-C18-5 (clause webhooks.rule_subresource_star_covers_main): docs/admission.rst promises that
      subresource="*" checks "both the main body and any subresource", but the rule says only "<plural>/*", which for
      Kubernetes means the subresources WITHOUT the main resource: with a managed configuration such a handler is never
      called for the main body.  Excused class: subresource == "*".
    """
    k = vc.nondet(4, 'scenario: find-real / find-contract / labels / webhooks')
    return [_m3_find_real, _m3_find_contract, _m3_labels, _m3_webhooks][k](vc)


# =============================================================================================== M4
import copy            # noqa: E402
import re              # noqa: E402
import urllib.parse    # noqa: E402

F_WEBHOOK_NAME = 'F-C18-6'
# Kubernetes IsDNS1123Subdomain (k8s.io/apimachinery/pkg/util/validation), the rule quoted in _normalize_name's docstring
DNS1123_SUBDOMAIN = re.compile(r'[a-z0-9]([-a-z0-9]*[a-z0-9])?(\.[a-z0-9]([-a-z0-9]*[a-z0-9])?)*')
M4_IDS = (
    # the common forms: function names, sub-handler / field suffixes, dotted paths
    ['fn', 'validate1', 'check_numbers', 'a_b_c', 'fn/spec.field', 'fn/sub_handler/x', 'mod.fn', 'x9', '0day', 'a-b', 'a.b-c_d/e']
    # uncommon characters: must be escaped deterministically
    + ['fn@x', 'a b', 'x:y', 'a%2Fb', 'a?b#c', 'fn(x)', 'a~b', "it's", 'a\tb', 'a+b=c', '@fn', 'fn!', '100%', 'a\\b', 'a"b', '<lambda>']
    # F-C18-6 class (a): word characters that are not lower-case ASCII
    + ['Fn', 'validateX', 'MyClass.method', 'füße', 'проверка', 'a/B', 'x²']
    # F-C18-6 class (b): separators at the edge of a DNS label, empty labels
    + ['_private', 'trailing_', '__init__', '-x', 'x-', '.x', 'x.', 'a//b', 'a..b', 'a._b', 'a_.b', 'fn/_sub', '/', '_', ''])
M4_SUFFIXES = ['auto.kopf.dev', 'x', 'my-operator.example.com', '']


def m4_name_defect_class(id):
    """F-C18-6, decided on the INPUT: (a) a word character other than [a-z0-9_] (upper-case, non-ASCII letters/digits),
    or (b) a '/'- or '.'-separated part of the id that is empty or begins/ends with '_' or '-'."""
    a = any((ch.isalnum() or ch == '_') and not (ch.isascii() and (ch.islower() or ch.isdigit() or ch == '_')) for ch in id)
    parts = re.split(r'[/.]', id)
    b = any(p == '' or p[0] in '_-' or p[-1] in '_-' for p in parts)
    return a or b


M4_CONFIGS = [
    {},
    {'url': 'https://host:443'}, {'url': 'https://host:443/'}, {'url': 'https://host/base'}, {'url': 'https://host/base//'},
    {'url': 'https://host:443', 'caBundle': 'Q0E='},
    {'url': None, 'service': None},
    {'service': {'name': 'svc', 'namespace': 'ns'}}, {'service': {'name': 'svc', 'namespace': 'ns', 'path': ''}},
    {'service': {'name': 'svc', 'namespace': 'ns', 'path': '/base', 'port': 443}, 'caBundle': 'Q0E='},
    {'url': 'https://host/u', 'service': {'name': 'svc', 'namespace': 'ns', 'path': '/s'}},
]
URL_PATH_SAFE = re.compile(r"[A-Za-z0-9\-._~/%]*")      # RFC 3986 unreserved + '/' + percent-escapes: no '?', '#', spaces


@bounded('M4', targets=['kopf._core.engines.admission._normalize_name', 'kopf._core.engines.admission._inject_handler_id'],
         props=['C18'],
         clauses=['name.valid_dns1123_subdomain', 'name.suffix_appended', 'name.plain_ids_kept', 'name.deterministic',
                  'url.id_roundtrips', 'url.config_not_mutated', 'url.rest_preserved', 'url.distinct_ids_distinct_endpoints'],
         universe='_normalize_name: 49 handler ids (function names, sub-handler/field ids, dotted names, 16 with uncommon '
                  'characters, 7 with upper-case/non-ASCII word characters, 15 with separators at label edges) x 4 suffixes '
                  '(3 valid DNS names, the empty one); _inject_handler_id: the same ids x 11 client configs (url with/without '
                  'trailing slashes and base paths, service with/without path, both, neither, explicit nulls, extra keys)',
         trusted=['urllib.parse.unquote as the decoder the webhook server applies to the path (aiohttp match_info)',
                  'Kubernetes: webhooks[].name must be a DNS-1123 subdomain; clientConfig.url must carry no query/fragment'])
def M4(b):
    """
    BOUNDED (re.sub with a callback, urllib.parse.quote, copy.deepcopy: C code over strings -- no deductive contract in reach).
    _normalize_name(id, suffix) -- the docstring's own rule: the result is a lower-case RFC 1123 subdomain ([a-z0-9-.],
      every label starts and ends alphanumeric) for every id and every valid DNS suffix; it ends with ".<suffix>" (no
      suffix: the bare name); ids that are already valid labels are kept verbatim ("for beauty"); same input, same output.
      FINDING F-C18-6: `\\w` in BAD_WEBHOOK_NAME lets upper-case and non-ASCII word characters through, and "_" -> "-" /
      "/" -> "." produce labels that begin or end with "-" or are empty ("_private" -> "-private.auto.kopf.dev"):
      Kubernetes rejects the whole managed configuration (422), so NO webhook of the operator is registered.
      Excused exactly for the ids of m4_name_defect_class().
    _inject_handler_id(config, id) -- the webhook server routes "<root>/{id:.*}" to webhook=<id>, and WebhooksRegistry
      (R5) then runs that handler alone: the injected tail must decode back to exactly the id, be a clean URL path (no
      "?", "#", blanks), follow the root without a double slash (url form), the shared client config must NOT be mutated
      (it is reused for every handler), every other key is preserved, and different ids give different endpoints.
    """
    ln = admission._normalize_name
    inj = admission._inject_handler_id
    for id in M4_IDS:
        for suffix in M4_SUFFIXES:
            b.case(key=('name', id, suffix), nontrivial=True)
            try:
                name = ln(id, suffix)
                again = ln(id, suffix=suffix)
                err = None
            except Exception as e:
                name = again = None
                err = f'{type(e).__name__}: {e}'
            w = lambda: dict(id=id, suffix=suffix, name=name, error=err)
            ok = err is None and isinstance(name, str)
            b.check('name.deterministic', ok and name == again, w)
            if not ok:
                continue
            if suffix:
                b.check('name.suffix_appended', name.endswith('.' + suffix) and len(name) > len(suffix) + 1
                        or (id == '' and name.endswith(suffix)), w)
                b.check('name.valid_dns1123_subdomain', DNS1123_SUBDOMAIN.fullmatch(name) is not None and len(name) <= 253, w,
                        excuse=F_WEBHOOK_NAME if m4_name_defect_class(id) else None)
            else:
                b.check('name.suffix_appended', not name.endswith('.') or id.endswith(('.', '/')), w)
            if re.fullmatch(r'[a-z0-9]+(-[a-z0-9]+)*', id):
                b.check('name.plain_ids_kept', name == (f'{id}.{suffix}' if suffix else id), w)
    for config in M4_CONFIGS:
        seen = {}
        for id in M4_IDS:
            b.case(key=('url', repr(config), id), nontrivial=True)
            before = copy.deepcopy(config)
            try:
                out = inj(config, id)
                err = None
            except Exception as e:
                out, err = None, f'{type(e).__name__}: {e}'
            w = lambda: dict(config=before, id=id, result=out, error=err)
            if not b.check('url.config_not_mutated', err is None and config == before and out is not config
                           and (out.get('service') is None or out['service'] is not config.get('service')), w):
                config.clear(); config.update(copy.deepcopy(before))
                if err is not None:
                    continue
            ok = True
            url, svc = before.get('url'), before.get('service')
            if url is not None:
                root = url.rstrip('/')
                got = out.get('url')
                tail = got[len(root):] if isinstance(got, str) and got.startswith(root) else None
                ok = ok and tail is not None and tail.startswith('/') and urllib.parse.unquote(tail[1:]) == id \
                    and URL_PATH_SAFE.fullmatch(tail) is not None
            else:
                ok = ok and out.get('url') is None and ('url' in out) == ('url' in before)
            if svc is not None:
                root = svc.get('path', '')
                got = (out.get('service') or {}).get('path')
                tail = got[len(root):] if isinstance(got, str) and got.startswith(root) else None
                ok = ok and tail is not None and tail.startswith('/') and urllib.parse.unquote(tail[1:]) == id \
                    and URL_PATH_SAFE.fullmatch(tail) is not None
            else:
                ok = ok and out.get('service') is None and ('service' in out) == ('service' in before)
            b.check('url.id_roundtrips', ok, w)
            rest_in = {k: v for k, v in before.items() if k not in ('url', 'service')}
            rest_out = {k: v for k, v in out.items() if k not in ('url', 'service')}
            svc_in = {k: v for k, v in (svc or {}).items() if k != 'path'}
            svc_out = {k: v for k, v in (out.get('service') or {}).items() if k != 'path'}
            b.check('url.rest_preserved', rest_in == rest_out and svc_in == svc_out, w)
            if url is not None or svc is not None:
                key = (out.get('url'), (out.get('service') or {}).get('path'))
                b.check('url.distinct_ids_distinct_endpoints', key not in seen, lambda: dict(config=before, ids=[seen.get(key), id], endpoint=key))
                seen[key] = id


# =============================================================================================== M2
from kopf._core.actions import execution, lifecycles      # noqa: E402

_ABSENT = object()


class _Review(Exception):
    """any failure of the review's own processing (a callee's exception)"""


def _m2_dict(vc, key, payload, label):
    """request.<key>: absent / null / an empty mapping / a non-empty mapping (fresh objects, compared by identity)"""
    k = vc.nondet(4, f'{label}: absent / null / {{}} / non-empty')
    val = [_ABSENT, None, {}, {'metadata': {'name': label, 'uid': 'uid-1'}, 'spec': {'x': 1}}][k]
    if val is not _ABSENT:
        payload[key] = val
    return None if val is _ABSENT else val


@harness('M2', targets='kopf._core.engines.admission.serve_admission_request', props=['C18', 'C14'],
         clause_props={'creation_memo_discarded': ['C14', 'C18'], 'review_does_not_preempt_listing': ['C14']},
         clauses=['resource_by_find_resource', 'missing_data_error', 'body_is_object_else_old_object', 'old_new_diff',
                  'cause_carries_the_review', 'memo_of_the_reviewed_object', 'creation_memo_discarded', 'review_does_not_preempt_listing',
                  'handlers_by_webhook_registry', 'executed_once_all_at_once_no_retries', 'response_from_those_outcomes',
                  'patch_taken_after_the_handlers', 'failures_escalate'],
         canaries=['canary.never_raises', 'canary.always_ephemeral'],
         trusted=['bodies.Body(raw) wraps raw; diffs.diff(old, new), patches.Patch(body=).as_json_patch() (A5), '
                  'loggers.LocalObjectLogger(body=, settings=), progression.State.from_scratch().with_handlers(h): by their '
                  'signatures -- recorded and handed on; causes.WebhookCause is the REAL dataclass',
                  'MemoGetter.recall_memo by contract V1: returns the memo of the stored memory or of a new one, which is stored iff not ephemeral'])
def M2(vc):
    """
    serve_admission_request: ONE admission review, end to end, against the contracts of its callees -- find_resource (M3),
    ResourceMemories.recall_memo (V1/V2), WebhooksRegistry.get_handlers (R5), execute_handlers_once (X2), Patch.as_json_patch
    (A5), build_response (M1).  Domain: request.object / oldObject / userInfo each absent, null, {} or non-empty;
    subResource absent / null / any string; operation absent or any of the four; dryRun absent / null / false / true;
    headers/sslpeer/webhook/reason given or not; find_resource returns or raises; the execution returns or is cancelled.
      resource_by_find_resource    the cause's resource is what find_resource(request=, insights=) gives; its errors
                                   (UnknownResourceError / AmbiguousResourceError) propagate, nothing else happens then
      missing_data_error           userInfo null/absent, or both objects null/absent  =>  MissingDataError, nothing executed;
                                   EMPTY mappings are data, not absence
      body_is_object_else_old_object   the reviewed body is `object` whenever it is present (even empty), else `oldObject`
                                   (DELETE reviews carry only the old one)
      old_new_diff                 cause.old / cause.new wrap oldObject / object (None when absent), cause.diff = diff(old, new)
      cause_carries_the_review     operation, subresource, userinfo, dryrun (truthiness of dryRun), headers / sslpeer
                                   (an empty mapping when not given), webhook id and type hints, indices, a fresh empty
                                   warnings list, a patch bound to the reviewed body
      memo_of_the_reviewed_object  recall_memo(<the reviewed raw body>, memobase=<the operator's>) exactly once; its memo is cause.memo
      creation_memo_discarded      docs/admission.rst "In-memory containers": for CREATE the memo is created and discarded (ephemeral)
      review_does_not_preempt_listing   C14: serving a review must not leave behind a NEW remembered memory for an object the
                                   watch-stream has not listed yet (it would be un-noticed: resume handlers lost).  KNOWN
                                   FINDING F-C14-1 (see known_findings.d/c02.json): violated for every operation but CREATE
                                   when the object has no memory yet; excused exactly for that class.
      handlers_by_webhook_registry registry._webhooks.get_handlers(<that cause>) exactly once
      executed_once_all_at_once_no_retries   execute_handlers_once exactly once with exactly those handlers, that cause,
                                   lifecycle all_at_once, a state made from scratch for those handlers (nothing persisted,
                                   nothing resumed) and default_errors=PERMANENT (docs "Admission errors": no retries)
      response_from_those_outcomes build_response(request=<the review>, outcomes=<what the execution returned>,
                                   warnings=<the cause's list, as the handlers left it>, jsonpatch=<the cause's patch>) is returned
      patch_taken_after_the_handlers   the JSON patch is computed from cause.patch AFTER the handlers ran
      failures_escalate            an exception out of a callee (cancellation) propagates; no response is fabricated
    """
    payload = {'uid': 'review-1', 'resource': {'group': 'kopf.dev', 'version': 'v1', 'resource': 'kopfexamples'}}
    request = {'apiVersion': 'admission.k8s.io/v1', 'kind': 'AdmissionReview', 'request': payload}
    # three families of cases (the dimensions inside a family are fully crossed):
    #   data:      object x oldObject x userInfo, each absent / null / {} / non-empty
    #   context:   a well-formed review x subResource/headers/sslpeer/webhook/reason hints x #selected handlers x execution outcome
    #   resource:  find_resource raises
    family = ['data', 'context', 'resource'][vc.nondet(3, 'family of cases')]
    find_outcome = vc.nondet(2, 'find_resource: unknown / ambiguous') + 1 if family == 'resource' else 0
    if family == 'data':
        new_raw = _m2_dict(vc, 'object', payload, 'object')
        old_raw = _m2_dict(vc, 'oldObject', payload, 'oldObject')
        ui_k = vc.nondet(4, 'userInfo: absent / null / {} / non-empty')
    else:
        shape = vc.nondet(3, 'review of: a creation (object) / a deletion (oldObject, object null) / an update (both)')
        new_raw = old_raw = None
        if shape != 1:
            new_raw = payload['object'] = {'metadata': {'name': 'new', 'uid': 'uid-1'}, 'spec': {'x': 2}}
        else:
            payload['object'] = None
        if shape != 0:
            old_raw = payload['oldObject'] = {'metadata': {'name': 'old', 'uid': 'uid-1'}, 'spec': {'x': 1}}
        ui_k = 3
    userinfo = [_ABSENT, None, {}, {'username': 'admin', 'groups': ['system:masters']}][ui_k]
    if userinfo is not _ABSENT:
        payload['userInfo'] = userinfo
    userinfo = None if userinfo is _ABSENT else userinfo
    variant = vc.nondet(3, 'subResource+context: absent,no hints / null,some hints / a string,all hints') if family == 'context' else 2
    subresource = None
    if variant == 1:
        payload['subResource'] = None
    elif variant == 2:
        subresource = payload['subResource'] = vc.str('subResource')
    headers = [None, {}, {'Host': 'h'}][variant]
    sslpeer = [None, {'subject': 1}, {}][variant]
    webhook = [None, None, 'h1'][variant]
    reason = [None, WT.MUTATING, WT.VALIDATING][variant]
    # operation: absent/null or any of the four; dryRun: absent/null, false, true -- kept symbolic (vc.fin); whether a
    # None stands for an absent key or an explicit null follows the family (both read as None through .get(key))
    operation = vc.fin('operation', [None] + list(OPS))
    dry = vc.fin('dryRun', [None, False, True])
    nulls_explicit = family != 'data'

    class Payload(dict):
        """the review payload: `operation` and `dryRun` are looked up lazily so that they stay symbolic"""
        def get(self, key, default=None):
            fin = {'operation': operation, 'dryRun': dry}.get(key)
            if fin is None:
                return dict.get(self, key, default)
            if default is None:
                return fin
            v = resolve(fin)
            return default if v is None and not nulls_explicit else v
    request['request'] = payload = Payload(payload)

    settings, memobase, insights, indices = Opaque('settings'), Opaque('memobase'), Opaque('insights'), Opaque('indices')
    tr = vc.trace
    resource = Opaque('resource')
    thrown = []

    def find_resource(**kw):
        vc.emit('find_resource', kw)
        if find_outcome:
            thrown.append([admission.UnknownResourceError, admission.AmbiguousResourceError][find_outcome - 1]('resource'))
            raise thrown[-1]
        return resource
    present = vc.bool('the object already has a memory')
    memo = Opaque('memo')
    ghost = Opaque('ghost', stored_new=False)

    class Memories(admission.MemoGetter):
        async def recall_memo(self, raw_body, *, memobase=None, ephemeral=False, **extra):
            vc.emit('recall_memo', raw_body, memobase, ephemeral, extra)
            await suspend('recall_memo')
            ghost.stored_new = And(Not(present), Not(ephemeral), Not(extra.get('noticed_by_listing', False)))
            return memo

    class Body:
        def __init__(self, raw):
            self.raw = raw
            vc.emit('Body', self)

    def diff(a, b):
        d = Opaque('diff', args=(a, b)); vc.emit('diff', d); return d

    class Patch:
        def __init__(self, *a, body=None, **kw):
            self.args, self.body, self.kw = a, body, kw
            vc.emit('Patch', self)

        def as_json_patch(self, *a, **kw):
            j = Opaque('jsonpatch', of=self, args=(a, kw)); vc.emit('as_json_patch', j); return j

    def LocalObjectLogger(**kw):
        lg = NullLogger(); lg.kw = kw; return lg
    selected = [Opaque('handler-1', id='h1'), Opaque('handler-2', id='h2')][:vc.nondet(3, '#selected handlers') if family == 'context' else 1]

    class Webhooks:
        def get_handlers(self, cause, *a, **kw):
            vc.emit('get_handlers', cause, a, kw); return selected
    registry = Opaque('registry', _webhooks=Webhooks())

    class State:
        def __init__(self, how, hs=None): self.how, self.hs = how, hs
        @classmethod
        def from_scratch(cls, *a, **kw): return cls('scratch' if not a and not kw else 'scratch+args')
        @classmethod
        def from_storage(cls, *a, **kw): return cls('storage')
        def with_handlers(self, hs): return State(self.how + '+handlers', hs)
        def with_purpose(self, *a, **kw): return State(self.how + '+purpose', self.hs)
    outcomes = Opaque('outcomes')
    exec_outcome = vc.nondet(2, 'execute_handlers_once: returns / cancelled') if family == 'context' else 0

    async def execute_handlers_once(**kw):
        vc.emit('execute', kw, list(kw['cause'].warnings))
        await suspend('execute_handlers_once')
        kw['cause'].warnings.append('w1')            # handlers speak through the cause's mutable fields
        kw['cause'].warnings.append('w2')
        if exec_outcome:
            thrown.append(asyncio.CancelledError()); raise thrown[-1]
        vc.emit('executed')
        return outcomes
    response = Opaque('response')

    def build_response(**kw):
        vc.emit('build_response', kw, list(kw.get('warnings') or [])); return response
    vc.used('admission.find_resource', 'M3'); vc.used('admission.build_response', 'M1')
    vc.used('registries.WebhooksRegistry.get_handlers', 'R5'); vc.used('execution.execute_handlers_once', 'X2')
    vc.used('inventory.ResourceMemories.recall_memo', 'V1'); vc.used('patches.Patch.as_json_patch', 'A5j (deductive) + A5 (bounded, the real jsonpatch)')
    ld = vc.load('kopf._core.engines.admission', 'serve_admission_request', stubs={
        'find_resource': find_resource, 'bodies.Body': Body, 'diffs.diff': diff, 'patches.Patch': Patch,
        'loggers.LocalObjectLogger': LocalObjectLogger, 'progression.State': State,
        'execution.execute_handlers_once': execute_handlers_once, 'build_response': build_response})
    kwargs = dict(settings=settings, memories=Memories(), memobase=memobase, registry=registry, insights=insights, indices=indices)
    if variant:
        kwargs.update(headers=headers, sslpeer=sslpeer, webhook=webhook, reason=reason)
    got = raised = None
    try:
        got = vc.drive(ld.fn(request, **kwargs))
    except BaseException as e:
        if _escapes(e):
            raise
        raised = e
    names = [ev[0] for ev in tr]
    vc.canary('canary.never_raises', raised is None)
    # ---- the resource
    finds = [ev for ev in tr if ev[0] == 'find_resource']
    vc.ensure('resource_by_find_resource', len(finds) == 1 and finds[0][1].get('request') is request
              and finds[0][1].get('insights') is insights and len(finds[0][1]) == 2)
    if find_outcome:
        vc.ensure('resource_by_find_resource', raised is thrown[0] and names == ['find_resource'])
        return ('unknown-resource', type(raised).__name__)
    # ---- missing data
    raw = new_raw if new_raw is not None else old_raw
    missing = userinfo is None or raw is None
    vc.ensure('missing_data_error', isinstance(raised, admission.MissingDataError) == missing)
    if missing:
        vc.ensure('missing_data_error', not any(n in names for n in ('recall_memo', 'get_handlers', 'execute', 'build_response')))
        return ('missing', type(raised).__name__)
    # ---- the memo
    recalls = [ev for ev in tr if ev[0] == 'recall_memo']
    vc.ensure('memo_of_the_reviewed_object', len(recalls) == 1 and recalls[0][1] is raw and recalls[0][2] is memobase)
    ephemeral = recalls[0][3] if recalls else False
    vc.ensure('creation_memo_discarded', Implies(Eq(operation, 'CREATE'), ephemeral))
    vc.ensure('review_does_not_preempt_listing', Not(ghost.stored_new),
              excuse={'F-C14-1': And(Not(Eq(operation, 'CREATE')), Not(present))})
    vc.canary('canary.always_ephemeral', ephemeral)
    # ---- the cause
    gets = [ev for ev in tr if ev[0] == 'get_handlers']
    vc.ensure('handlers_by_webhook_registry', len(gets) == 1 and isinstance(gets[0][1], causes.WebhookCause) and not gets[0][2] and not gets[0][3])
    if len(gets) != 1 or not isinstance(gets[0][1], causes.WebhookCause):
        return ('no-cause',)
    cause = gets[0][1]
    vc.ensure('resource_by_find_resource', cause.resource is resource)
    vc.ensure('memo_of_the_reviewed_object', cause.memo is memo)
    vc.ensure('body_is_object_else_old_object', isinstance(cause.body, Body) and cause.body.raw is raw)
    vc.ensure('old_new_diff', (cause.old is None) if old_raw is None else (isinstance(cause.old, Body) and cause.old.raw is old_raw))
    vc.ensure('old_new_diff', (cause.new is None) if new_raw is None else (isinstance(cause.new, Body) and cause.new.raw is new_raw))
    vc.ensure('old_new_diff', getattr(cause.diff, 'args', None) is not None and cause.diff.args[0] is cause.old and cause.diff.args[1] is cause.new)
    vc.ensure('cause_carries_the_review', Eq(cause.operation, operation))
    vc.ensure('cause_carries_the_review', (cause.subresource is None) if subresource is None else Eq(cause.subresource, subresource))
    vc.ensure('cause_carries_the_review', cause.userinfo is userinfo)
    vc.ensure('cause_carries_the_review', isinstance(cause.dryrun, (bool, SBool)) and Iff(cause.dryrun, Eq(dry, True)))
    vc.ensure('cause_carries_the_review', cause.headers == (headers or {}) and cause.sslpeer == (sslpeer or {})
              and cause.headers is not None and cause.sslpeer is not None)
    vc.ensure('cause_carries_the_review', cause.webhook == webhook and cause.reason is reason and cause.indices is indices)
    vc.ensure('cause_carries_the_review', isinstance(cause.patch, Patch) and cause.patch.body is cause.body and not cause.patch.args)
    vc.ensure('cause_carries_the_review', getattr(cause.logger, 'kw', {}).get('body') is cause.body and cause.logger.kw.get('settings') is settings)
    # ---- the execution
    execs = [ev for ev in tr if ev[0] == 'execute']
    vc.ensure('executed_once_all_at_once_no_retries', len(execs) == 1)
    if len(execs) != 1:
        return ('no-execution',)
    kw, warnings_before = execs[0][1], execs[0][2]
    vc.ensure('cause_carries_the_review', isinstance(cause.warnings, list) and warnings_before == [])
    vc.ensure('executed_once_all_at_once_no_retries', kw.get('handlers') is selected and kw.get('cause') is cause
              and kw.get('settings') is settings and kw.get('lifecycle') is lifecycles.all_at_once)
    st = kw.get('state')
    vc.ensure('executed_once_all_at_once_no_retries', isinstance(st, State) and st.how == 'scratch+handlers' and st.hs is selected)
    vc.ensure('executed_once_all_at_once_no_retries', kw.get('default_errors') is execution.ErrorsMode.PERMANENT)
    vc.ensure('executed_once_all_at_once_no_retries', set(kw) <= {'handlers', 'cause', 'settings', 'lifecycle', 'state', 'default_errors'}
              or kw.get('extra_context') is None)
    vc.ensure('handlers_by_webhook_registry', names.index('get_handlers') < names.index('execute')
              and names.index('recall_memo') < names.index('get_handlers'))
    if exec_outcome:
        vc.ensure('failures_escalate', raised is thrown[0] and 'build_response' not in names and got is None)
        return ('cancelled',)
    vc.ensure('failures_escalate', raised is None)
    # ---- the response
    builds = [ev for ev in tr if ev[0] == 'build_response']
    vc.ensure('response_from_those_outcomes', len(builds) == 1 and got is response)
    if len(builds) != 1:
        return ('no-response',)
    bkw, bwarnings = builds[0][1], builds[0][2]
    vc.ensure('response_from_those_outcomes', bkw.get('request') is request and bkw.get('outcomes') is outcomes and len(bkw) == 4)
    vc.ensure('response_from_those_outcomes', bwarnings == ['w1', 'w2'] and bwarnings == list(cause.warnings))
    j = bkw.get('jsonpatch')
    vc.ensure('response_from_those_outcomes', getattr(j, 'of', None) is cause.patch and j.args == ((), {}))
    vc.ensure('patch_taken_after_the_handlers', names.count('as_json_patch') == 1 and names.index('executed') < names.index('as_json_patch'))
    return ('response', len(selected))


# =============================================================================================== S5
class _PoolTask:
    """asyncio.Task as far as the scheduler uses it: cancel() is recorded with the scheduler's state at that time."""
    def __init__(self, vc, name):
        self.vc, self.name, self.cancels = vc, name, 0

    def cancel(self, msg=None):
        self.cancels += 1
        self.vc.emit('task.cancel', self)
        return True

    def __repr__(self):
        return f'<task {self.name}>'


class _SchedState:
    """Ghost state of a Scheduler shared with its spawner/cleaner tasks: #pending jobs, #running tasks."""
    def __init__(self, vc, n_running):
        self.vc = vc
        self.pending = vc.int('pending0')
        vc.assume(self.pending >= 0, 'a queue length')
        self.tasks = [_PoolTask(vc, f'running{i}') for i in range(n_running)]
        self.running = n_running          # int, later a symbolic count

    def havoc(self, closed):
        """rely at a suspension point: finished tasks leave the pool, the spawner starts pending jobs (which enter the
        pool), and -- unless the scheduler is closed -- spawn() may enqueue more"""
        vc = self.vc
        p, r = vc.int('pending'), vc.int('running')
        vc.assume(And(p >= 0, r >= 0), 'counts')
        vc.assume(Implies(closed, p <= self.pending), 'a closed scheduler accepts no new jobs (S2.closed_rejects)')
        self.pending, self.running = p, r


def _s5_self(vc, st, *, closed):
    from kopf._cogs.aiokits import aiotasks
    ld_empty = vc.load('kopf._cogs.aiokits.aiotasks', 'Scheduler.empty')
    ld_wait = vc.load('kopf._cogs.aiokits.aiotasks', 'Scheduler.wait')

    class Running:
        def __bool__(self): return bool(st.running > 0)
        def vc_len(self): return st.running
        def __len__(self): return int(resolve_count(st.running))
        def __iter__(self):
            vc.emit('iterate running'); return iter(list(st.tasks))

    class Pending:
        def empty(self): return st.pending == 0
        def qsize(self): return st.pending

    class Condition:
        held = False
        async def __aenter__(self):
            await suspend('condition.acquire'); Condition.held = True; return self
        async def __aexit__(self, *a):
            Condition.held = False; return False
        async def wait_for(self, pred):
            vc.emit('condition.wait_for', Condition.held, pred)
            if not bool(pred()):            # asyncio.Condition.wait_for: no suspension when the predicate holds already
                Condition.held = False
                await suspend('condition.wait_for')
                Condition.held = True
                vc.assume(pred(), 'Condition.wait_for returns only when the predicate holds (with the lock re-acquired)')
            return True
        def notify_all(self): vc.emit('notify_all', Condition.held)

    class Self:
        _limit = None
        _exception_handler = None
        _condition = Condition()
        _pending_coros = Pending()
        _running_tasks = Running()
        _cleaning_queue = Opaque('cleaning-queue')
        _cleaning_task = _PoolTask(vc, 'cleaner')
        _spawning_task = _PoolTask(vc, 'spawner')
        def empty(self): return ld_empty.fn(self)
        def wait(self): return ld_wait.fn(self)
    me = Self()
    me._closed = closed
    return me


def resolve_count(x):
    if isinstance(x, SNum):
        raise Unsupported('len() of the symbolic pool: use truthiness or vc_len')
    return x


def _s5_init(vc):
    made = dict(cond=[], queue=[], tasks=[])

    def Condition():
        made['cond'].append(Opaque('condition')); return made['cond'][-1]

    def Queue(*a, **kw):
        made['queue'].append(Opaque('queue', args=(a, kw))); return made['queue'][-1]

    def create_task(coro, name=None, **kw):
        made['tasks'].append(Opaque('task', coro=coro)); return made['tasks'][-1]

    class Self:
        def _task_cleaner(self): return Opaque('cleaner-coroutine', owner=self)
        def _task_spawner(self): return Opaque('spawner-coroutine', owner=self)
    me = Self()
    limit = vc.opt('limit', vc.int)
    handler = [None, lambda exc: None][vc.nondet(2, 'exception_handler: None / given')]
    ld = vc.load('kopf._cogs.aiokits.aiotasks', 'Scheduler.__init__', stubs={
        'asyncio.Condition': Condition, 'asyncio.Queue': Queue, 'asyncio.create_task': create_task, 'super': _Super})
    kw = {}
    if limit is not None:
        kw['limit'] = limit
    if handler is not None:
        kw['exception_handler'] = handler
    ld.fn(me, **kw)
    vc.ensure('init.open_empty_configured', me._closed is False and (me._limit is None if limit is None else Eq(me._limit, limit))
              and me._exception_handler is handler)
    vc.ensure('init.open_empty_configured', isinstance(me._running_tasks, set) and not me._running_tasks
              and len(made['queue']) == 2 and me._pending_coros is not me._cleaning_queue
              and {id(me._pending_coros), id(me._cleaning_queue)} == {id(q) for q in made['queue']}
              and all(q.args == ((), {}) for q in made['queue'])          # unbounded queues: put() never blocks
              and len(made['cond']) == 1 and me._condition is made['cond'][0])
    kinds = sorted(getattr(t.coro, '_name', '?') for t in made['tasks'])
    vc.ensure('init.two_helper_tasks', kinds == ['cleaner-coroutine', 'spawner-coroutine'] and all(t.coro.owner is me for t in made['tasks']))
    vc.ensure('init.two_helper_tasks', getattr(me._cleaning_task, 'coro', None) is not None and me._cleaning_task.coro._name == 'cleaner-coroutine'
              and getattr(me._spawning_task, 'coro', None) is not None and me._spawning_task.coro._name == 'spawner-coroutine')
    vc.canary('canary.never_empty', limit is None)
    return ('init',)


def _s5_empty(vc):
    st = _SchedState(vc, 0)
    st.running = vc.int('running0')
    vc.assume(st.running >= 0, 'a set size')
    me = _s5_self(vc, st, closed=vc.bool('closed'))
    got = me.empty()
    vc.ensure('empty_iff_nothing_pending_nothing_running', Iff(got, And(st.pending == 0, st.running == 0)))
    vc.canary('canary.never_empty', Not(got))
    return ('empty', got)


def _s5_wait(vc):
    st = _SchedState(vc, 0)
    st.running = vc.int('running0')
    vc.assume(st.running >= 0, 'a set size')
    closed = vc.bool('closed')
    me = _s5_self(vc, st, closed=closed)
    cancelled = []

    def on_suspend(site):
        st.havoc(closed)
        if site == 'condition.wait_for' and vc.nondet(2, 'wait() cancelled meanwhile?') == 1:
            cancelled.append(asyncio.CancelledError()); return cancelled[0]
    raised = None
    try:
        vc.drive(me.wait(), on_suspend=on_suspend)
    except asyncio.CancelledError as e:
        raised = e
    waits = [ev for ev in vc.trace if ev[0] == 'condition.wait_for']
    vc.ensure('wait.on_own_condition_under_lock', len(waits) == 1 and waits[0][1] is True)
    if cancelled:
        vc.ensure('wait.cancellable', raised is cancelled[0])
        return ('wait', 'cancelled')
    vc.ensure('wait.cancellable', raised is None)
    vc.ensure('wait.returns_only_when_empty', And(st.pending == 0, st.running == 0))
    vc.ensure('wait.returns_only_when_empty', me._closed is closed)
    vc.canary('canary.never_empty', False)
    return ('wait', 'returned')


def _s5_close(vc):
    n = vc.nondet(4, '#running tasks at close()')
    st = _SchedState(vc, n)
    me = _s5_self(vc, st, closed=vc.bool('closed before (close() called twice)'))
    stops = []

    async def stop(tasks, **kw):
        vc.emit('stop', set(tasks), kw, st.pending, st.running)
        await suspend('stop')
        return set(tasks), set()
    vc.used('aiotasks.stop', 'S4'); vc.used('aiotasks.Scheduler._task_spawner', 'S1'); vc.used('aiotasks.Scheduler._task_cleaner/spawn', 'S2')
    ld = vc.load('kopf._cogs.aiokits.aiotasks', 'Scheduler.close', stubs={'stop': stop})
    suspensions = []

    def on_suspend(site):
        suspensions.append(len(vc.trace))
        vc.ensure('close.rejects_new_coroutines_at_once', me._closed is True)
        st.havoc(True)
    vc.drive(ld.fn(me), on_suspend=on_suspend)
    tr = vc.trace
    names = [ev[0] for ev in tr]
    vc.ensure('close.rejects_new_coroutines_at_once', me._closed is True)
    first_susp = suspensions[0] if suspensions else len(tr)
    cancels = [i for i, ev in enumerate(tr) if ev[0] == 'task.cancel']
    vc.ensure('close.cancels_every_running_task', all(t.cancels >= 1 for t in st.tasks))
    vc.ensure('close.cancels_every_running_task', all(i < first_susp for i in cancels if tr[i][1] in st.tasks))
    stops = [(i, ev) for i, ev in enumerate(tr) if ev[0] == 'stop']
    vc.ensure('close.stops_own_helpers_last', len(stops) == 1 and stops[0][1][1] == {me._spawning_task, me._cleaning_task}
              and stops[0][0] == len(tr) - 1)
    vc.ensure('close.stops_own_helpers_last', me._spawning_task.cancels == 0 and me._cleaning_task.cancels == 0)    # only through stop()
    if stops:
        _, (_, _, _, pending_then, running_then) = stops[0]
        vc.ensure('close.waits_until_empty', And(pending_then == 0, running_then == 0))
        vc.ensure('close.waits_until_empty', 'condition.wait_for' in names[:stops[0][0]])
    vc.canary('canary.never_empty', n == 0)
    return ('close', n)


def _s5_all_tasks(vc):
    n = vc.nondet(4, '#other tasks in the loop')
    current = Opaque('current-task')
    others = [Opaque(f'task{i}') for i in range(n)]
    mask = vc.nondet(2 ** n, 'which of them are ignored')
    ignored = [t for i, t in enumerate(others) if mask >> i & 1]
    extra = vc.nondet(3, 'ignored also has: nothing / the current task / a task that is gone')
    if extra == 1:
        ignored.append(current)
    elif extra == 2:
        ignored.append(Opaque('finished-long-ago'))
    shape = vc.nondet(3, 'ignored: default / frozenset / list')
    stubs = {'asyncio.current_task': lambda: current, 'asyncio.all_tasks': lambda: set(others) | {current}}
    ld = vc.load('kopf._cogs.aiokits.aiotasks', 'all_tasks', stubs=stubs)
    if shape == 0:
        ignored = []
        got = vc.drive(ld.fn())
    else:
        got = vc.drive(ld.fn(ignored=frozenset(ignored) if shape == 1 else list(ignored)))
    want = {id(t) for t in others if not any(t is x for x in ignored)}
    vc.ensure('all_tasks.all_but_current_and_ignored', {id(t) for t in got} == want and len(list(got)) == len(want))
    vc.canary('canary.never_empty', len(list(got)) > 0)
    return ('all_tasks', n, len(want))


@harness('S5', targets=['kopf._cogs.aiokits.aiotasks.Scheduler.__init__', 'kopf._cogs.aiokits.aiotasks.Scheduler.empty',
                        'kopf._cogs.aiokits.aiotasks.Scheduler.wait', 'kopf._cogs.aiokits.aiotasks.Scheduler.close',
                        'kopf._cogs.aiokits.aiotasks.all_tasks'],
         props=['C01', 'C20', 'C09'],
         clause_props={'all_tasks.all_but_current_and_ignored': ['C20']},
         clauses=['init.open_empty_configured', 'init.two_helper_tasks', 'empty_iff_nothing_pending_nothing_running',
                  'wait.on_own_condition_under_lock', 'wait.returns_only_when_empty', 'wait.cancellable',
                  'close.rejects_new_coroutines_at_once', 'close.cancels_every_running_task', 'close.waits_until_empty',
                  'close.stops_own_helpers_last', 'all_tasks.all_but_current_and_ignored'],
         canaries=['canary.never_empty'],
         trusted=['asyncio.Condition: `async with` takes the lock (may suspend); wait_for(pred) must be called with the lock held, '
                  'returns at once if pred() holds, else releases the lock, suspends, and returns only when pred() holds',
                  'asyncio.Queue.empty(); asyncio.create_task; asyncio.all_tasks()/current_task()',
                  'aiotasks.stop(tasks) by contract S4: cancels them and waits until all are done'],
         assumes=['rely while close()/wait() are suspended: the spawner starts pending jobs and the cleaner removes finished '
                  'tasks (S1/S2) -- any counts >= 0; a closed scheduler gets no new jobs (S2.closed_rejects)',
                  'S5 BOUNDS: 0..3 tasks running when close() is called; 0..3 other tasks for all_tasks'])
def S5(vc):
    """
    The rest of aiotasks.Scheduler (S1: spawner, S2: done-callback/cleaner/spawn) and aiotasks.all_tasks.
      __init__   open (not closed), empty pool, two distinct unbounded queues, its own condition, limit and exception
                 handler kept; exactly two helper tasks are started: one running its _task_cleaner(), one its _task_spawner()
      empty()    <=> no job is pending and no task is running
      wait()     waits on the scheduler's condition, holding it, for exactly that emptiness: it returns only when the
                 scheduler is empty; it can be cancelled
      close()    (1) `_closed` is raised before the first suspension point and stays raised: spawn() rejects from then on
                 (S2.closed_rejects), and the spawner cancels whatever it still starts (S1.job_becomes_owned_task) -- which is
                 how pending coroutines are started-and-cancelled instead of being left never-awaited; (2) every task running at
                 that moment is cancelled, before anything is awaited; (3) it then waits until the scheduler is empty -- the
                 helper tasks are still alive meanwhile, they are what empties it; (4) only then, and last, it stops exactly its
                 own two helper tasks (aiotasks.stop, S4).
      all_tasks(ignored=)   every task of the running loop except the calling one and the ignored ones (C20: run_tasks
                 uses it to find the tasks left behind by the root tasks).
    """
    k = vc.nondet(5, 'scenario: init / empty / wait / close / all_tasks')
    return [_s5_init, _s5_empty, _s5_wait, _s5_close, _s5_all_tasks][k](vc)


# =============================================================================================== P3
PEERING_UNIVERSE = [RES('kopf.dev', 'v1', 'clusterkopfpeerings'), RES('zalando.org', 'v1', 'clusterkopfpeerings'),
                    RES('kopf.dev', 'v1', 'kopfpeerings'), RES('zalando.org', 'v1', 'kopfpeerings'),
                    RES('kopf.dev', 'v1', 'kopfexamples'), RES('', 'v1', 'pods'), RES('example.com', 'v1', 'kopfpeerings')]


def _contains(s, sub):
    return s.contains(sub) if isinstance(s, SStr) else (sub in s)


def _p3_own_id(vc):
    pod_k = vc.nondet(3, 'POD_ID: unset / empty / set')
    pod = [None, '', vc.str('POD_ID')][pod_k]
    user, host, stamp = vc.str('user'), vc.str('host'), vc.str('timestamp')
    rnd = ['abcdefgh']
    manual = vc.bool('manual')
    asked = []

    class Environ:
        def get(self, key, default=None):
            asked.append(key)
            return pod if key == 'POD_ID' and pod is not None else default
        def __getitem__(self, key):
            asked.append(key)
            if key == 'POD_ID' and pod is not None:
                return pod
            raise KeyError(key)
        def __contains__(self, key):
            asked.append(key)
            return key == 'POD_ID' and pod is not None

    class _Now:
        def strftime(self, fmt):
            vc.emit('strftime', fmt); return stamp

    class _DT:
        @staticmethod
        def now(tz=None):
            vc.emit('now', tz); return _Now()
        utcnow = now

    class _DTMod:
        datetime = _DT
        class timezone:
            utc = 'UTC'

    def choices(population, weights=None, *, cum_weights=None, k=1):
        vc.emit('choices', population, k); return list(rnd[0][:k])
    ld = vc.load('kopf._core.engines.peering', 'detect_own_id', stubs={
        'os.environ': Environ(), 'getpass.getuser': lambda: user, 'hostnames.get_descriptive_hostname': lambda: host,
        'datetime': _DTMod, 'random.choices': choices})
    got = ld.fn(manual=manual)
    vc.ensure('own_id.pod_id_wins', 'POD_ID' in asked)
    vc.canary('canary.id_is_user_at_host', Eq(got, user + '@' + host))
    if pod_k == 2:
        vc.ensure('own_id.pod_id_wins', Eq(got, pod))
        return ('own-id', 'pod')
    if pod_k == 1:          # an empty POD_ID: nothing is promised beyond "a string"
        vc.ensure('own_id.pod_id_wins', isinstance(got, (str, SStr)))
        return ('own-id', 'empty-pod')
    base = user + '@' + host
    # the CLI (kopf freeze / kopf resume) relies on a STABLE identity: resume must address the record freeze wrote
    vc.ensure('own_id.manual_is_stable_user_at_host', Implies(manual, Eq(got, base)))
    # an operator's identity tells who/where and when it was started, and two starts do not collide even within the same
    # second: it changes with the start time and with the random source
    vc.ensure('own_id.operator_id_unique_per_start', Implies(Not(manual), And(got.startswith(base), _contains(got, stamp), Not(Eq(got, base)))))
    rnd[0] = 'zyxwvuts'
    again = ld.fn(manual=manual)
    vc.ensure('own_id.operator_id_unique_per_start', Implies(Not(manual), Not(Eq(again, got))))
    vc.ensure('own_id.manual_is_stable_user_at_host', Implies(manual, Eq(again, got)))
    return ('own-id', 'generated')


def _p3_selectors(vc):
    standalone, clusterwide = vc.bool('standalone'), vc.bool('clusterwide')
    mandatory = vc.bool('mandatory')
    ps = Opaque('settings.peering', standalone=standalone, clusterwide=clusterwide, namespaced=Not(clusterwide), mandatory=mandatory)
    ps.name = vc.str('peering.name')
    settings = Opaque('settings', peering=ps)
    ld = vc.load('kopf._core.engines.peering', 'guess_selectors')
    got = list(ld.fn(settings))
    matched = [[r for r in PEERING_UNIVERSE if s.check(r)] for s in got]
    covered = {(r.group, r.plural) for rs in matched for r in rs}
    vc.ensure('selectors.standalone_has_none', Implies(standalone, len(got) == 0))
    vc.ensure('selectors.cluster_vs_namespaced', Implies(And(Not(standalone), clusterwide),
              covered == {('kopf.dev', 'clusterkopfpeerings'), ('zalando.org', 'clusterkopfpeerings')}))
    vc.ensure('selectors.cluster_vs_namespaced', Implies(And(Not(standalone), Not(clusterwide)),
              covered == {('kopf.dev', 'kopfpeerings'), ('zalando.org', 'kopfpeerings')}))
    vc.ensure('selectors.both_api_groups', Implies(Not(standalone), len(got) == 2 and all(len(rs) == 1 for rs in matched)))
    vc.canary('canary.never_standalone', len(got) > 0)
    return ('selectors', len(got))


def _p3_touch_command(vc):
    lifetime = vc.opt('lifetime', vc.int)
    identity = vc.str('identity')
    settings = Opaque('settings', peering=Opaque('settings.peering', priority=vc.int('priority')))
    n_sel = [0, 2][vc.nondet(2, 'guess_selectors: none (standalone) / two')]
    selectors = [Opaque(f'selector{i}') for i in range(n_sel)]
    served = [vc.bool(f'selector{i} in backbone') for i in range(n_sel)]
    resources = [Opaque(f'peering-resource{i}') for i in range(n_sel)]

    class Backbone:
        def __contains__(self, s): return served[selectors.index(s)]
        def __getitem__(self, s):
            i = selectors.index(s)
            if not bool(served[i]):
                raise KeyError(s)
            return resources[i]
        def get(self, s, default=None): return self[s] if bool(self.__contains__(s)) else default
    namespaces = [set(), {None}, {'ns1', 'ns2'}][vc.nondet(3, 'insights.namespaces: none / cluster-wide / two namespaces')]
    ready = {'ns': Opaque('ready_namespaces'), 'res': Opaque('ready_resources')}
    ready['ns'].wait = lambda: Opaque('wait-coro', of='ns')
    ready['res'].wait = lambda: Opaque('wait-coro', of='res')
    insights = Opaque('insights', namespaces=namespaces, backbone=Backbone(), ready_namespaces=ready['ns'], ready_resources=ready['res'])

    def guess_selectors(*a, **kw):
        vc.emit('guess_selectors', a, kw); return list(selectors)

    def touch(**kw):
        m = Opaque('touch-coroutine', kw=kw); vc.emit('touch', kw); return m

    def create_task(coro, **kw):
        return Opaque('task', coro=coro)

    async def aio_wait(tasks, **kw):
        vc.emit('asyncio.wait', set(tasks), kw)
        await suspend('asyncio.wait')
        return set(tasks), set()

    def create_guarded_task(**kw):
        t = Opaque('guarded-task', kw=kw); vc.emit('create_guarded_task', kw); return t

    async def aiotasks_wait(tasks, **kw):
        vc.emit('aiotasks.wait', set(tasks), kw)
        await suspend('aiotasks.wait')
        return set(tasks), set()
    vc.used('peering.guess_selectors', 'P3 (scenario selectors)'); vc.used('peering.touch', 'P2')
    vc.used('aiotasks.wait', 'S4w'); vc.used('aiotasks.create_guarded_task', 'S3g')
    ld = vc.load('kopf._core.engines.peering', 'touch_command', stubs={
        'guess_selectors': guess_selectors, 'touch': touch, 'asyncio.create_task': create_task, 'asyncio.wait': aio_wait,
        'aiotasks.create_guarded_task': create_guarded_task, 'aiotasks.wait': aiotasks_wait, 'logger': NullLogger()})
    raised = None
    try:
        vc.drive(ld.fn(lifetime=lifetime, insights=insights, identity=identity, settings=settings))
    except RuntimeError as e:
        raised = e
    tr = vc.trace
    names = [ev[0] for ev in tr]
    # ---- nothing before both the namespaces and the resources are known
    waits = [ev for ev in tr if ev[0] == 'asyncio.wait']
    vc.ensure('command.waits_for_discovery', len(waits) == 1 and names[0] == 'asyncio.wait'
              and sorted(getattr(t.coro, 'of', '?') for t in waits[0][1]) == ['ns', 'res']
              and waits[0][2].get('return_when', asyncio.ALL_COMPLETED) == asyncio.ALL_COMPLETED and waits[0][2].get('timeout') is None)
    found = [r for r, s in zip(resources, served) if bool(s)]
    vc.ensure('command.fails_without_peering_resource', (raised is not None) == (not found))
    vc.canary('canary.command_never_fails', raised is None)
    touches = [ev[1] for ev in tr if ev[0] == 'touch']
    if not found:
        vc.ensure('command.fails_without_peering_resource', not touches and 'aiotasks.wait' not in names)
        return ('command', 'no-resource')
    # ---- exactly one record written per (namespace, peering resource) -- and nothing else
    want = {(ns, id(r)) for ns in namespaces for r in found}
    vc.ensure('command.one_touch_per_peering_object', len(touches) == len(want) and {(kw.get('namespace'), id(kw.get('resource'))) for kw in touches} == want)
    for kw in touches:
        vc.ensure('command.record_as_given', kw.get('identity') is identity and kw.get('settings') is settings
                  and (kw.get('lifetime') is None if lifetime is None else kw.get('lifetime') is lifetime) and len(kw) == 5)
    guarded = [ev[1] for ev in tr if ev[0] == 'create_guarded_task']
    vc.ensure('command.one_touch_per_peering_object', len(guarded) == len(touches))
    vc.ensure('command.all_awaited', all(g.get('finishable') is True for g in guarded))      # a command ends: not "unexpectedly"
    aw = [ev for ev in tr if ev[0] == 'aiotasks.wait']
    vc.ensure('command.all_awaited', len(aw) == 1 and names[-1] == 'aiotasks.wait' and len(aw[0][1]) == len(guarded)
              and all(getattr(t, 'kw', None) is not None and any(t.kw is g for g in guarded) for t in aw[0][1])
              and aw[0][2].get('return_when', asyncio.ALL_COMPLETED) == asyncio.ALL_COMPLETED and aw[0][2].get('timeout') is None)
    coros = [g.get('coro') for g in guarded]
    vc.ensure('command.all_awaited', all(getattr(c, 'kw', None) is not None and any(c.kw is kw for kw in touches) for c in coros)
              and len({id(c) for c in coros}) == len(coros))
    return ('command', len(touches))


@harness('P3', targets=['kopf._core.engines.peering.detect_own_id', 'kopf._core.engines.peering.guess_selectors',
                        'kopf._core.engines.peering.touch_command'], props=['C13', 'C19'],
         clauses=['own_id.pod_id_wins', 'own_id.manual_is_stable_user_at_host', 'own_id.operator_id_unique_per_start',
                  'selectors.standalone_has_none', 'selectors.cluster_vs_namespaced', 'selectors.both_api_groups',
                  'command.waits_for_discovery', 'command.fails_without_peering_resource', 'command.one_touch_per_peering_object',
                  'command.record_as_given', 'command.all_awaited'],
         canaries=['canary.id_is_user_at_host', 'canary.never_standalone', 'canary.command_never_fails'],
         trusted=['os.environ, getpass.getuser, hostnames.get_descriptive_hostname, datetime.now().strftime, random.choices: '
                  'by their signatures (arbitrary strings; choices(population, k=n) gives n members of the population)',
                  'references.Selector.check runs natively on a 7-resource universe (scenario selectors)',
                  'peering.touch by contract P2 (one record {identity: {priority (from settings), lifetime, lastseen}} in the named '
                  'peering object of that namespace; lifetime 0 removes it)',
                  'asyncio.wait / aiotasks.wait (S4w): wait for ALL of the given tasks'])
def P3(vc):
    """
    detect_own_id: POD_ID, if set, is the identity.  Otherwise it is "<user>@<host>" exactly when asked for a MANUAL identity
      (the `kopf freeze` / `kopf resume` CLI: resume must address the very record freeze wrote, so the identity has to be
      the same on every invocation), and "<user>@<host>/<start time>/<3 random characters>" for an operator, so that two
      starts of the same operator on the same host do not share a record (C13: each running operator renews/removes ITS record).
    guess_selectors (docs/peering.rst): standalone => none at all; otherwise the cluster-wide mode selects exactly
      ClusterKopfPeering and the namespaced mode exactly KopfPeering -- each in both API groups, kopf.dev and the
      legacy zalando.org (transition) -- and nothing else (checked by matching the returned selectors against 7 resources).
    touch_command (the backend of `kopf freeze/resume`): nothing happens before both the namespaces and the resources
      are discovered; no served peering resource => RuntimeError and no write at all; otherwise exactly one touch()
      per (namespace of the command, served peering resource) -- None for cluster-wide -- carrying the given identity,
      settings (priority, peering name) and lifetime (0 = resume) unchanged; every one of them is awaited to its end
      before the command returns.
    """
    k = vc.nondet(3, 'scenario: own id / selectors / touch_command')
    return [_p3_own_id, _p3_selectors, _p3_touch_command][k](vc)


# =============================================================================================== M5
from kopf._cogs.clients import errors as api_errors      # noqa: E402
from pyvc.loader import _STOP                            # noqa: E402


class _ApiFailure(Exception):
    """any escalated failure of an API request (network, 5xx after the retries, 422 ...)"""


def _api_error(cls, status):
    return cls(None, status=status, headers={})


@harness('M5', targets='kopf._core.engines.admission.configuration_manager', props=['C18', 'C12'],
         clause_props={'create_conflict_tolerated_others_escalate': ['C12', 'C18'], 'failures_escalate_after_cleanup': ['C12', 'C18']},
         clauses=['unmanaged_touches_nothing', 'waits_for_discovery', 'creates_if_absent_under_managed_name',
                  'create_conflict_tolerated_others_escalate', 'every_change_rebuilds_and_patches', 'own_type_of_handlers_only',
                  'cleanup_keeps_persistent_only', 'failures_escalate_after_cleanup'],
         canaries=['canary.never_patches', 'canary.never_fails'],
         trusted=['aiovalues.Container.as_changed(): yields the current client config at once (if any) and again whenever the '
                  'container is set or the insights are revised (chain-notified condition)',
                  'creating.create_obj / patching.patch_obj: one API request each (retried inside api.request, N2), raising '
                  'APIConflictError for 409, APIForbiddenError for 403, other APIErrors / network errors otherwise',
                  'admission.build_webhooks by contract M3; patches.Patch is the real class (a dict)'],
         assumes=['settings.admission.managed, when set, is a non-empty name'])
def M5(vc):
    """
    configuration_manager(reason, selector, ...): keeps ONE [Validating|Mutating]WebhookConfiguration up to date.
      unmanaged_touches_nothing     settings.admission.managed is None: waits forever; no API request, no registry access
      waits_for_discovery           nothing is requested before the resources are scanned and the configuration resource
                                    (the given selector) is found in the backbone
      creates_if_absent_under_managed_name   exactly one create attempt (try-or-fail), for that resource, named `managed`
      create_conflict_tolerated_others_escalate   409 "already exists" is fine; 403 and every other failure propagate
                                    (the root task fails => the operator stops, C12/C20) and nothing is patched
      every_change_rebuilds_and_patches   loop contract over `container.as_changed()`: for EVERY yielded client config exactly
                                    one build_webhooks(handlers, resources=<current insights.webhook_resources>,
                                    name_suffix=managed, client_config=<that config>) and then exactly one patch of the object
                                    `managed` (cluster-scoped: namespace None) with {webhooks: <that result>} -- all webhooks
                                    overwritten (docs/admission.rst "Webhook management")
      own_type_of_handlers_only     the validating manager registers validating handlers only, the mutating one mutating only,
                                    in registration order
      cleanup_keeps_persistent_only on exit (stream end, cancellation, failure), iff some client config was applied, one last
                                    patch with build_webhooks(..., persistent_only=True) for the LAST config: non-persistent
                                    webhooks are removed, persistent ones stay (docs "persistent")
      failures_escalate_after_cleanup   a failed patch / a cancellation ends the manager with that very exception
    """
    managed = None if vc.nondet(2, 'settings.admission.managed: None / a name') == 0 else vc.str('managed')
    if managed is not None:
        vc.assume(Not(Eq(managed, '')), 'a configuration name is a non-empty string')
    reason = [WT.VALIDATING, WT.MUTATING][vc.nondet(2, 'manager of: validating / mutating')]
    settings = Opaque('settings', admission=Opaque('settings.admission', managed=managed, server=Opaque('server')))
    selector, resource, webhook_resources = Opaque('selector'), Opaque('config-resource'), Opaque('webhook_resources')
    hs = [Opaque('v1', reason=WT.VALIDATING), Opaque('m1', reason=WT.MUTATING), Opaque('v2', reason=WT.VALIDATING), Opaque('m2', reason=WT.MUTATING)]
    tr = vc.trace
    thrown = []

    class Webhooks:
        def get_all_handlers(self):
            vc.emit('get_all_handlers'); return tuple(hs) if reason is WT.MUTATING else list(hs)
    registry = Opaque('registry', _webhooks=Webhooks())

    class Ready:
        async def wait(self):
            vc.emit('ready_resources.wait'); await suspend('ready_resources'); return True

    class Backbone:
        async def wait_for(self, s):
            vc.emit('backbone.wait_for', s); await suspend('backbone'); return resource
    insights = Opaque('insights', ready_resources=Ready(), backbone=Backbone(), webhook_resources=webhook_resources)
    stream = Opaque('as_changed()')
    container = Opaque('container', as_changed=lambda: stream)

    class Forever:
        async def wait(self):
            vc.emit('wait-forever')
            await suspend('forever')
            raise Unsupported('an Event nobody sets was "set"')
    create_outcome = vc.nondet(5, 'create_obj: created / 409 / 403 / other API error / network error') if managed is not None else 0

    async def create_obj(**kw):
        vc.emit('create_obj', kw)
        await suspend('create_obj')
        if create_outcome:
            thrown.append([_api_error(api_errors.APIConflictError, 409), _api_error(api_errors.APIForbiddenError, 403),
                           _api_error(api_errors.APIServerError, 500), _ApiFailure('network')][create_outcome - 1])
            raise thrown[-1]
        return {}

    def build_webhooks(handlers_, **kw):
        w = Opaque('webhooks'); vc.emit('build_webhooks', list(handlers_), kw, w); return w

    async def patch_obj(**kw):
        vc.emit('patch_obj', kw, dict(kw.get('patch') or {}))
        await suspend('patch_obj')
        if vc.nondet(2, 'patch_obj: ok / fails') == 1:
            thrown.append(_ApiFailure('patch')); raise thrown[-1]
        return {}, None
    st = Opaque('loop-state', head=None, prev=None, cfg=None, ended=None)

    def havoc(loc):
        st.prev = [None, Opaque('previous-config')][vc.nondet(2, 'a config was applied in an earlier iteration?')]
        st.head = len(tr)
        return {'client_config': st.prev}

    def element(loc, iterable):
        vc.ensure('every_change_rebuilds_and_patches', iterable is stream)
        k = vc.nondet(3, 'as_changed(): a new client config / the stream ends / cancelled while waiting')
        if k == 1:
            st.ended = 'stop'; return _STOP
        if k == 2:
            st.ended = 'cancel'; thrown.append(asyncio.CancelledError()); raise thrown[-1]
        st.cfg = Opaque('client-config')
        return st.cfg

    def check_round(evs, cfg, persistent_only):
        clause = 'cleanup_keeps_persistent_only' if persistent_only else 'every_change_rebuilds_and_patches'
        evs = [ev for ev in evs if ev[0] in ('build_webhooks', 'patch_obj', 'create_obj', 'get_all_handlers')]
        vc.ensure(clause, [ev[0] for ev in evs][:2] == ['build_webhooks', 'patch_obj'])
        if [ev[0] for ev in evs][:2] != ['build_webhooks', 'patch_obj']:
            return
        (_, handlers_, bkw, w), (_, pkw, patch) = evs[0], evs[1]
        vc.ensure('own_type_of_handlers_only', len(handlers_) == 2 and all(a is b for a, b in zip(handlers_, [h for h in hs if h.reason is reason])))
        vc.ensure(clause, bkw.get('resources') is webhook_resources and bkw.get('name_suffix') is managed and bkw.get('client_config') is cfg
                  and bool(bkw.get('persistent_only', False)) == persistent_only)
        vc.ensure(clause, pkw.get('resource') is resource and pkw.get('name') is managed and pkw.get('namespace') is None
                  and pkw.get('settings') is settings)
        vc.ensure(clause, list(patch) == ['webhooks'] and patch['webhooks'] is w)

    def at_backedge(loc):
        evs = tr[st.head:]
        check_round(evs, st.cfg, False)
        vc.ensure('every_change_rebuilds_and_patches', [ev[0] for ev in evs if ev[0] in ('build_webhooks', 'patch_obj')] == ['build_webhooks', 'patch_obj'])
        vc.canary('canary.never_patches', False)
    vc.used('admission.build_webhooks', 'M3'); vc.used('patching.patch_obj', 'A3/A4'); vc.used('creating.create_obj', 'trusted')
    ld = vc.load('kopf._core.engines.admission', 'configuration_manager', stubs={
        'asyncio.Event': Forever, 'creating.create_obj': create_obj, 'patching.patch_obj': patch_obj,
        'build_webhooks': build_webhooks, 'logger': NullLogger()},
        loops={1: LoopSpec('async for client_config in container.as_changed()', havoc=havoc, element=element, at_backedge=at_backedge)})

    def on_suspend(site):
        if site == 'forever':
            thrown.append(asyncio.CancelledError()); return thrown[-1]
    raised = None
    try:
        vc.drive(ld.fn(reason=reason, selector=selector, registry=registry, settings=settings, insights=insights, container=container),
                 on_suspend=on_suspend)
    except BaseException as e:
        if _escapes(e):
            raise
        raised = e
    names = [ev[0] for ev in tr]
    vc.canary('canary.never_fails', raised is None)
    if managed is None:
        vc.ensure('unmanaged_touches_nothing', names == ['wait-forever'] and raised is thrown[0])
        return ('unmanaged',)
    api = [i for i, n in enumerate(names) if n in ('create_obj', 'patch_obj')]
    vc.ensure('waits_for_discovery', names[:2] == ['ready_resources.wait', 'backbone.wait_for'] and tr[1][1] is selector
              and all(i > 1 for i in api))
    creates = [ev for ev in tr if ev[0] == 'create_obj']
    vc.ensure('creates_if_absent_under_managed_name', len(creates) == 1 and creates[0][1].get('resource') is resource
              and creates[0][1].get('name') is managed and creates[0][1].get('settings') is settings and creates[0][1].get('namespace') is None)
    if create_outcome >= 2:
        vc.ensure('create_conflict_tolerated_others_escalate', raised is thrown[0] and 'patch_obj' not in names and 'build_webhooks' not in names)
        return ('create-failed', create_outcome)
    vc.ensure('create_conflict_tolerated_others_escalate', 'loop-head' in names)        # went on to managing
    # ---- how the loop was left (paths that complete an iteration end at the back edge above)
    exit_evs = tr[st.head:] if st.head is not None else []
    in_round = st.cfg is not None                   # left from inside an iteration: its patch failed
    last_cfg = st.cfg if in_round else st.prev
    if in_round:
        first_patch = [i for i, ev in enumerate(exit_evs) if ev[0] == 'patch_obj'][0]
        check_round(exit_evs[:first_patch + 1], st.cfg, False)
        exit_evs = exit_evs[first_patch + 1:]
    cleanup = [ev for ev in exit_evs if ev[0] in ('build_webhooks', 'patch_obj')]
    if last_cfg is None:
        vc.ensure('cleanup_keeps_persistent_only', not cleanup)
    else:
        check_round(cleanup, last_cfg, True)
        vc.ensure('cleanup_keeps_persistent_only', [ev[0] for ev in cleanup] == ['build_webhooks', 'patch_obj'])
    if in_round or st.ended == 'cancel':
        vc.ensure('failures_escalate_after_cleanup', raised is not None and any(raised is t for t in thrown))
        if len(thrown) == 1:
            vc.ensure('failures_escalate_after_cleanup', raised is thrown[0])
    elif not thrown:
        vc.ensure('failures_escalate_after_cleanup', raised is None)
    return ('left', st.ended, in_round, last_cfg is not None, type(raised).__name__)


# =============================================================================================== O1u
class _CondStub:
    """asyncio.Condition by contract: `async with` takes the lock (may suspend); wait_for(pred) needs the lock, returns at
    once when pred() holds, otherwise releases the lock, suspends (other tasks run: `meanwhile()`), re-takes the lock and
    returns only when pred() holds; notify_all() needs the lock."""
    def __init__(self, vc, name, meanwhile=lambda: None):
        self.vc, self.name, self.held, self.meanwhile = vc, name, False, meanwhile

    async def __aenter__(self):
        await suspend(f'{self.name}.acquire')
        self.held = True
        return self

    async def __aexit__(self, *a):
        self.held = False
        return False

    async def wait_for(self, pred):
        first = pred()
        self.vc.emit('wait_for', self, self.held, first)
        if not bool(first):
            self.held = False
            await suspend(f'{self.name}.wait_for')
            self.meanwhile()
            self.held = True
            self.vc.assume(pred(), 'Condition.wait_for returns only when the predicate holds')
        return True

    def notify_all(self):
        self.vc.emit('notify_all', self, self.held)


def _o1u_wanted(vc):
    """the wanted state as callers pass it: a bool (symbolic) -- or any truthy/falsy value"""
    k = vc.nondet(3, 'wanted state: a bool / 0 / 1')
    w = [vc.bool('wanted'), 0, 1][k]
    return w, (w if k == 0 else bool(w))


def _o1u_toggle(vc):
    from kopf._cogs.aiokits import aiotoggles
    scenario = vc.nondet(3, 'toggle: __init__ / turn_to / wait_for')
    if scenario == 0:
        own = []

        def Condition():
            own.append(_CondStub(vc, 'own')); return own[-1]
        ld = vc.load('kopf._cogs.aiokits.aiotoggles', 'Toggle.__init__', stubs={'asyncio.Condition': Condition, 'super': _Super})
        t = aiotoggles.Toggle.__new__(aiotoggles.Toggle)
        given = [None, _CondStub(vc, 'of-the-set')][vc.nondet(2, 'condition: own / of the owning set')]
        k = vc.nondet(4, 'initial state: default / a bool / 0 / 1')
        init = [None, vc.bool('initial'), 0, 1][k]
        args = () if k == 0 else (init,)
        name = [None, 'n'][vc.nondet(2, 'name')]
        kw = {}
        if given is not None:
            kw['condition'] = given
        if name is not None:
            kw['name'] = name
        ld.fn(t, *args, **kw)
        spec = False if k == 0 else init if k == 1 else bool(init)
        vc.ensure('toggle.init', isinstance(t._state, (bool, SBool)) and Iff(t._state, spec))
        vc.ensure('toggle.init', (t._condition is given and not own) if given is not None else (len(own) == 1 and t._condition is own[0]))
        vc.ensure('toggle.init', t._name == name)
        vc.canary('canary.always_off', Not(t._state))
        return ('init', k)
    state0 = vc.bool('state@pre')
    others = dict(turns=0)

    def meanwhile():
        # other tasks turn the toggle while this one waits
        t._state = vc.bool('state')
        others['turns'] += 1
    cond = _CondStub(vc, 'cond', meanwhile)
    t = aiotoggles.Toggle.__new__(aiotoggles.Toggle)
    t._condition, t._state, t._name = cond, state0, None
    wanted_arg, wanted = _o1u_wanted(vc)
    ld_on = vc.load('kopf._cogs.aiokits.aiotoggles', 'Toggle.is_on')
    ld_off = vc.load('kopf._cogs.aiokits.aiotoggles', 'Toggle.is_off')
    vc.ensure('toggle.is_on_is_off', And(Iff(ld_on.fn(t), state0), Iff(ld_off.fn(t), Not(state0))))
    if scenario == 1:
        ld = vc.load('kopf._cogs.aiokits.aiotoggles', 'Toggle.turn_to')
        vc.drive(ld.fn(t, wanted_arg))
        vc.ensure('turn_to.sets_state', isinstance(t._state, (bool, SBool)) and Iff(t._state, wanted))
        notes = [ev for ev in vc.trace if ev[0] == 'notify_all']
        # the waiters of the toggle -- and of its owning set, which shares the condition (O1t) -- are woken, under the lock
        vc.ensure('turn_to.notifies_under_lock', len(notes) >= 1 and all(ev[1] is cond and ev[2] is True for ev in notes))
        vc.ensure('turn_to.notifies_under_lock', cond.held is False)
        vc.canary('canary.always_off', Not(t._state))
        return ('turn_to',)
    ld = vc.load('kopf._cogs.aiokits.aiotoggles', 'Toggle.wait_for')
    vc.drive(ld.fn(t, wanted_arg))
    waits = [ev for ev in vc.trace if ev[0] == 'wait_for']
    vc.ensure('wait_for.on_own_condition_under_lock', len(waits) == 1 and waits[0][1] is cond and waits[0][2] is True and cond.held is False)
    vc.ensure('wait_for.returns_only_in_wanted_state', Iff(t._state, wanted))
    vc.ensure('wait_for.no_wait_when_already_there', Implies(Iff(state0, wanted), others['turns'] == 0))
    vc.canary('canary.always_off', Not(t._state))
    return ('wait_for', others['turns'])


def _o1u_set(vc):
    from kopf._cogs.aiokits import aiotoggles
    fn = [all, any][vc.nondet(2, 'ToggleSet(all) / ToggleSet(any)')]
    n = vc.nondet(3, 'number of member toggles')
    members = []
    others = dict(turns=0)

    def meanwhile():
        for m in members:
            m._state = vc.bool('member.state')
        others['turns'] += 1
    cond = _CondStub(vc, 'set', meanwhile)
    ts = aiotoggles.ToggleSet.__new__(aiotoggles.ToggleSet)
    ts._condition, ts._toggles, ts._fn = cond, set(), fn
    for i in range(n):
        m = aiotoggles.Toggle.__new__(aiotoggles.Toggle)
        m._condition, m._state, m._name = cond, vc.bool(f'member{i}.state@pre'), f'm{i}'
        members.append(m); ts._toggles.add(m)

    def spec_on():
        states = [m._state for m in members]
        return (And(*states) if states else True) if fn is all else (Or(*states) if states else False)
    on0 = spec_on()
    wanted_arg, wanted = _o1u_wanted(vc)
    ld_on = vc.load('kopf._cogs.aiokits.aiotoggles', 'ToggleSet.is_on')
    ts.is_on = lambda: ld_on.fn(ts)        # the real is_on (contract O1t), extracted
    ld = vc.load('kopf._cogs.aiokits.aiotoggles', 'ToggleSet.wait_for')
    vc.drive(ld.fn(ts, wanted_arg))
    waits = [ev for ev in vc.trace if ev[0] == 'wait_for']
    vc.ensure('wait_for.on_own_condition_under_lock', len(waits) == 1 and waits[0][1] is cond and waits[0][2] is True and cond.held is False)
    vc.ensure('set_wait_for.returns_only_in_wanted_aggregate', Iff(spec_on(), wanted))
    vc.ensure('wait_for.no_wait_when_already_there', Implies(Iff(on0, wanted), others['turns'] == 0))
    vc.canary('canary.always_off', Not(spec_on()))
    return ('set.wait_for', n, others['turns'])


@harness('O1u', targets=['kopf._cogs.aiokits.aiotoggles.Toggle.__init__', 'kopf._cogs.aiokits.aiotoggles.Toggle.is_on',
                         'kopf._cogs.aiokits.aiotoggles.Toggle.is_off', 'kopf._cogs.aiokits.aiotoggles.Toggle.turn_to',
                         'kopf._cogs.aiokits.aiotoggles.Toggle.wait_for', 'kopf._cogs.aiokits.aiotoggles.ToggleSet.wait_for'],
         props=['C13', 'C17', 'C09', 'C19', 'C01', 'C03', 'C14'],
         clauses=['toggle.init', 'toggle.is_on_is_off', 'turn_to.sets_state', 'turn_to.notifies_under_lock', 'wait_for.on_own_condition_under_lock',
                  'wait_for.returns_only_in_wanted_state', 'wait_for.no_wait_when_already_there',
                  'set_wait_for.returns_only_in_wanted_aggregate'],
         canaries=['canary.always_off'],
         trusted=['asyncio.Condition by contract (see _CondStub)', 'ToggleSet.is_on by contract O1t (the real method is used)',
                  'members bounded by 2 (is_on iterates the member set natively)'])
def O1u(vc):
    """
    The waiting side of the toggles behind the operator pause (C13: `conflicts_found` / `operator_paused`, fn=any) and the
    index gate (C17: `operator_indexed`, fn=all) -- the ToggleStub / GhostToggleSet contracts used by P1, W2, Q7, H6, O1.
      Toggle.__init__     off by default, otherwise bool(initial); waits/notifies on the condition it is given (its owning
                          set's, so that the set's waiters hear its turns) or else on one of its own; name kept
      Toggle.is_on/is_off the state / its negation
      Toggle.turn_to(s)   state := bool(s), and all waiters are notified while the condition is held
      Toggle.wait_for(s)  waits, holding its condition, and returns only when the state equals bool(s) -- whatever other tasks
                          did to the toggle meanwhile; no waiting at all when it is in that state already
      ToggleSet.wait_for(s)   the same for the aggregated state fn(member states) of 0..2 members, fn in {all, any}
    """
    if vc.nondet(2, 'a toggle / a toggle set') == 0:
        return _o1u_toggle(vc)
    return _o1u_set(vc)
