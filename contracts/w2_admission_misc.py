"""Second-wave contracts (builder w2e): more of the functions the properties depend on.

  S6   aioenums.FlagSetter / FlagWaiter family (= stoppers.DaemonStopper)                       C09
  M6   handlers.WebhookHandler.operation (deprecated accessor)                                  C18
"""
import asyncio
import collections.abc
import itertools

from pyvc import *
from pyvc.bounded import bounded
from pyvc.stubs import Opaque, NullLogger, Clock, StubLoop
from kopf._core.intents import causes, handlers, stoppers

SR = stoppers.DaemonStoppingReason
SR_MEMBERS = list(SR)


class _Super:
    """`super()` inside an extracted method (no __class__ cell there): object.__init__ does nothing."""
    def __init__(self, *a, **kw):
        pass


def _escapes(e):
    """Engine-internal exceptions must never be swallowed by a harness' `except`."""
    return isinstance(e, (PathEnd, Unsupported))


# =============================================================================================== S6
class SymFlag:
    """
    A value of an enum.Flag type by contract: a set of member bits.  `a | b` is the union, `a in b` is
    "every bit of a is a bit of b" (enum.Flag.__contains__), nothing else is offered.  In concrete mode the harness
    uses the REAL DaemonStoppingReason values instead (see mk_flag), so the CPython cross-check of every path
    validates this model against enum.Flag itself.
    """
    def __init__(self, bits):
        self.bits = dict(bits)

    def __or__(self, o):
        if not isinstance(o, SymFlag):
            return NotImplemented
        return SymFlag({r: Or(self.bits[r], o.bits[r]) for r in SR_MEMBERS})
    __ror__ = __or__

    def __and__(self, o):
        if not isinstance(o, SymFlag):
            return NotImplemented
        return SymFlag({r: And(self.bits[r], o.bits[r]) for r in SR_MEMBERS})
    __rand__ = __and__

    def __xor__(self, o):
        if not isinstance(o, SymFlag):
            return NotImplemented
        return SymFlag({r: Not(Iff(self.bits[r], o.bits[r])) for r in SR_MEMBERS})
    __rxor__ = __xor__

    def __invert__(self):
        return SymFlag({r: Not(self.bits[r]) for r in SR_MEMBERS})

    def __contains__(self, o):
        if not isinstance(o, SymFlag):
            raise TypeError('unsupported operand type for `in`')
        return And(*[Implies(o.bits[r], self.bits[r]) for r in SR_MEMBERS])

    def __bool__(self):
        return bool(Or(*self.bits.values()))

    def __repr__(self):
        return '<flags>'


def mk_flag(vc, name):
    """An arbitrary NON-EMPTY combination of DaemonStoppingReason members (all 255 of them)."""
    bits = {r: vc.bool(f'{name}.{r.name}') for r in SR_MEMBERS}
    vc.assume(Or(*bits.values()), 'a reason is a non-empty combination of members')
    if vc.concrete:
        v = SR(0)
        for r, b in bits.items():
            if b:
                v = v | r
        return v
    return SymFlag(bits)


def flag_has(flag, r):
    """member r is raised in `flag` (None = no reason at all)"""
    if flag is None:
        return False
    if isinstance(flag, SymFlag):
        return flag.bits[r]
    return r in flag


def flag_subset(a, b):
    return And(*[Implies(flag_has(a, r), flag_has(b, r)) for r in SR_MEMBERS])


class _Ev:
    """threading.Event / asyncio.Event by contract: a boolean cell; set() raises it; clear() lowers it (recorded)."""
    def __init__(self, vc, name, state=False):
        self.vc, self.name, self.state = vc, name, state
        self.sets = self.clears = 0
        self.waits = []

    def is_set(self):
        return self.state

    def set(self):
        self.sets += 1
        self.state = True

    def clear(self):
        self.clears += 1
        self.state = False

    def wait(self, timeout=None):       # the sync flavour (threading.Event.wait); the async one is never awaited here
        self.waits.append(timeout)
        return self.state


def _s6_setter(vc, clock):
    """An arbitrary reachable FlagSetter state: (event, when, reason) under the class invariant."""
    from kopf._cogs.aiokits import aioenums
    ev0 = vc.bool('event@pre')
    when0 = vc.opt('when@pre', vc.real)
    reason0 = mk_flag(vc, 'reason@pre') if vc.nondet(2, 'reason@pre: None / some flags') == 1 else None
    vc.assume(ev0 if when0 is not None else Not(ev0), 'class invariant: when is not None <=> the events are set')
    if reason0 is not None:
        vc.assume(ev0, 'class invariant: a reason is recorded only by set(), which raises the events')
    me = aioenums.FlagSetter.__new__(aioenums.FlagSetter)
    me.when, me.reason = when0, reason0
    me.sync_event, me.async_event = _Ev(vc, 'sync', ev0), _Ev(vc, 'async', ev0)
    me.sync_waiter, me.async_waiter = aioenums.SyncFlagWaiter(me), aioenums.AsyncFlagWaiter(me)
    return me, ev0, when0, reason0


def _s6_set(vc):
    clock = Clock()
    me, ev0, when0, reason0 = _s6_setter(vc, clock)
    ld_is = vc.load('kopf._cogs.aiokits.aioenums', 'FlagSetter.is_set')
    ld_set = vc.load('kopf._cogs.aiokits.aioenums', 'FlagSetter.set',
                     stubs={'asyncio.get_running_loop': lambda: StubLoop(clock)})
    q = mk_flag(vc, 'query') if vc.nondet(2, 'is_set(): any reason / a specific one') == 1 else None
    r = mk_flag(vc, 'reason') if vc.nondet(2, 'set(): no reason / a reason') == 1 else None
    # ---- is_set before
    before = ld_is.fn(me) if q is None else ld_is.fn(me, q) if vc.nondet(2, 'positional / keyword') == 0 else ld_is.fn(me, reason=q)
    spec_before = ev0 if q is None else And(ev0, reason0 is not None, flag_subset(q, reason0))
    vc.ensure('is_set_any_vs_specific', Iff(before, spec_before))
    vc.canary('canary.never_set', Not(before))
    vc.ensure('is_set_is_pure', me.when is when0 and me.reason is reason0 and me.sync_event.sets + me.async_event.sets == 0
              and me.sync_event.clears + me.async_event.clears == 0)
    # ---- set(r)
    now = clock.now
    if r is None:
        ld_set.fn(me)
    else:
        ld_set.fn(me, r) if vc.nondet(2, 'positional / keyword') == 0 else ld_set.fn(me, reason=r)
    vc.ensure('set_raises_both_events', And(me.sync_event.state, me.async_event.state))
    vc.ensure('set_raises_both_events', me.sync_event.sets >= 1 and me.async_event.sets >= 1
              and me.sync_event.clears + me.async_event.clears == 0)
    vc.ensure('first_set_time_kept', Eq(me.when, now) if when0 is None else Eq(me.when, when0))
    vc.ensure('first_set_time_kept', me.when is not None)
    for m in SR_MEMBERS:      # the recorded reasons are exactly the old ones plus the new ones: OR-ed, never cleared
        vc.ensure('reasons_accumulate', Iff(flag_has(me.reason, m), Or(flag_has(reason0, m), flag_has(r, m))))
    vc.ensure('reasons_accumulate', (me.reason is None) == (reason0 is None and r is None))
    # ---- is_set after
    after = ld_is.fn(me) if q is None else ld_is.fn(me, reason=q)
    union_has_q = True if q is None else And(*[Implies(flag_has(q, m), Or(flag_has(reason0, m), flag_has(r, m))) for m in SR_MEMBERS])
    vc.ensure('is_set_any_vs_specific', Iff(after, union_has_q if q is None or not (reason0 is None and r is None) else False))
    vc.ensure('never_cleared', Implies(before, after))
    vc.canary('canary.always_matches', after)
    return ('set', before, after)


def _s6_init(vc):
    from kopf._cogs.aiokits import aioenums
    made = []

    def mk_event(kind):
        def make():
            made.append(_Ev(vc, kind))
            return made[-1]
        return make
    ld = vc.load('kopf._cogs.aiokits.aioenums', 'FlagSetter.__init__',
                 stubs={'threading.Event': mk_event('sync'), 'asyncio.Event': mk_event('async'), 'super': _Super})
    me = aioenums.FlagSetter.__new__(aioenums.FlagSetter)
    ld.fn(me)
    ld_is = vc.load('kopf._cogs.aiokits.aioenums', 'FlagSetter.is_set')
    q = mk_flag(vc, 'query') if vc.nondet(2, 'is_set(): any reason / a specific one') == 1 else None
    vc.ensure('fresh_is_unset', me.when is None and me.reason is None)
    vc.ensure('fresh_is_unset', Not(ld_is.fn(me, q)))
    vc.ensure('fresh_is_unset', sorted(e.name for e in made) == ['async', 'sync'] and me.sync_event.name == 'sync'
              and me.async_event.name == 'async' and not me.sync_event.state and not me.async_event.state)
    vc.ensure('waiters_reflect_setter', isinstance(me.sync_waiter, aioenums.SyncFlagWaiter) and me.sync_waiter._setter is me
              and isinstance(me.async_waiter, aioenums.AsyncFlagWaiter) and me.async_waiter._setter is me)
    vc.canary('canary.always_matches', ld_is.fn(me))
    return ('init',)


class _Timeout(Exception):
    pass


def _s6_waiters(vc):
    from kopf._cogs.aiokits import aioenums
    clock = Clock()
    me, ev0, when0, reason0 = _s6_setter(vc, clock)
    ld_is = vc.load('kopf._cogs.aiokits.aioenums', 'FlagSetter.is_set')
    me_is_set = lambda reason=None: ld_is.fn(me, reason)
    kind = vc.nondet(2, 'waiter: sync / async')
    w = me.sync_waiter if kind == 0 else me.async_waiter
    # the waiter's view goes through the REAL setter methods extracted above
    proxy = Opaque('setter-view', is_set=me_is_set, reason=me.reason, sync_event=me.sync_event, async_event=me.async_event)
    wself = Opaque('waiter', _setter=proxy)
    ld_b = vc.load('kopf._cogs.aiokits.aioenums', 'FlagWaiter.__bool__')
    ld_w = vc.load('kopf._cogs.aiokits.aioenums', 'FlagWaiter.is_set')
    ld_r = vc.load('kopf._cogs.aiokits.aioenums', 'FlagWaiter.reason')
    vc.ensure('waiters_reflect_setter', Iff(ld_b.fn(wself), ev0))
    vc.ensure('waiters_reflect_setter', Iff(ld_w.fn(wself), ev0))
    vc.ensure('waiters_reflect_setter', ld_r.fn(wself) is reason0)
    vc.canary('canary.never_set', Not(ld_b.fn(wself)))
    timeout = vc.opt('timeout', vc.real)
    if kind == 0:
        ld = vc.load('kopf._cogs.aiokits.aioenums', 'SyncFlagWaiter.wait')
        got = ld.fn(wself, timeout) if vc.nondet(2, 'positional / keyword') == 0 else ld.fn(wself, timeout=timeout)
        vc.ensure('sync_wait_blocks_on_the_event', got is wself and len(me.sync_event.waits) == 1
                  and (me.sync_event.waits[0] is timeout if timeout is None else Eq(me.sync_event.waits[0], timeout)))
        return ('sync-wait',)
    # async: wait(timeout) gives an awaitable that waits for the ASYNC event for at most `timeout` and then yields the
    # original waiter, whether the flag was raised or the time ran out; a cancellation propagates
    ld = vc.load('kopf._cogs.aiokits.aioenums', 'AsyncFlagWaiter.wait')
    promise = ld.fn(w, timeout) if vc.nondet(2, 'positional / keyword') == 0 else ld.fn(w, timeout=timeout)
    vc.ensure('async_wait_returns_waiter', isinstance(promise, aioenums.AsyncFlagPromise) and promise._waiter is w
              and promise._setter is me and (promise._timeout is timeout if timeout is None else Eq(promise._timeout, timeout)))
    waited = []

    async def ev_wait():
        waited.append('async_event.wait')
        await suspend('event.wait')
    me.async_event.wait = ev_wait
    outcome = ['set', 'timeout', 'cancelled'][vc.nondet(3, 'the wait ends by: flag set / timeout / cancellation')]

    def wait_for(aw, timeout=None):
        return ('wait_for', aw, timeout)

    class Task:
        def __init__(self, spec): self.spec = spec
        def __iter__(self):
            _, aw, t = self.spec
            vc.ensure('async_wait_returns_waiter', t is timeout if timeout is None else Eq(t, timeout))
            inner = aw.__await__()
            try:
                yield from inner
            finally:
                inner.close()
            if outcome == 'timeout':
                raise asyncio.TimeoutError()
            if outcome == 'cancelled':
                raise asyncio.CancelledError()
            return True
        __await__ = __iter__

    def create_task(coro, name=None):
        return Task(coro)
    ld_a = vc.load('kopf._cogs.aiokits.aioenums', 'AsyncFlagPromise.__await__',
                   stubs={'asyncio.wait_for': wait_for, 'asyncio.create_task': create_task})

    class Awaitable:
        def __await__(self): return ld_a.fn(promise)

    async def run():
        return await Awaitable()
    raised = got = None
    try:
        got = vc.drive(run())
    except asyncio.CancelledError as e:
        raised = e
    vc.ensure('async_wait_returns_waiter', waited == ['async_event.wait'])
    vc.ensure('async_wait_returns_waiter', (raised is not None and got is None) if outcome == 'cancelled' else (got is w and raised is None))
    return ('async-wait', outcome)


@harness('S6', targets=['kopf._cogs.aiokits.aioenums.FlagSetter.__init__', 'kopf._cogs.aiokits.aioenums.FlagSetter.is_set',
                        'kopf._cogs.aiokits.aioenums.FlagSetter.set', 'kopf._cogs.aiokits.aioenums.FlagWaiter.__bool__',
                        'kopf._cogs.aiokits.aioenums.FlagWaiter.is_set', 'kopf._cogs.aiokits.aioenums.FlagWaiter.reason',
                        'kopf._cogs.aiokits.aioenums.SyncFlagWaiter.wait', 'kopf._cogs.aiokits.aioenums.AsyncFlagWaiter.wait',
                        'kopf._cogs.aiokits.aioenums.AsyncFlagPromise.__await__'],
         props=['C09'],
         clauses=['fresh_is_unset', 'is_set_any_vs_specific', 'is_set_is_pure', 'set_raises_both_events', 'first_set_time_kept',
                  'reasons_accumulate', 'never_cleared', 'waiters_reflect_setter', 'sync_wait_blocks_on_the_event',
                  'async_wait_returns_waiter'],
         canaries=['canary.never_set', 'canary.always_matches'],
         trusted=['enum.Flag: `a | b` is the union of the member bits, `a in b` is bit inclusion (SymFlag; the concrete '
                  're-run of every path uses the real DaemonStoppingReason values)',
                  'threading.Event / asyncio.Event: a boolean cell (set / is_set / wait)',
                  'asyncio.wait_for(aw, timeout) raises TimeoutError when the time runs out; awaiting a task re-raises its outcome',
                  'asyncio.get_running_loop().time(): the ghost clock'])
def S6(vc):
    """
    stoppers.DaemonStopper = aioenums.FlagSetter[DaemonStoppingReason] -- the contract every daemon/timer contract of C09
    relies on (contracts/c09_daemons.py: SymStopper), here discharged on the real class.  State: the two events (always
    equal: class invariant), `when`, `reason`; the arbitrary pre-state satisfies  when is not None <=> events set, and
    reason is not None ==> events set (both established by __init__ and preserved by set(), which is proved here).
      fresh_is_unset            __init__: when/reason None, two fresh un-set events, is_set(q) False for every q
      is_set_any_vs_specific    is_set(None) <=> events set;  is_set(q) <=> events set and every member of q was given
                                as a reason before (q: ANY non-empty combination of the 8 members, symbolic bits)
      is_set_is_pure            is_set changes nothing
      set_raises_both_events    after set(r) the sync AND the async event are set; nothing is ever cleared
      first_set_time_kept       `when` is the loop time of the FIRST set() and is never moved by later ones
      reasons_accumulate        reason' = reason | r member by member (set(None) keeps what was there; None only if both None)
      never_cleared             is_set(q) before set(r)  ==>  is_set(q) after it
      waiters_reflect_setter    bool(waiter) == waiter.is_set() == setter.is_set(); waiter.reason is setter.reason;
                                sync_waiter/async_waiter are bound to their setter
      sync_wait_blocks_on_the_event   SyncFlagWaiter.wait(t) waits on the sync event with that timeout, returns itself
      async_wait_returns_waiter `await async_waiter.wait(t)` waits for the async event for at most t and yields the original
                                waiter both when the flag is raised and on timeout; a cancellation propagates
    """
    k = vc.nondet(3, 'scenario: init / is_set+set / waiters')
    if k == 0:
        return _s6_init(vc)
    if k == 1:
        return _s6_set(vc)
    return _s6_waiters(vc)


# =============================================================================================== M6
OPS = ('CREATE', 'UPDATE', 'DELETE', 'CONNECT')
WT = causes.WebhookType


def _all_op_collections():
    """None, the empty collections, and every non-empty subset of the four operations as list / tuple / frozenset."""
    out = [None, [], (), frozenset()]
    for n in range(1, 5):
        for i, c in enumerate(itertools.combinations(OPS, n)):
            out.append([list(c), tuple(c), frozenset(c)][(i + n) % 3])
    return out


M6_OPERATIONS = _all_op_collections()


@harness('M6', targets='kopf._core.intents.handlers.WebhookHandler.operation', props=['C18'],
         clauses=['none_when_unset', 'the_only_one', 'ambiguous_raises', 'warns_deprecated'],
         canaries=['canary.never_raises', 'canary.always_none'],
         trusted=['warnings.warn by contract: records (message, category)'])
def M6(vc):
    """
    WebhookHandler.operation (deprecated read accessor of `operations`): None when no operation is declared (None or an
    empty collection = "all operations", docs/admission.rst), the operation itself when exactly one is declared, and a
    ValueError -- never an arbitrary pick -- when several are; a DeprecationWarning is issued on every access.
    Domain: None, [], (), frozenset(), every non-empty subset of the four operations (as list/tuple/frozenset).
    """
    ops = resolve(vc.fin('operations', M6_OPERATIONS))
    h = Opaque('handler', operations=ops)
    warned = []
    ld = vc.load('kopf._core.intents.handlers', 'WebhookHandler.operation',
                 stubs={'warnings.warn': lambda msg, cat=UserWarning, *a, **kw: warned.append((msg, cat))})
    raised = got = None
    try:
        got = ld.fn(h)
    except ValueError as e:
        raised = e
    n = 0 if ops is None else len(ops)
    vc.ensure('none_when_unset', Implies(n == 0, raised is None and got is None))
    vc.ensure('the_only_one', Implies(n == 1, raised is None and got is not None and got in OPS and got in (ops or ())))
    vc.ensure('the_only_one', Implies(got is not None, n == 1))
    vc.ensure('ambiguous_raises', (raised is not None) == (n > 1))
    vc.ensure('warns_deprecated', len(warned) == 1 and warned[0][1] is DeprecationWarning)
    vc.canary('canary.never_raises', raised is None)
    vc.canary('canary.always_none', got is None)
    return ('operation', got, type(raised).__name__)


# =============================================================================================== M3
from kopf._core.engines import admission          # noqa: E402
from kopf._core.intents import filters           # noqa: E402
from kopf._cogs.structs import references        # noqa: E402

RES = references.Resource
M3_UNIVERSE = [RES('kopf.dev', 'v1', 'kopfexamples', preferred=True), RES('kopf.dev', 'v1beta1', 'kopfexamples', preferred=False),
               RES('', 'v1', 'pods'), RES('metrics.k8s.io', 'v1beta1', 'pods')]
M3_SUBSETS = [frozenset(c) for n in range(5) for c in itertools.combinations(range(4), n)]
F_SUBRESOURCE_STAR = 'F-C18-5'


def _m3_find_real(vc):
    """find_resource with the REAL references.Selector over a universe of 4 resources (two versions of one kind, a
    core-v1 kind and its namesake in another group): every subset served, every (group, version, plural) asked."""
    served = {M3_UNIVERSE[i] for i in resolve(vc.fin('webhook_resources', M3_SUBSETS))}
    group = resolve(vc.fin('group', ['kopf.dev', '', 'metrics.k8s.io', 'other.dev']))
    version = resolve(vc.fin('version', ['v1', 'v1beta1']))
    plural = resolve(vc.fin('resource', ['kopfexamples', 'pods']))
    request = {'request': {'uid': 'u', 'resource': {'group': group, 'version': version, 'resource': plural}}}
    insights = Opaque('insights', webhook_resources=served, watched_resources={M3_UNIVERSE[0], M3_UNIVERSE[2]},
                      indexed_resources=set(M3_UNIVERSE))
    ld = vc.load('kopf._core.engines.admission', 'find_resource')
    got = raised = None
    try:
        got = ld.fn(request=request, insights=insights)
    except admission.WebhookError as e:
        raised = e
    wanted = [r for r in served if (r.group, r.version, r.plural) == (group, version, plural)]
    vc.ensure('found_by_group_version_plural', (got is wanted[0] and raised is None) if wanted else got is None)
    vc.ensure('unknown_resource_error', isinstance(raised, admission.UnknownResourceError) if not wanted else raised is None)
    vc.canary('canary.always_found', raised is None)
    return ('find', len(served), type(raised).__name__)


def _m3_find_contract(vc):
    """find_resource against the CONTRACT of Selector.select (any sub-collection of any size)."""
    n = vc.nondet(4, 'how many resources the selector selects')
    selected = [Opaque(f'resource{i}') for i in range(n)]
    shape = vc.nondet(3, 'the selection is a set / list / tuple')
    result = [set, list, tuple][shape](selected)
    made = []

    class Selector:
        def __init__(self, *a, **kw):
            made.append(self)
            self.a, self.kw = a, kw

        def select(self, resources):
            self.selected_from = resources
            return result
    group, version, plural = vc.str('group'), vc.str('version'), vc.str('resource')
    served = Opaque('webhook_resources')
    request = {'request': {'uid': 'u', 'resource': {'group': group, 'version': version, 'resource': plural}}}
    insights = Opaque('insights', webhook_resources=served, watched_resources=Opaque('watched'), indexed_resources=Opaque('indexed'))
    ld = vc.load('kopf._core.engines.admission', 'find_resource', stubs={'references.Selector': Selector})
    got = raised = None
    try:
        got = ld.fn(request=request, insights=insights)
    except admission.WebhookError as e:
        raised = e
    vc.ensure('found_by_group_version_plural', len(made) == 1 and not made[0].a and sorted(made[0].kw) == ['group', 'plural', 'version'])
    kw = made[0].kw
    vc.ensure('found_by_group_version_plural', And(Eq(kw['group'], group), Eq(kw['version'], version), Eq(kw['plural'], plural)))
    vc.ensure('found_by_group_version_plural', made[0].selected_from is served)
    vc.ensure('found_by_group_version_plural', (got is selected[0] and raised is None) if n == 1 else got is None)
    vc.ensure('unknown_resource_error', isinstance(raised, admission.UnknownResourceError) == (n == 0))
    vc.ensure('ambiguous_resource_error', isinstance(raised, admission.AmbiguousResourceError) == (n > 1))
    vc.canary('canary.always_found', raised is None)
    return ('find-by-contract', n, type(raised).__name__)


def _callback(value, *a, **kw):
    return True


class _Labels(collections.abc.Mapping):
    """A Mapping[str, criterion] with symbolic keys (an association list with pairwise distinct keys; dict semantics
    for iteration order, emptiness and lookup)."""
    def __init__(self):
        self.pairs = []

    def __iter__(self):
        return iter([k for k, _ in self.pairs])

    def __len__(self):
        return len(self.pairs)

    def __getitem__(self, key):
        for k, v in self.pairs:
            if k is key or bool(Eq(k, key)):
                return v
        raise KeyError(key)

    def items(self):
        return list(self.pairs)


def _m3_labels(vc):
    """_build_labels_selector over None / {} / 1..3 criteria with symbolic keys and every kind of criterion."""
    PRESENT, ABSENT = filters.MetaFilterToken.PRESENT, filters.MetaFilterToken.ABSENT
    n = vc.nondet(5, 'labels: None / {} / 1..3 criteria')
    labels, spec = (None if n == 0 else _Labels()), []
    for i in range(max(0, n - 1)):
        key = vc.str(f'key{i}')
        for k in labels:
            vc.assume(Not(Eq(k, key)), 'mapping keys are distinct')
        kind = vc.nondet(4, f'criterion{i}: value / PRESENT / ABSENT / callback')
        if kind == 0:
            val = vc.str(f'value{i}')           # any string, the empty one included
            spec.append((key, 'In', val))
        elif kind == 1:
            val = PRESENT
            spec.append((key, 'Exists', None))
        elif kind == 2:
            val = ABSENT
            spec.append((key, 'DoesNotExist', None))
        else:
            val = _callback if vc.nondet(2, 'callback: function / lambda') == 0 else (lambda value, **_: False)
        labels.pairs.append((key, val))
    ld = vc.load('kopf._core.engines.admission', '_build_labels_selector')
    snapshot = None if labels is None else list(labels.pairs)
    got = ld.fn(labels)
    vc.ensure('labels.input_untouched', labels is None or (len(labels.pairs) == len(snapshot)
                                                           and all(a[0] is b[0] and a[1] is b[1] for a, b in zip(labels.pairs, snapshot))))
    vc.ensure('labels.none_when_nothing_expressible', (got is None) == (not spec))
    vc.canary('canary.always_selector', got is not None)
    if got is None:
        return ('labels', n, None)
    vc.ensure('labels.criteria_as_expressions', isinstance(got, dict) and list(got) == ['matchExpressions']
              and isinstance(got['matchExpressions'], (list, tuple)) and len(got['matchExpressions']) == len(spec))
    for e, (key, op, val) in zip(got['matchExpressions'], spec):
        vc.ensure('labels.criteria_as_expressions', isinstance(e, dict) and Eq(e.get('key'), key) and e.get('operator') == op)
        if op == 'In':
            vals = e.get('values')
            vc.ensure('labels.criteria_as_expressions', isinstance(vals, (list, tuple)) and len(vals) == 1 and Eq(vals[0], val))
        else:       # Kubernetes: "values" must be empty for Exists / DoesNotExist
            vc.ensure('labels.criteria_as_expressions', not e.get('values'))
    vc.ensure('labels.callbacks_omitted', len(got['matchExpressions']) == len(spec))
    return ('labels', n, len(got['matchExpressions']))


M3_OPERATIONS = [None, [], ['UPDATE', 'DELETE'], frozenset({'CONNECT'})]
TRI = [None, False, True]


def fin_truthy(x):
    """truthiness of a value drawn with vc.fin, as a formula over its alternatives (no case split)"""
    if isinstance(x, SFin):
        from pyvc.values import _UNRESOLVED
        return bool(x._chosen) if x._chosen is not _UNRESOLVED else x._where(bool)
    return bool(x)


def _m3_handler(vc, tag, selector, *, full):
    return handlers.WebhookHandler(
        id=f'{tag}/fn_x', fn=Opaque('fn'), param=None, errors=None, timeout=None, retries=None, backoff=None,
        selector=selector, labels=Opaque(f'{tag}.labels'), annotations=None, when=None, field=None, value=None,
        reason=WT.VALIDATING,
        operations=vc.fin(f'{tag}.operations', M3_OPERATIONS) if full else ['UPDATE', 'DELETE'],
        subresource=vc.opt(f'{tag}.subresource', vc.str) if full else 'status',
        persistent=vc.fin(f'{tag}.persistent', TRI),
        side_effects=vc.fin(f'{tag}.side_effects', TRI) if full or tag == 'A' else True,
        ignore_failures=vc.fin(f'{tag}.ignore_failures', TRI) if full else None)


def _m3_webhooks(vc):
    n_handlers = vc.nondet(3, '#handlers')
    n_res = vc.nondet(3, '#resources') if n_handlers == 1 else 1
    resources = [RES(vc.str(f'res{j}.group'), vc.str(f'res{j}.version'), vc.str(f'res{j}.plural')) for j in range(n_res)]
    matches, hs = {}, []

    def mk_selector(tag):
        if vc.nondet(2, f'{tag}.selector: None / a selector') == 0:
            return None
        m = matches[tag] = [vc.bool(f'{tag}.selector.check(res{j})') for j in range(n_res)]
        return Opaque(f'{tag}.selector', check=lambda r: m[[k for k, x in enumerate(resources) if x is r][0]])
    if n_handlers >= 1:
        hs.append(_m3_handler(vc, 'A', mk_selector('A'), full=n_handlers == 1))
    if n_handlers == 2:        # two handlers: what decides presence, order and independence varies; the rest is fixed
        hs.insert(vc.nondet(2, 'B after / before A'), _m3_handler(vc, 'B', mk_selector('B'), full=False))
    persistent_only = [None, False, True][vc.nondet(3, 'persistent_only: default / False / True')]
    suffix = vc.str('name_suffix')
    client_config = Opaque('client_config')
    names, configs, selectors = {}, {}, {}

    def _normalize_name(id, suffix=None, **kw):
        names[id] = Opaque(f'normalized-name({id})', args=(id, suffix, kw)); return names[id]

    def _inject_handler_id(config, id):
        configs[id] = Opaque(f'client-config-for({id})', args=(config, id)); return configs[id]

    def _build_labels_selector(labels):
        selectors[id(labels)] = Opaque('labels-selector', args=labels); return selectors[id(labels)]
    vc.used('admission._normalize_name / _inject_handler_id', 'M4'); vc.used('admission._build_labels_selector', 'M3 (scenario labels)')
    ld = vc.load('kopf._core.engines.admission', 'build_webhooks', stubs={
        '_normalize_name': _normalize_name, '_inject_handler_id': _inject_handler_id, '_build_labels_selector': _build_labels_selector})
    kw = {} if persistent_only is None else {'persistent_only': persistent_only}
    got = ld.fn(iter(hs) if persistent_only is None else hs,        # any iterable: a one-shot one as well
                resources=resources, name_suffix=suffix, client_config=client_config, **kw)
    # ---- one entry per registered handler, in order; on cleanup (persistent_only) only the persistent ones stay
    expected = [h for h in hs if not persistent_only or bool(fin_truthy(h.persistent))]
    vc.ensure('webhooks.one_entry_per_handler', isinstance(got, list) and len(got) == len(expected))
    vc.canary('canary.no_webhooks', len(got) == 0)
    for e, h in zip(got, expected):
        tag = h.id[0]
        vc.ensure('webhooks.one_entry_per_handler', e.get('name') is names.get(h.id) and Eq(names[h.id].args[1], suffix)
                  and names[h.id].args[0] == h.id)
        vc.ensure('webhooks.url_carries_handler_id', e.get('clientConfig') is configs.get(h.id)
                  and configs[h.id].args[0] is client_config and configs[h.id].args[1] == h.id)
        vc.ensure('webhooks.object_selector_from_labels', e.get('objectSelector') is selectors.get(id(h.labels))
                  and selectors[id(h.labels)].args is h.labels)
        vc.ensure('webhooks.policies_as_documented', e.get('sideEffects') in ('NoneOnDryRun', 'None')
                  and Iff(e.get('sideEffects') == 'NoneOnDryRun', fin_truthy(h.side_effects)))
        vc.ensure('webhooks.policies_as_documented', e.get('failurePolicy') in ('Ignore', 'Fail')
                  and Iff(e.get('failurePolicy') == 'Ignore', fin_truthy(h.ignore_failures)))
        vc.ensure('webhooks.policies_as_documented', e.get('matchPolicy') == 'Equivalent')
        t = e.get('timeoutSeconds')
        vc.ensure('webhooks.accepted_by_kubernetes', isinstance(t, int) and 1 <= t <= 30)
        arv = e.get('admissionReviewVersions')
        vc.ensure('webhooks.accepted_by_kubernetes', isinstance(arv, list) and len(arv) >= 1 and set(arv) <= {'v1', 'v1beta1'})
        # ---- rules: one per served resource the handler's selector matches
        m = matches.get(tag)
        want = [] if m is None else [(r, j) for j, r in enumerate(resources) if bool(m[j])]
        rules = e.get('rules')
        vc.ensure('webhooks.rule_per_matching_resource', isinstance(rules, list) and len(rules) == len(want))
        for rule, (r, j) in zip(rules, want):
            vc.ensure('webhooks.rule_per_matching_resource', len(rule['apiGroups']) == 1 and len(rule['apiVersions']) == 1
                      and And(Eq(rule['apiGroups'][0], r.group), Eq(rule['apiVersions'][0], r.version)))
            ops = resolve(h.operations)         # decided by now if the code looked at them at all
            vc.ensure('webhooks.rule_operations', sorted(rule['operations']) == (sorted(ops) if ops else ['*']))
            vc.ensure('webhooks.accepted_by_kubernetes', rule.get('scope') in ('*', 'Cluster', 'Namespaced'))
            got_res = rule['resources']
            sub = h.subresource
            if sub is None:
                vc.ensure('webhooks.rule_subresource', len(got_res) == 1 and Eq(got_res[0], r.plural))
            else:
                # docs/admission.rst: a named subresource -> only it; "*" -> the main body AND any subresource.
                # Kubernetes: "pods/*" are the subresources of pods only, "pods" is the main resource only.
                star = Eq(sub, '*')
                has_sub = Or(*[Eq(x, r.plural + '/' + sub) for x in got_res], False)
                has_main = Or(*[Eq(x, r.plural) for x in got_res], False)
                vc.ensure('webhooks.rule_subresource', And(has_sub, len(got_res) <= 2))
                vc.ensure('webhooks.rule_subresource', Implies(Not(star), And(len(got_res) == 1, Not(has_main))))
                vc.ensure('webhooks.rule_subresource_star_covers_main', Implies(star, has_main),
                          excuse={F_SUBRESOURCE_STAR: star})
    return ('webhooks', n_handlers, n_res, len(got))


@harness('M3', targets=['kopf._core.engines.admission.find_resource', 'kopf._core.engines.admission.build_webhooks',
                        'kopf._core.engines.admission._build_labels_selector'], props=['C18'],
         clauses=['found_by_group_version_plural', 'unknown_resource_error', 'ambiguous_resource_error',
                  'labels.none_when_nothing_expressible', 'labels.criteria_as_expressions', 'labels.callbacks_omitted', 'labels.input_untouched',
                  'webhooks.one_entry_per_handler', 'webhooks.url_carries_handler_id', 'webhooks.object_selector_from_labels',
                  'webhooks.policies_as_documented', 'webhooks.accepted_by_kubernetes', 'webhooks.rule_per_matching_resource',
                  'webhooks.rule_operations', 'webhooks.rule_subresource', 'webhooks.rule_subresource_star_covers_main'],
         canaries=['canary.always_found', 'canary.always_selector', 'canary.no_webhooks'],
         trusted=['references.Selector / Resource run natively in scenario find-real (dataclass equality and hashing)',
                  'Selector.select(resources): some sub-collection of any size (scenario find-contract)',
                  'Kubernetes admissionregistration/v1: rules[].resources "x/*" = the subresources of x only, "x" = x only; '
                  'timeoutSeconds in 1..30; matchExpressions Exists/DoesNotExist carry no values'],
         assumes=['M3 BOUNDS: webhooks: 0..2 handlers (the second one varies only in `persistent` and its selector), 0..2 served '
                  'resources with symbolic group/version/plural, symbolic subresource and name suffix; labels: 0..3 criteria '
                  'with symbolic keys/values; find-real: all subsets of a 4-resource universe'])
def M3(vc):
    """
    How reviews are routed to handlers OUTSIDE the process (the managed webhook configuration) and to a resource inside.
    find_resource: the review's request.resource {group, version, resource} names exactly one served webhook resource,
      which is returned; none => UnknownResourceError, several => AmbiguousResourceError (checked with the real Selector
      over a 4-resource universe, and against the contract of Selector.select for selections of any size).
    _build_labels_selector (docs/admission.rst "Handler options": labels go to objectSelector; everything but callbacks
      is supported): one matchExpression per non-callback criterion, in order: "value" -> In [value] (the empty string
      included), PRESENT -> Exists, ABSENT -> DoesNotExist; callbacks are omitted (they are evaluated in-process);
      nothing expressible (None, {}, callbacks only) -> None, i.e. no server-side filtering.
    build_webhooks: exactly one webhook entry per registered handler, in registration order (on cleanup,
      persistent_only=True: the persistent ones only); its name is the normalized handler id with the managed suffix (M4),
      its clientConfig is the server's config with THIS handler's id injected (M4) -- so the apiserver calls an endpoint
      that dispatches to that handler alone; objectSelector from the labels; sideEffects NoneOnDryRun iff side_effects
      else None, failurePolicy Ignore iff ignore_failures else Fail, matchPolicy Equivalent; timeoutSeconds within
      Kubernetes' 1..30 and admissionReviewVersions among those kopf parses; one rule per served resource matched by the
      handler's selector (none for selector None), carrying the resource's group/version, the declared operations or
      ["*"] when unset/empty, and the plural -- with "/<subresource>" for a named subresource.
    FINDING F-C18-5 (clause webhooks.rule_subresource_star_covers_main): docs/admission.rst promises that
      subresource="*" checks "both the main body and any subresource", but the rule says only "<plural>/*", which for
      Kubernetes means the subresources WITHOUT the main resource: with a managed configuration such a handler is never
      called for the main body.  Excused class: subresource == "*".
    """
    k = vc.nondet(4, 'scenario: find-real / find-contract / labels / webhooks')
    return [_m3_find_real, _m3_find_contract, _m3_labels, _m3_webhooks][k](vc)
