"""Contracts for the handler selection in kopf._core.intents.registries (R1) and the cause gate of
processing.process_changing_cause (H1)."""
import dataclasses

from pyvc import *
from pyvc.stubs import Opaque, NullLogger
from kopf._core.intents import causes, handlers, registries
from kopf._core.actions import execution

R = causes.Reason
HANDLER_REASONS_SPEC = (R.CREATE, R.UPDATE, R.DELETE, R.RESUME)     # from the property statement


def truthy(x):
    return x.truth() if isinstance(x, SV) else bool(x)


class Container:
    """`excluded`: an arbitrary container -- membership of the one id in play is a free boolean."""
    def __init__(self, member):
        self.member = member

    def __contains__(self, x):
        return bool(self.member)


def sym_changing_handler(vc, name='h'):
    return handlers.ChangingHandler(
        id=name, fn=Opaque('fn'), param=None, errors=None, timeout=None, retries=None, backoff=None,
        selector=None, labels=None, annotations=None, when=None, field=None, value=None,
        reason=vc.lazy(f'{name}.reason', [None] + list(R)),
        initial=vc.lazy(f'{name}.initial', [None, False, True]),
        deleted=vc.lazy(f'{name}.deleted', [None, False, True]),
        requires_finalizer=None, field_needs_change=None, old=None, new=None)


@harness('R1', targets='kopf._core.intents.registries.ChangingRegistry.iter_handlers', props=['C05', 'C14', 'C15', 'C02', 'C03', 'C04', 'C06', 'C11'],
         clauses=['selection', 'frame'], canaries=['canary.yields_all'])
def R1(vc):
    """
    For an arbitrary registered handler h (loop contract: one arbitrary iteration; the loop keeps no
    state between iterations), h is yielded iff  h.id not excluded  and  h.reason in {None, cause.reason}
    and not (h.initial and not cause.initial)  and not (h.initial and cause.deleted and not h.deleted)
    and match(h, cause).  `match` is used by contract (R4: a boolean function of handler and cause).
    """
    deleted = vc.bool('cause.deleted')

    class Cause:     # only the attributes iter_handlers may read
        reason = vc.lazy('cause.reason', list(R))
        initial = vc.bool('cause.initial')

        @property
        def deleted(self):
            return deleted
    cause = Cause()
    h = sym_changing_handler(vc)
    matched = vc.bool('match(h,cause)')
    excluded = vc.bool('h.id in excluded')
    match_calls = []

    def match(handler, cause):
        match_calls.append((handler, cause)); return matched
    vc.used('registries.match', 'R4')
    reg = registries.ChangingRegistry()
    reg._handlers = Opaque('handlers-list')
    yielded = []

    def element(loc, iterable):
        vc.ensure('frame', iterable is reg._handlers)
        if vc.nondet(2, 'exhausted?') == 0:
            from pyvc.loader import _STOP
            return _STOP
        return h

    def invariant(loc):
        return True

    def backedge_check(loc):
        # evaluated at the back edge through the invariant hook: the iteration for `h` is complete
        from pyvc.loader import vc_is
        hr, hi, hd, cr = h.reason, h.initial, h.deleted, cause.reason
        sel = And(Not(excluded),
                  Or(vc_is(hr, None), Eq(hr, cr)),
                  Not(And(truthy(hi), Not(cause.initial))),
                  Not(And(truthy(hi), deleted, Not(truthy(hd)))),
                  matched)
        if loc.get('handler') is h:
            vc.ensure('selection', Iff(len(yielded) == 1, sel))
            vc.ensure('selection', len(yielded) <= 1 and all(y is h for y in yielded))
            vc.canary('canary.yields_all', len(yielded) == 1)
            for mh, mc in match_calls:
                vc.ensure('frame', mh is h and mc is cause)
        return True
    first = [True]

    def inv(loc):
        if first[0]:
            first[0] = False
            return True
        return backedge_check(loc)
    ld = vc.load('kopf._core.intents.registries', 'ChangingRegistry.iter_handlers', stubs={'match': match},
                 loops={1: LoopSpec('for handler in self._handlers', invariant=inv, element=element)})
    for y in ld.fn(reg, cause, Container(excluded)):
        yielded.append(y)
    return ('done', len(yielded))


# ----------------------------------------------------------------------------------------------- H1
class StubState:
    """Contract stub of progression.State as seen by process_changing_cause (see G3 for the class itself):
    every derived state is a fresh abstract state with its own symbolic `done`, `delays`, `extras`."""
    def __init__(self, vc, tag, parent=None):
        self.vc, self.tag, self.parent = vc, tag, parent
        self._done = self._delays = self._extras = None
        # ghost facts carried along derivations (G3: with_purpose keeps the handler set, with_handlers the purpose)
        self.purpose_arg = getattr(parent, 'purpose_arg', None)
        self.handlers_arg = getattr(parent, 'handlers_arg', None)

    def _derive(self, tag, *a):
        s = StubState(self.vc, tag, self)
        s.derived_by = (tag, a)
        self.vc.emit('state.' + tag, self, s, a)
        return s

    def with_purpose(self, purpose, handlers=None):
        s = self._derive('with_purpose', purpose, handlers)
        s.purpose_arg = purpose
        return s

    def with_handlers(self, handlers):
        s = self._derive('with_handlers', handlers)
        s.handlers_arg = handlers
        return s
    def with_outcomes(self, outcomes): return self._derive('with_outcomes', outcomes)

    @property
    def done(self):
        if self._done is None:
            self._done = self.vc.bool(f'done[{self.tag}]')
        return self._done

    @property
    def delays(self):
        if self._delays is None:
            self._delays = self.vc.seq(f'delays[{self.tag}]', 'real')
        return self._delays

    @property
    def extras(self):
        if self._extras is None:
            self._extras = Opaque('extras', truth=self.vc.bool(f'extras-nonempty[{self.tag}]'))
            self._extras.items = lambda: self._extras
        return self._extras

    @property
    def counts(self):
        c = Opaque('counts')
        for f in ('success', 'failure', 'running'):
            n = self.vc.int(f'counts.{f}[{self.tag}]')
            self.vc.assume(n >= 0, 'a count')
            setattr(c, f, n)
        return c

    def store(self, body, patch, storage): self.vc.emit('store', self, body, patch, storage)
    def purge(self, body, patch, storage, handlers): self.vc.emit('purge', self, body, patch, storage, handlers)


@harness('H1', targets='kopf._core.reactor.processing.process_changing_cause', props=['C02', 'C03', 'C05', 'C08', 'C14', 'C13', 'C11', 'C06', 'C15', 'C16', 'C04'],
         prop_clauses={'C13': ['flag_only_set'], 'C11': ['flag_only_set', 'closure_iff_done_or_skip', 'store_before_purge', 'executes_selected_with_state', 'returns_delays', 'superseded_handlers_repurposed', 'essence_is_new'], 'C06': ['closure_iff_done_or_skip', 'gate', 'executes_selected_with_state', 'returns_delays'], 'C15': ['gate', 'executes_selected_with_state', 'closure_iff_done_or_skip', 'essence_is_new'], 'C16': ['store_before_purge'], 'C04': ['gate', 'closure_iff_done_or_skip', 'essence_is_new', 'executes_selected_with_state']},        # C13 "no handler executed twice because of the pause": the resume-once flag
         clauses=['gate', 'closure_iff_done_or_skip', 'store_before_purge', 'essence_is_new', 'flag_only_set',
                  'returns_delays', 'executes_selected_with_state', 'superseded_handlers_repurposed', 'results_delivered'],
         canaries=['canary.always_closes'],
         trusted=['progression.State (with_purpose/with_handlers/with_outcomes/done/delays/extras/store/purge) by contract G3/G4',
                  'execution.execute_handlers_once by contract X2', 'registry.get_handlers by contract R1'])
def H1(vc):
    """
    process_changing_cause: handlers are fetched/executed only for create/update/delete/resume causes;
    the cycle is closed (final purge, last-handled state := cause.new, fully_handled_once := True)
    exactly when the post-execution state is done or no handler was selected; store precedes purge.
    """
    from kopf._core.reactor import processing
    cr = vc.fin('cause.reason', list(R))
    A, B = {'spec': 'a'}, {'spec': 'b'}
    E_ = {}      # an EMPTY essence is a stored/built state too (falsy, not None)
    oldnew = vc.fin('old/new', [(None, A), (A, A), (A, B), (A, None), (None, None), (E_, A), (A, E_), (E_, {}), (None, E_)])
    diffv = vc.fin('diff', [(), (('change', ('spec',), 'a', 'b'),)])
    body, patch, resource = Opaque('body'), Opaque('patch'), Opaque('resource')

    class Cause:
        logger = NullLogger()
        reason = cr
        @property
        def old(self): return resolve(oldnew)[0]
        @property
        def new(self): return resolve(oldnew)[1]
        @property
        def diff(self): return resolve(diffv)
    Cause.patch, Cause.body, Cause.resource = patch, body, resource
    cause = Cause()
    owned = Opaque('owned_handlers', truth=vc.bool('owned-nonempty'))
    selected = Opaque('cause_handlers', truth=vc.bool('selected-nonempty'))
    storage, diffbase = Opaque('progress_storage'), Opaque('diffbase_storage')
    diffbase.store = lambda **kw: vc.emit('diffbase.store', kw)
    settings = Opaque('settings', persistence=Opaque('persistence', progress_storage=storage, diffbase_storage=diffbase))
    changing = Opaque('registry._changing')
    changing.get_resource_handlers = lambda resource: (vc.emit('get_resource_handlers', resource), owned)[1]
    changing.get_handlers = lambda cause: (vc.emit('get_handlers', cause), selected)[1]
    registry = Opaque('registry', _changing=changing)
    fh0 = vc.bool('memory.fully_handled_once@pre')
    memory = Opaque('memory', fully_handled_once=fh0)
    lifecycle = Opaque('lifecycle')
    s0 = StubState(vc, 'from_storage')
    outcomes = Opaque('outcomes')
    exec_raises = [False]

    async def execute_handlers_once(**kw):
        vc.emit('execute', kw)
        await suspend('execute_handlers_once')
        if vc.nondet(2, 'execute raises?') == 1:
            exec_raises[0] = True
            raise RuntimeError('any exception out of execute_handlers_once')
        return outcomes

    class StateCls:
        @staticmethod
        def from_storage(body, storage, handlers):
            vc.emit('from_storage', body, storage, handlers); return s0
    loop_state = []

    def havoc(loc):
        s = StubState(vc, f'repurposed')
        s.purpose_arg, s.handlers_arg = cr, selected           # by the invariant below
        loop_state.append(s)
        return {'state': s}

    def at_back(loc):
        # a superseded cause's handlers that are still selected are re-purposed to the current cause, so that
        # their progress is re-written by the store that follows the pre-purge (State.store only writes records
        # that changed): a finished handler must not lose its record while the cycle is still open (C02, C14)
        new = loc.get('state')
        head = loop_state[-1]
        found, cur = False, new
        while isinstance(cur, StubState) and cur is not head:        # the lineage from the loop-head state
            how = getattr(cur, 'derived_by', None)
            if how is not None and how[0] == 'with_purpose' and how[1][0] is cr and how[1][1] is selected:
                found = True
            cur = cur.parent
        vc.ensure('superseded_handlers_repurposed', isinstance(new, StubState) and cur is head and found)

    def element(loc, iterable):
        from pyvc.loader import _STOP
        # what is iterated are the extras of a progress state (the anchor leaves the expression open on purpose)
        vc.ensure('superseded_handlers_repurposed', getattr(iterable, '_name', None) == 'extras')
        if vc.nondet(2, 'extras exhausted?') == 0:
            return _STOP
        return (vc.fin('extra_purpose', ['create', 'update', 'delete', 'resume', 'weird']), Opaque('counters', success=0, failure=0, running=0))
    ld = vc.load('kopf._core.reactor.processing', 'process_changing_cause', stubs={
        'progression.State': StateCls,
        'progression.deliver_results': lambda **kw: vc.emit('deliver_results', kw),
        'execution.execute_handlers_once': execute_handlers_once,
    }, loops={1: LoopSpec('for extra_purpose, counters in',
                          invariant=lambda loc: isinstance(loc.get('state'), StubState) and loc['state'].purpose_arg is cr
                          and loc['state'].handlers_arg is selected, havoc=havoc, element=element,
                          at_backedge=at_back)})
    raised = None
    try:
        result = vc.drive(ld.fn(lifecycle=lifecycle, registry=registry, settings=settings, memory=memory, cause=cause))
    except RuntimeError as e:
        raised = e
        result = None
    tr = vc.trace
    names = [ev[0] for ev in tr]
    is_handler_reason = Or(*[Eq(cr, r) for r in HANDLER_REASONS_SPEC])
    fetched = 'get_handlers' in names
    executed = 'execute' in names
    # gate (C05): handlers fetched/executed only for the four handler reasons
    vc.ensure('gate', Implies(fetched or executed, is_handler_reason))
    vc.ensure('gate', Implies(is_handler_reason, fetched))
    # what was executed: exactly the selected handlers, against the state built from storage for this purpose
    for ev in tr:
        if ev[0] == 'execute':
            kw = ev[1]
            vc.ensure('executes_selected_with_state', kw['handlers'] is selected and kw['cause'] is cause
                      and isinstance(kw['state'], StubState) and kw['lifecycle'] is lifecycle and kw['settings'] is settings)
            # ... built from storage, purposed for THIS cause, with a state for every selected handler (X2's precondition)
            vc.ensure('executes_selected_with_state', isinstance(kw['state'], StubState) and kw['state'].purpose_arg is cr
                      and kw['state'].handlers_arg is selected)
    vc.ensure('executes_selected_with_state', Iff(executed, And(is_handler_reason, selected._truth)))
    if raised is not None:
        # an exception out of the handlers' execution: nothing may be closed or stored after it
        after = names[names.index('execute'):]
        vc.ensure('closure_iff_done_or_skip', 'purge' not in after and 'diffbase.store' not in after and 'store' not in after)
        vc.ensure('flag_only_set', Eq(memory.fully_handled_once, fh0))
        return ('raise', type(raised).__name__)
    # post-execution state
    post = [ev[2] for ev in tr if ev[0] == 'state.with_outcomes']
    vc.ensure('closure_iff_done_or_skip', len(post) == (1 if executed else 0))
    done = post[0].done if post else False
    skip = And(is_handler_reason, Not(selected._truth))
    closes = Or(done, skip)
    i_exec = names.index('execute') if executed else -1
    final_purges = [i for i, n in enumerate(names) if n == 'purge' and i > i_exec] if executed else []
    stores = [i for i, n in enumerate(names) if n == 'store']
    dstores = [i for i, n in enumerate(names) if n == 'diffbase.store']
    old, new = resolve(oldnew)
    # closure <=> done or skip
    vc.ensure('closure_iff_done_or_skip', Iff(len(final_purges) == 1, And(executed, done)))
    vc.ensure('closure_iff_done_or_skip', len(final_purges) <= 1)
    vc.ensure('closure_iff_done_or_skip', Iff(len(dstores) == 1, And(closes, new is not None and old != new)))
    vc.ensure('closure_iff_done_or_skip', len(dstores) <= 1)
    vc.ensure('flag_only_set', Eq(memory.fully_handled_once, Or(fh0, closes)))
    # store precedes purge; the stored/purged state is the post-execution one; purge covers the owned handlers
    vc.ensure('store_before_purge', Iff(len(stores) == 1, executed) and len(stores) <= 1)
    for i in stores:
        vc.ensure('store_before_purge', tr[i][1] is post[0] and tr[i][2] is body and tr[i][3] is patch and tr[i][4] is storage)
        vc.ensure('store_before_purge', i > i_exec and all(i < j for j in final_purges))
    for j in final_purges:
        vc.ensure('store_before_purge', tr[j][1] is post[0] and tr[j][2] is body and tr[j][3] is patch and tr[j][5] is owned)
    for i in dstores:
        vc.ensure('essence_is_new', tr[i][1]['essence'] is new and tr[i][1]['body'] is body and tr[i][1]['patch'] is patch)
        vc.ensure('essence_is_new', all(i > j for j in stores))
    vc.ensure('returns_delays', Eq(vc_len(result), vc_len(post[0].delays)) if executed else vc_len(result) == 0)
    if executed:
        vc.ensure('returns_delays', result is post[0].delays)
    # a purge BEFORE the execution is only for superseded causes (extras); otherwise the store that follows would
    # not re-write unchanged records of finished handlers and they would be invoked again
    if executed:
        for i, ev in enumerate(tr):
            if ev[0] == 'purge' and i < i_exec:
                vc.ensure('prepurge_only_for_superseded', ev[1].extras._truth)
    # the handlers' results reach the patch (C08: everything accumulated is delivered)
    dres = [ev[1] for ev in tr if ev[0] == 'deliver_results']
    vc.ensure('results_delivered', (len(dres) == 1 and dres[0]['outcomes'] is outcomes and dres[0]['patch'] is patch) if executed else not dres)
    vc.canary('canary.always_closes', Eq(memory.fully_handled_once, True))
    return ('return', executed, len(final_purges), len(dstores))


# ----------------------------------------------------------------------------------------------- R6
@harness('R6', targets=['kopf._core.intents.registries.ResourceRegistry.iter_extra_fields',
                        'kopf._core.intents.registries.ResourceRegistry.get_extra_fields'],
         props=['C15', 'C04', 'C03', 'C05', 'C10'],
         clauses=['field_of_every_resource_handler', 'frame', 'set_of_all'], canaries=['canary.never_yields'],
         trusted=['_matches_resource by contract (Selector.check: a boolean function of handler and resource)'])
def R6(vc):
    """
    ResourceRegistry.iter_extra_fields: for an arbitrary registered handler (loop contract), its `field` is yielded
    iff the handler serves the resource and has a field -- whatever its kind and its other settings
    (reason, field_needs_change, value/old/new filters, ...).  These fields are what _detect_causes adds to the
    old/new essences (H5), and the field/value criteria of ALL changing handlers are evaluated on those essences:
    a field left out here makes a create/resume/delete handler's criterion see its field as absent (C15), and
    changes of that field invisible (C04).
    """
    reg = registries.ChangingRegistry()
    reg._handlers = Opaque('handlers-list')
    resource = Opaque('resource')
    # any path: the declared type is FieldPath = tuple[str, ...]; also paths into stanzas the essence handles specially
    # (metadata.labels / metadata.annotations: build() purges some annotations and restores them only as extra fields)
    fld = vc.fin('h.field', [None, (), ('spec', 'x'), ('status', 'phase'), ('metadata', 'annotations', 'other-operator.example.com/result'),
                             ('metadata', 'labels', 'app'), ('metadata', 'generation'), ('metadata',),
                             (vc.str('f1'),), (vc.str('f1'), vc.str('f2')), (vc.str('f1'), vc.str('f2'), vc.str('f3'))])
    h = handlers.ChangingHandler(
        id='h', fn=Opaque('fn'), param=None, errors=None, timeout=None, retries=None, backoff=None,
        selector=Opaque('selector'), labels=None, annotations=None, when=None, field=resolve(fld),
        value=vc.fin('h.value', [None, 'literal']),
        reason=vc.fin('h.reason', [None] + list(R)), initial=vc.fin('h.initial', [None, True]),
        deleted=None, requires_finalizer=vc.fin('h.requires_finalizer', [None, True]),
        field_needs_change=vc.fin('h.field_needs_change', [None, False, True]),
        old=vc.fin('h.old', [None, 'x']), new=vc.fin('h.new', [None, 'y']))
    serves = vc.bool('handler serves the resource')
    calls = []

    def _matches_resource(handler, res):
        calls.append((handler, res)); return serves
    yielded = []

    def element(loc, iterable):
        vc.ensure('frame', iterable is reg._handlers)
        if vc.nondet(2, 'exhausted?') == 0:
            from pyvc.loader import _STOP
            return _STOP
        return h

    def at_back(loc):
        want = And(serves, bool(h.field))
        vc.ensure('field_of_every_resource_handler', Iff(len(yielded) == 1, want))
        vc.ensure('field_of_every_resource_handler', len(yielded) <= 1 and all(y is h.field or y == h.field for y in yielded))
        vc.ensure('frame', all(ch is h and cr is resource for ch, cr in calls))
        vc.canary('canary.never_yields', not yielded)
    ld = vc.load('kopf._core.intents.registries', 'ResourceRegistry.iter_extra_fields', stubs={'_matches_resource': _matches_resource},
                 loops={1: LoopSpec('for handler in self._handlers', element=element, at_backedge=at_back)})
    for y in ld.fn(reg, resource):
        yielded.append(y)
    # get_extra_fields == the set of everything iter_extra_fields yields
    ld2 = vc.load('kopf._core.intents.registries', 'ResourceRegistry.get_extra_fields')
    probe = Opaque('registry')
    probe.iter_extra_fields = lambda resource: iter([('spec', 'x'), ('status', 'phase'), ('spec', 'x')])
    vc.ensure('set_of_all', ld2.fn(probe, resource=resource) == {('spec', 'x'), ('status', 'phase')})
    return ('done', len(yielded))


# ----------------------------------------------------------------------------------------------- R10m
@harness('R10m', targets='kopf._core.intents.registries._matches_resource', props=['C15', 'C19', 'C02', 'C04', 'C05', 'C06', 'C09', 'C14', 'C17', 'C18'],
         clauses=['answers_for_the_resource_at_hand', 'selectorless_matches_all'], canaries=['canary.always_matches'])
def R10m(vc):
    """
    _matches_resource keeps no memory between calls: asked about two Resource objects that compare (and hash)
    equal -- same group/version/plural -- but differ in what selectors look at (categories, shortcuts, preferred
    version: a CRD edited or re-created while the operator runs), each answer is the selector's answer for THAT
    object.  (Resource.__eq__/__hash__ use the (group, version, plural) key only, so any memoisation keyed on the
    resource silently freezes the first answer.)
    """
    from kopf._cogs.structs import references

    def mk(cats, preferred):
        return references.Resource(group='example.com', version='v1', plural='things', kind='Thing', singular='thing',
                                   shortcuts=frozenset(), categories=frozenset(cats), subresources=frozenset(),
                                   namespaced=True, preferred=preferred, verbs=frozenset({'list', 'watch', 'patch'}))
    r1, r2 = mk(['mycat'], True), mk([], False)
    vc.ensure('answers_for_the_resource_at_hand', r1 == r2 and hash(r1) == hash(r2) and r1 is not r2)   # the premise
    b1, b2 = vc.bool('selector.check(r1)'), vc.bool('selector.check(r2)')
    asked = []

    class Sel:
        def check(self, resource):
            asked.append(resource)
            return b1 if resource is r1 else b2
    handler = Opaque('handler', selector=Sel())
    ld = vc.load('kopf._core.intents.registries', '_matches_resource')
    a1 = ld.fn(handler, r1)
    a2 = ld.fn(handler, r2)
    a3 = ld.fn(handler, r1)
    vc.ensure('answers_for_the_resource_at_hand', And(Iff(a1, b1), Iff(a2, b2), Iff(a3, b1)))
    vc.ensure('selectorless_matches_all', bool(ld.fn(Opaque('handler', selector=None), r2)) is True)
    vc.canary('canary.always_matches', a2)
    return ('done', len(asked))
