"""Second-wave contracts (builder w2a): more of the functions the properties depend on, under contract.

  D4d  daemons._daemon                       the in-memory retry loop of a daemon on a ghost clock (C09, C11, C08)
  D2w  daemons._wait_for_instant_exit        only waits, bounded, returns early (C09)
  H9   processing.process_watching_cause     raw-event handlers: fresh state, errors ignored, nothing persisted (C07, C15, C11)
  X4   execution.invoke_handler              adjusted cause, context for the duration of the call, one invocation (C02, C11, C04)
  H8c  subhandling.subhandling_context       the implicit execute() after the handler body (C02)
  N4   activities.authenticate/authenticator the re-authentication loop (C12, C20)
  U4   running.stop_flag_checker / ultimate_termination   (C20)
"""
import asyncio
import signal

from pyvc import *
from pyvc.loader import _STOP
from pyvc.stubs import Opaque, NullLogger, Clock, StubLoop, make_sleep
from kopf._core.actions import execution, lifecycles
from kopf._core.engines import activities
from kopf._core.intents import causes, handlers as handlers_

from contracts.c10_timers import Cell, StopEvent

EM = execution.ErrorsMode


class Ghost:
    def __init__(self, **kw):
        self.__dict__.update(kw)


class _Other(Exception):
    """an arbitrary exception unrelated to the framework's classes"""


class _BaseOther(BaseException):
    """an arbitrary non-Exception BaseException"""


def names_of(tr):
    return [ev[0] for ev in tr]


def _run(vc, coro, on_suspend=None):
    """drive a coroutine; -> (result, escaped exception)"""
    try:
        return vc.drive(coro, on_suspend), None
    except BaseException as e:
        if isinstance(e, (PathEnd, Unsupported)):
            raise
        return None, e


# =============================================================================================== D4d
class DState:
    """
    progression.State for ONE handler by contract G3/G2, as the daemon loop uses it:
      done   -- a boolean of the state (the handler has finished: succeeded or failed for good);
      delay  -- None when done; otherwise the time left until the handler's `delayed` moment (`due`, an absolute loop
                time fixed when the outcome was recorded; "now" when nothing was requested), never negative,
                re-computed from the loop clock at every read;
      with_outcomes(o) -- a new state of the same handler; `due` of the new state is whatever the outcome asked for.
    """
    def __init__(self, vc, clock, tag, due=None, done=None):
        self.vc, self.clock, self.tag, self.due = vc, clock, tag, due
        self._done = done
        self.outcomes = None
        self.parent = None

    @property
    def done(self):
        if self._done is None:
            self._done = self.vc.bool(f'done[{self.tag}]')
        return self._done

    @property
    def delays(self):
        if self.done:                       # forks
            return []
        if self.due is None:
            return [0]
        left = self.due - self.clock.now
        return [If(left > 0, left, 0)]

    @property
    def delay(self):
        d = self.delays
        self.vc.emit('state.delay', self)
        return d[0] if d else None

    def with_outcomes(self, outcomes):
        s = DState(self.vc, self.clock, 'after-run', due=self.vc.real('due[after-run]'))
        s.outcomes, s.parent = outcomes, self
        self.vc.emit('with_outcomes', self, s, outcomes)
        return s

    def with_handlers(self, hs):
        raise Unsupported('with_handlers on a state that is already in use')


@harness('D4d', targets='kopf._core.engines.daemons._daemon', props=['C09', 'C11', 'C08', 'C20', 'C06', 'C13'],
         prop_clauses={'C20': ['not_started_when_stopped', 'sleeps_wake_on_stop_only', 'no_spin', 'cancellation_propagates'], 'C06': ['not_started_when_stopped'], 'C13': ['not_started_when_stopped', 'sleeps_wake_on_stop_only']},
         clauses=['limits_counted_from_the_first_attempt', 'no_self_overlap', 'not_started_when_stopped', 'finished_not_invoked_again', 'first_run_after_initial_delay',
                  'retry_not_before_delay', 'state_threaded', 'results_then_patch_applied', 'patch_carried_over',
                  'sleeps_wake_on_stop_only', 'no_spin', 'exits_only_when_stopped_or_done', 'cancellation_propagates'],
         canaries=['canary.never_runs', 'canary.never_sleeps', 'canary.never_exits'],
         trusted=['aiotime.sleep by contract T1 (pyvc.stubs.make_sleep)', 'progression.State by contract G3/G2 (DState)',
                  'execution.execute_handlers_once by contract X2/X1 (suspends; returns outcomes, or is cancelled)',
                  'application.patch_and_check by contract A2 (suspends; returns (version, remaining patch))',
                  'progression.deliver_results: writes the results of the outcomes into the patch given'],
         assumes=['initial_delay is None, a number, or a callable returning a number (kopf.daemon docs)',
                  'the stop flag is only ever raised, never cleared (aioenums.FlagSetter; D2/D3)'],
         clause_props={'patch_carried_over': ['C08'], 'results_then_patch_applied': ['C08'], 'retry_not_before_delay': ['C11'], 'finished_not_invoked_again': ['C11', 'C09'], 'state_threaded': ['C11'], 'first_run_after_initial_delay': ['C09'], 'limits_counted_from_the_first_attempt': ['C11', 'C09'], 'no_self_overlap': ['C09'], 'not_started_when_stopped': ['C09', 'C20', 'C06', 'C13'], 'sleeps_wake_on_stop_only': ['C09', 'C11', 'C20', 'C13'], 'no_spin': ['C09', 'C20'], 'exits_only_when_stopped_or_done': ['C09', 'C11'], 'cancellation_propagates': ['C09', 'C20']})
def D4d(vc):
    """
    daemons._daemon: ONE arbitrary round of `while not stopper.is_set() and not state.done` (loop contract) from an
    arbitrary loop-head state satisfying the invariant
        stopper set  or  state done  or  clock >= bound        (bound: the moment before which no attempt may start),
        patch is cause.patch, state is a State of this handler, no run in progress.
    Every `await` is a suspension point: the clock advances and the stop flag may get raised (never cleared).
      no_self_overlap            the handler is awaited inside the loop: a run starts only when none is in progress;
      not_started_when_stopped   no attempt starts while the stop flag is set (C09: stop flag first);
      finished_not_invoked_again no attempt starts from a state that is done (C11: no retry after success / permanent
                                 failure / exhausted limits; C09: with D1.forever_stopped "exited on its own, not restarted");
      first_run_after_initial_delay  the loop is first reached not before entry + initial_delay (number, or what the
                                 callable returns for cause.kwargs), unless the stop flag is set; no wait at all without it;
      retry_not_before_delay     an attempt never starts before the `delayed` moment of the state it continues (C11);
      state_threaded             one attempt per round, on exactly [handler] with the cause/settings given and the state
                                 at the loop head; the next state is that state .with_outcomes(the attempt's outcomes);
                                 the first state is State.from_scratch().with_handlers([handler]);
      limits_counted_from_the_first_attempt  that state is made AFTER the initial delay, right before the first attempt (its
                                 `started` stamp is what retries/timeout are counted from);
      results_then_patch_applied (C08) the outcomes' results are delivered into the current patch, which is then applied
                                 by patch_and_check(patch=that patch, body, resource, settings) -- in this order, each once;
      patch_carried_over         (C08) afterwards cause.patch := Patch(<remaining patch returned>, body=body), and this is
                                 the patch of the next round;
      sleeps_wake_on_stop_only   every in-memory sleep is aiotime.sleep(..., wakeup=<the stopper's async event>);
      no_spin                    (C09 never stalls) every round contains a suspension point;
      exits_only_when_stopped_or_done   the loop is left (and the function returns normally) only with the stop flag set
                                 or the state done;
      cancellation_propagates    a cancellation thrown into the running handler is not swallowed.
    """
    clock = Clock()
    stop = Cell(vc)
    idk = vc.nondet(3, 'initial_delay: None / number / callable')
    d0 = vc.real('initial_delay') if idk else None
    kw_seen = []
    kwargs = {'some': Opaque('kwarg')}

    def delay_fn(**kw):
        kw_seen.append(kw)
        return d0
    handler = handlers_.DaemonHandler(
        id='d', fn=Opaque('fn'), param=None, errors=None, timeout=None, retries=None, backoff=None,
        selector=None, labels=None, annotations=None, when=None, field=None, value=None,
        requires_finalizer=None, initial_delay=[None, d0, delay_fn][idk],
        cancellation_backoff=None, cancellation_timeout=None, cancellation_polling=None)
    t_entry = clock.now
    G = Ghost(running=False, susp=0, bound=None, head=None, outcomes=None, remaining=None, runs=0, head_patch=None, thrown=None)

    def on_suspend(site):
        G.susp += 1
        clock.advance(0)
        stop.havoc_monotone()
        if site == 'handler run' and vc.nondet(2, 'the running daemon is cancelled?') == 1:
            G.thrown = asyncio.CancelledError()
            return G.thrown

    sleep = make_sleep(clock)
    wake = StopEvent(stop)
    stopper = Opaque('stopper', is_set=lambda: stop.state, async_event=wake)
    body, resource, settings = Opaque('body'), Opaque('resource'), Opaque('settings')
    patch0 = Opaque('patch0')
    cause = Opaque('cause', resource=resource, stopper=stopper, logger=NullLogger(), patch=patch0, body=body, kwargs=kwargs)

    class StateCls:
        @staticmethod
        def from_scratch():
            G.scratch_susp = G.susp          # State.from_scratch() stamps `started` = now: the instant retries/timeout count from (G12)

            def with_handlers(hs):
                s = DState(vc, clock, 'fresh')
                vc.emit('fresh_state', hs, s)
                return s
            return Opaque('blank', with_handlers=with_handlers)

    async def execute_handlers_once(**kw):
        st = kw.get('state')
        vc.ensure('no_self_overlap', not G.running)
        vc.ensure('not_started_when_stopped', Not(stop.state))
        vc.ensure('state_threaded', kw.get('handlers') == [handler] and kw.get('cause') is cause and kw.get('settings') is settings
                  and st is G.head and kw.get('lifecycle') is not None
                  and kw.get('default_errors', EM.TEMPORARY) is EM.TEMPORARY)
        if isinstance(st, DState):
            vc.ensure('finished_not_invoked_again', Not(st.done))
        if G.bound is not None:
            vc.ensure('retry_not_before_delay', clock.now >= G.bound)
        vc.canary('canary.never_runs', False)
        G.running = True
        G.runs += 1
        vc.emit('run', clock.now)
        await suspend('handler run')
        G.running = False
        G.outcomes = Opaque('outcomes')
        return G.outcomes

    def deliver_results(**kw):
        vc.emit('deliver_results', kw)

    async def patch_and_check(**kw):
        vc.emit('patch_and_check', kw)
        await suspend('patch_and_check')
        G.remaining = Opaque('remaining_patch', truth=vc.bool('remaining patch is non-empty'))
        return (Opaque('resource-version'), G.remaining)
    new_patches = []

    def Patch(src=None, body=None):
        p = Opaque('Patch', src=src, body=body)
        new_patches.append(p)
        vc.emit('Patch', p)
        return p

    def sleeps_ok(since=0):
        for ev in vc.trace[since:]:
            if ev[0] == 'sleep':
                vc.ensure('sleeps_wake_on_stop_only', ev[2] is wake)

    # ------------------------------------------------------------------------------------- loop contract
    def inv(loc):
        st = loc.get('state')
        if not isinstance(st, DState):
            return False
        ok_time = True if G.bound is None else Or(stop.state, st.done, clock.now >= G.bound)
        return And(ok_time, loc.get('patch') is cause.patch, not G.running)

    def at_entry(loc):
        st = loc.get('state')
        fresh = [ev for ev in vc.trace if ev[0] == 'fresh_state']
        vc.ensure('state_threaded', len(fresh) == 1 and fresh[0][1] == [handler] and st is fresh[0][2])
        # C11 "with timeout=T no attempt starts later than T after the FIRST one": the daemon's clock of attempts starts when the
        # attempts start -- the state is made after the initial delay, with no suspension point before the loop is entered
        vc.ensure('limits_counted_from_the_first_attempt', getattr(G, 'scratch_susp', None) == G.susp)
        if idk:
            vc.ensure('first_run_after_initial_delay', Or(stop.state, clock.now >= t_entry + d0))
            G.bound = t_entry + d0
        else:
            vc.ensure('first_run_after_initial_delay', G.susp == 0)
        if idk == 2:
            vc.ensure('first_run_after_initial_delay', len(kw_seen) == 1 and kw_seen[0] == kwargs)
        vc.ensure('results_then_patch_applied', not any(n in ('run', 'patch_and_check', 'deliver_results') for n in names_of(vc.trace)))
        sleeps_ok()

    def havoc(loc):
        clock.advance(0)
        stop.state = vc.bool('stopper.is_set')
        G.bound = vc.real('bound') if vc.nondet(2, 'a bound is pending?') == 1 else None
        G.head = DState(vc, clock, 'loop-head', due=G.bound)
        G.head_patch = Opaque('patch-carried', truth=vc.bool('carried patch is non-empty'))
        cause.patch = G.head_patch
        G.susp = G.runs = 0
        G.since = len(vc.trace)
        new_patches.clear()
        return {'state': G.head, 'patch': G.head_patch}

    def at_back(loc):
        tr = vc.trace[G.since:]
        names = [n for n in names_of(tr) if n in ('run', 'with_outcomes', 'deliver_results', 'patch_and_check', 'Patch')]
        st = loc.get('state')
        vc.ensure('no_spin', G.susp > 0)
        vc.ensure('state_threaded', G.runs == 1 and names.count('with_outcomes') == 1)
        wo = [ev for ev in tr if ev[0] == 'with_outcomes']
        vc.ensure('state_threaded', len(wo) == 1 and wo[0][1] is G.head and wo[0][3] is G.outcomes and st is wo[0][2])
        # C08: results into the current patch, then that patch is applied, then the remainder is carried over
        vc.ensure('results_then_patch_applied', [n for n in names if n != 'with_outcomes'] == ['run', 'deliver_results', 'patch_and_check', 'Patch'])
        for ev in tr:
            if ev[0] == 'deliver_results':
                vc.ensure('results_then_patch_applied', ev[1].get('outcomes') is G.outcomes and ev[1].get('patch') is G.head_patch)
            if ev[0] == 'patch_and_check':
                kw = ev[1]
                vc.ensure('results_then_patch_applied', kw.get('patch') is G.head_patch and kw.get('body') is body
                          and kw.get('resource') is resource and kw.get('settings') is settings)
        vc.ensure('patch_carried_over', len(new_patches) == 1 and new_patches[0].src is G.remaining and new_patches[0].body is body
                  and cause.patch is new_patches[0] and loc.get('patch') is new_patches[0])
        sleeps_ok(G.since)
        vc.canary('canary.never_sleeps', not any(ev[0] == 'sleep' and ev[4] != 'nosleep' for ev in tr))
        # C11: what this round owes to the next one
        if isinstance(st, DState):
            vc.ensure('retry_not_before_delay', Or(stop.state, st.done, clock.now >= st.due))
            G.bound = st.due
            G.head = st

    def on_exit(loc):
        st = loc.get('state')
        vc.ensure('exits_only_when_stopped_or_done', Or(stop.state, st.done) if isinstance(st, DState) else stop.state)
        vc.canary('canary.never_exits', False)

    ld = vc.load('kopf._core.engines.daemons', '_daemon', stubs={
        'aiotime.sleep': sleep,
        'asyncio.get_running_loop': lambda: StubLoop(clock),
        'progression.State': StateCls,
        'progression.deliver_results': deliver_results,
        'execution.execute_handlers_once': execute_handlers_once,
        'application.patch_and_check': patch_and_check,
        'patches.Patch': Patch,
    }, loops={1: LoopSpec('while ', name='retry loop', invariant=inv, havoc=havoc,
                          at_entry=at_entry, at_backedge=at_back, on_exit=on_exit,
                          dedup_key=lambda loc: ())})
    vc.used('execution.execute_handlers_once', 'X2'); vc.used('application.patch_and_check', 'A2')
    vc.used('progression.State', 'G3'); vc.used('aiotime.sleep', 'T1')
    result, escaped = _run(vc, ld.fn(settings=settings, handler=handler, cause=cause), on_suspend)
    if G.thrown is not None:
        vc.ensure('cancellation_propagates', escaped is G.thrown)
        return ('cancelled', G.runs)
    vc.ensure('exits_only_when_stopped_or_done', escaped is None and result is None)
    return ('returned', G.runs)


# =============================================================================================== H9
class _FreshState:
    """progression.State by contract G3: from_scratch() is the empty state (nothing restored from the object);
    with_handlers(hs) makes every handler of hs due at once (no record: not finished, not sleeping)."""
    def __init__(self, vc, tag, parent=None, args=()):
        self.vc, self.tag, self.parent, self.args = vc, tag, parent, args

    def with_handlers(self, handlers):
        return _FreshState(self.vc, 'with_handlers', self, (handlers,))

    def with_outcomes(self, outcomes):
        return _FreshState(self.vc, 'with_outcomes', self, (outcomes,))

    def with_purpose(self, *a, **kw):
        return _FreshState(self.vc, 'with_purpose', self, a)

    def store(self, **kw): self.vc.emit('state.store', self, kw)
    def purge(self, **kw): self.vc.emit('state.purge', self, kw)


@harness('H9', targets='kopf._core.reactor.processing.process_watching_cause', props=['C07', 'C15', 'C11', 'C08'],
         clauses=['handlers_of_the_watching_registry', 'executed_once_all_fresh', 'errors_ignored', 'results_delivered',
                  'nothing_persisted', 'never_waits', 'errors_propagate'],
         canaries=['canary.always_returns'],
         trusted=['registry._watching.get_handlers by contract R4/R3 (exactly the handlers whose criteria hold for the cause)',
                  'execution.execute_handlers_once by contract X2/X1 (default_errors: the mode of handlers that declare none)',
                  'progression.State.from_scratch/with_handlers by contract G3', 'progression.deliver_results by contract: writes the results into the patch given'],
         assumes=['the call site passes lifecycle=lifecycles.all_at_once (process_resource_causes); the function hands the lifecycle on as given'],
         clause_props={'handlers_of_the_watching_registry': ['C15'], 'executed_once_all_fresh': ['C15', 'C11'], 'errors_ignored': ['C11'],
                       'never_waits': ['C07'], 'nothing_persisted': ['C11', 'C15'], 'results_delivered': ['C15'], 'errors_propagate': ['C11']})
def H9(vc):
    """
    process_watching_cause (raw-event handlers, docs/handlers.rst "Event-watching handlers": invoked for every event;
    "if the event handler fails, the error is logged and then ignored"):
      handlers_of_the_watching_registry  the handlers are registry._watching.get_handlers(cause=<the cause given>), asked once;
                              no other registry is consulted;
      executed_once_all_fresh exactly one execute_handlers_once, over exactly those handlers, with the cause, settings and
                              lifecycle given, against State.from_scratch().with_handlers(<those handlers>) -- nothing is
                              restored from the object, so every selected handler is due on every event;
      errors_ignored          default_errors=ErrorsMode.IGNORED: a failing raw-event handler counts as done, never retried;
      results_delivered       the outcomes' results go into cause.patch (deliver_results(outcomes, patch=cause.patch)), after
                              the execution, once;
      nothing_persisted       no progress is stored or purged, nothing is read from a storage;
      never_waits             (C07) the only suspension is the execution of the handlers: no consistency wait, no sleep;
      errors_propagate        an exception out of execute_handlers_once (cancellation) is not swallowed and nothing is delivered.
    """
    lifecycle, settings = Opaque('lifecycle'), Opaque('settings')
    patch = Opaque('cause.patch', truth=vc.bool('patch non-empty'))
    cause = Opaque('watching-cause', patch=patch, logger=NullLogger(), body=Opaque('body'))
    selected = Opaque('watching-handlers', truth=vc.bool('some raw-event handler matches'))

    def reg(name, result):
        def get_handlers(*a, **kw):
            kw.update(zip(('cause', 'excluded'), a))
            vc.emit('get_handlers', name, kw)
            return result
        return Opaque(name, get_handlers=get_handlers, get_resource_handlers=get_handlers)
    registry = Opaque('registry', _watching=reg('_watching', selected), _changing=reg('_changing', Opaque('changing-handlers')),
                      _spawning=reg('_spawning', Opaque('spawning-handlers')), _indexing=reg('_indexing', Opaque('indexing-handlers')))
    scratch = _FreshState(vc, 'from_scratch')
    outcomes = Opaque('outcomes')
    st = Ghost(boom=None, susp=[])

    class StateCls:
        @staticmethod
        def from_scratch():
            return scratch

        @staticmethod
        def from_storage(**kw):
            vc.emit('from_storage', kw)
            return _FreshState(vc, 'from_storage')

    async def execute_handlers_once(**kw):
        vc.emit('execute', kw)
        await suspend('execute_handlers_once')
        if vc.nondet(2, 'execute_handlers_once: returns / is cancelled') == 1:
            st.boom = asyncio.CancelledError()
            raise st.boom
        return outcomes

    async def sleep(*a, **kw):
        vc.emit('sleep', a, kw)
        await suspend('sleep')
    vc.used('execution.execute_handlers_once', 'X2'); vc.used('progression.State', 'G3'); vc.used('registries.ResourceRegistry.get_handlers', 'R4')
    ld = vc.load('kopf._core.reactor.processing', 'process_watching_cause', stubs={
        'progression.State': StateCls, 'execution.execute_handlers_once': execute_handlers_once,
        'progression.deliver_results': lambda **kw: vc.emit('deliver_results', kw),
        'aiotime.sleep': sleep, 'asyncio.sleep': sleep})
    result, escaped = _run(vc, ld.fn(lifecycle=lifecycle, registry=registry, settings=settings, cause=cause),
                           lambda site: st.susp.append(site))
    tr = vc.trace
    names = names_of(tr)
    gets = [ev for ev in tr if ev[0] == 'get_handlers']
    vc.ensure('handlers_of_the_watching_registry', len(gets) == 1 and gets[0][1] == '_watching' and gets[0][2].get('cause') is cause
              and not gets[0][2].get('excluded'))
    runs = [ev[1] for ev in tr if ev[0] == 'execute']
    some = selected._truth          # with no matching handler there is nothing to execute or deliver: both ways are fine
    vc.ensure('executed_once_all_fresh', len(runs) <= 1)
    vc.ensure('executed_once_all_fresh', Implies(some, len(runs) == 1))
    for kw in runs:
        s = kw.get('state')
        vc.ensure('executed_once_all_fresh', kw.get('handlers') is selected and kw.get('cause') is cause and kw.get('settings') is settings
                  and kw.get('lifecycle') is lifecycle)
        vc.ensure('executed_once_all_fresh', isinstance(s, _FreshState) and s.tag == 'with_handlers' and s.parent is scratch
                  and s.args[0] is selected)
        vc.ensure('errors_ignored', kw.get('default_errors') is EM.IGNORED)
    vc.ensure('nothing_persisted', not any(n in ('state.store', 'state.purge', 'from_storage') for n in names))
    vc.ensure('never_waits', st.susp == ['execute_handlers_once'] * len(runs) and 'sleep' not in names)
    vc.canary('canary.always_returns', escaped is None)
    if st.boom is not None:
        vc.ensure('errors_propagate', escaped is st.boom and 'deliver_results' not in names)
        return ('raise', type(escaped).__name__)
    vc.ensure('errors_propagate', escaped is None and result is None)
    dels = [ev[1] for ev in tr if ev[0] == 'deliver_results']
    vc.ensure('results_delivered', len(dels) <= len(runs))
    vc.ensure('results_delivered', Implies(some, len(dels) == 1))
    for kw in dels:
        vc.ensure('results_delivered', kw.get('outcomes') is outcomes and kw.get('patch') is patch
                  and names.index('deliver_results') > names.index('execute'))
    return ('return', len(runs))


# =============================================================================================== X4
class CtxVar:
    """contextvars.ContextVar by contract: get([default]) (LookupError when unset and no default), set(v) -> token,
    reset(token) restores what was there before that set()."""
    _UNSET = object()

    def __init__(self, vc, name, *value):
        self.vc, self.name = vc, name
        self.value = value[0] if value else CtxVar._UNSET

    def get(self, *default):
        if self.value is CtxVar._UNSET:
            if default:
                return default[0]
            raise LookupError(self.name)
        return self.value

    def set(self, value):
        token = (self, self.value)
        self.value = value
        self.vc.emit('var.set', self.name, value)
        return token

    def reset(self, token):
        if token[0] is not self:
            raise ValueError('token of another variable')
        self.value = token[1]
        self.vc.emit('var.reset', self.name)


@harness('X4', targets='kopf._core.actions.execution.invoke_handler', props=['C02', 'C11', 'C04', 'C09', 'C10', 'C15', 'C17', 'C18', 'C20', 'C08', 'C14', 'C03', 'C16'],
         prop_clauses={'C20': ['invoked_once_as_given', 'exceptions_propagate_unchanged'], 'C08': ['adjusted_cause_used', 'result_returned'], 'C14': ['invoked_once_as_given'], 'C03': ['context_during_call', 'context_at_extra_exit'], 'C16': ['context_during_call', 'context_at_extra_exit']},
         clauses=['adjusted_cause_used', 'context_during_call', 'context_at_extra_exit', 'context_restored', 'invoked_once_as_given',
                  'inside_extra_context', 'result_returned', 'exceptions_propagate_unchanged'],
         canaries=['canary.never_raises', 'canary.cause_never_adjusted'],
         trusted=['Handler.adjust_cause by contract E3 (returns the cause itself, or a copy with old/new/diff narrowed to the handler\'s field)',
                  'invocation.invoke by contract: calls fn once with kwargs | kwargsrc\'s kwargs; returns its result or raises what it raises',
                  'invocation.context (real code, inlined) over contextvars by contract (CtxVar)',
                  'extra_context(): an async context manager; its exit may raise (subhandling_context: HandlerChildrenRetry, H8c)'],
         clause_props={'adjusted_cause_used': ['C04', 'C08'], 'invoked_once_as_given': ['C11', 'C02', 'C20', 'C14'], 'context_during_call': ['C02', 'C03', 'C16'], 'context_at_extra_exit': ['C02', 'C03', 'C16'], 'context_restored': ['C02'], 'inside_extra_context': ['C02'], 'result_returned': ['C02', 'C11', 'C08'], 'exceptions_propagate_unchanged': ['C11', 'C02', 'C20']})
def X4(vc):
    """
    execution.invoke_handler:
      adjusted_cause_used     (C04) handler.adjust_cause(<the cause given>) is applied once, before the invocation, and the
                              function's kwargs come from its result (field handlers get field-narrowed old/new/diff);
      invoked_once_as_given   (C11, C02) invocation.invoke is called exactly once, with handler.fn, the settings, and exactly
                              param=handler.param, retry=<retry given>, started=<started given>, runtime=<runtime given>;
      context_during_call     (C02) while the function runs (and, context_at_extra_exit, while the extra context exits --
                              that is where the implicit sub-handler execution happens) the task-local context says:
                              handler_var = this handler, cause_var = the (adjusted) cause, subsettings_var = settings,
                              sublifecycle_var = lifecycle, subrefs_var = every container of the enclosing handlers plus this
                              invocation's own `subrefs` container;
      context_restored        afterwards -- return or exception -- every variable is what it was before (unset stays unset);
      inside_extra_context    the invocation happens inside `async with extra_context()`: entered once before, exited once
                              after, the exit sees the exception if there is one;
      result_returned         the function's result is returned as is (None stays None, {} stays {});
      exceptions_propagate_unchanged  whatever the function or the extra context's exit raises leaves invoke_handler as the
                              very same exception object (classification is X1's job).
    """
    settings = Opaque('settings')
    lifecycle = [None, Opaque('lifecycle')][vc.nondet(2, 'lifecycle given?')]
    cause = Opaque('cause')
    adjusted = [cause, Opaque('field-adjusted-cause')][vc.nondet(2, 'adjust_cause: same cause / a narrowed copy')]
    fn, param = Opaque('fn'), [None, Opaque('param')][vc.nondet(2, 'param given?')]
    retry, started, runtime = vc.int('retry'), Opaque('started'), Opaque('runtime')
    subrefs = set()
    outer_kind = vc.nondet(3, 'subrefs_var: unset / empty / two outer containers')
    outer = [None, [], [{'grand/x'}, set()]][outer_kind]
    adjust_calls = []

    class Handler:
        id = 'h'

        def adjust_cause(self, c):
            adjust_calls.append((c, len(vc.trace)))
            vc.emit('adjust_cause', c)
            return adjusted
    Handler.fn, Handler.param = fn, param
    handler = Handler()
    prior = {'sublifecycle_var': [Opaque('outer-lifecycle')], 'subsettings_var': [Opaque('outer-settings')], 'handler_var': [Opaque('outer-handler')],
             'cause_var': [Opaque('outer-cause')]} if outer_kind else {'sublifecycle_var': [], 'subsettings_var': [], 'handler_var': [], 'cause_var': []}
    prior['subrefs_var'] = [] if outer is None else [outer]
    cells = {k: CtxVar(vc, k, *v) for k, v in prior.items()}

    def snapshot():
        return {k: c.value for k, c in cells.items()}
    before = snapshot()
    st = Ghost(raised=None, value=None, at_call=None, at_exit=None, exit_exc='unset')
    kinds = ['None', 'object', 'empty-dict', 'cancelled', 'temporary', 'permanent', 'children-retry', 'other', 'base-other']
    exit_raises = vc.nondet(2, 'the extra context\'s exit raises HandlerChildrenRetry (unfinished sub-handlers)?') == 1

    async def invoke(f, **kw):
        st.at_call = snapshot()
        vc.emit('invoke', f, kw)
        await suspend('invoke')
        k = kinds[vc.nondet(len(kinds), 'the function: returns None / an object / {} / raises ...')]
        if k in ('None', 'object', 'empty-dict'):
            st.value = {'None': None, 'object': Opaque('result'), 'empty-dict': {}}[k]
            return st.value
        st.raised = {'cancelled': asyncio.CancelledError(), 'temporary': execution.TemporaryError('t', delay=1),
                     'permanent': execution.PermanentError('p'), 'children-retry': execution.HandlerChildrenRetry('c', delay=None),
                     'other': _Other('o'), 'base-other': _BaseOther('b')}[k]
        raise st.raised

    class Extra:
        async def __aenter__(self):
            vc.emit('extra.enter')

        async def __aexit__(self, et, e, tb):
            st.at_exit = snapshot()
            st.exit_exc = e
            vc.emit('extra.exit', e)
            if e is None and exit_raises:
                st.raised = execution.HandlerChildrenRetry('unfinished sub-handlers', delay=vc.opt('children.delay', vc.real))
                raise st.raised
            return False

    def extra_context():
        vc.emit('extra.made')
        return Extra()
    stubs = dict(cells)
    stubs['invocation.invoke'] = invoke
    ld = vc.load('kopf._core.actions.execution', 'invoke_handler', stubs=stubs)
    out, escaped = _run(vc, ld.fn(handler=handler, cause=cause, retry=retry, started=started, runtime=runtime, settings=settings,
                                  lifecycle=lifecycle, subrefs=subrefs, extra_context=extra_context))
    tr = vc.trace
    names = [n for n in names_of(tr) if not n.startswith('var.')]
    calls = [ev for ev in tr if ev[0] == 'invoke']
    # -- C04
    vc.ensure('adjusted_cause_used', len(adjust_calls) == 1 and adjust_calls[0][0] is cause)
    vc.ensure('adjusted_cause_used', len(calls) == 1 and calls[0][2].get('kwargsrc') is adjusted)
    if calls and adjust_calls:
        vc.ensure('adjusted_cause_used', names.index('adjust_cause') < names.index('invoke'))
    vc.canary('canary.cause_never_adjusted', bool(calls) and calls[0][2].get('kwargsrc') is cause)
    # -- one invocation, as given
    vc.ensure('invoked_once_as_given', len(calls) == 1)
    for ev in calls:
        kw = ev[2]
        kws = kw.get('kwargs') or {}
        vc.ensure('invoked_once_as_given', ev[1] is fn and kw.get('settings') is settings and set(kw) <= {'settings', 'kwargsrc', 'kwargs'})
        vc.ensure('invoked_once_as_given', set(kws) == {'param', 'retry', 'started', 'runtime'} and kws.get('param') is param
                  and kws.get('retry') is retry and kws.get('started') is started and kws.get('runtime') is runtime)
    vc.ensure('inside_extra_context', names.count('extra.enter') == 1 and names.count('extra.exit') == 1
              and names.index('extra.enter') < names.index('invoke') < names.index('extra.exit')
              if calls and 'extra.enter' in names and 'extra.exit' in names else False)
    invoked_raised = st.raised if not (st.exit_exc is None and exit_raises) else None
    vc.ensure('inside_extra_context', st.exit_exc is invoked_raised)

    # -- the context while the function runs / while the extra context exits
    def context_ok(snap):
        if snap is None:
            return False
        refs = snap['subrefs_var']
        refs_ok = refs is not CtxVar._UNSET and any(r is subrefs for r in refs) and all(any(r is o for r in refs) for o in (outer or []))
        return (snap['handler_var'] is handler and (snap['cause_var'] is adjusted or snap['cause_var'] is cause)
                and snap['subsettings_var'] is settings and snap['sublifecycle_var'] is lifecycle and refs_ok)
    vc.ensure('context_during_call', context_ok(st.at_call))
    vc.ensure('context_at_extra_exit', context_ok(st.at_exit))
    after = snapshot()
    vc.ensure('context_restored', all(after[k] is before[k] for k in before))
    vc.ensure('context_restored', outer is None or (len(outer) == (0 if outer_kind == 1 else 2) and subrefs == set()))
    # -- outcome
    vc.canary('canary.never_raises', escaped is None)
    if st.raised is not None:
        vc.ensure('exceptions_propagate_unchanged', escaped is st.raised)
        return ('raise', type(escaped).__name__)
    vc.ensure('exceptions_propagate_unchanged', escaped is None)
    vc.ensure('result_returned', out is st.value)
    return ('return', type(out).__name__)


# =============================================================================================== N4
class _HId(str):
    """ids.HandlerId is a NewType of str; a str subclass makes `str(handler_id)` observable"""


@harness('N4', targets=['kopf._core.engines.activities.authenticate', 'kopf._core.engines.activities.authenticator'],
         props=['C12', 'C20', 'C11'],
         clauses=['auth.waits_for_emptiness_first', 'auth.runs_the_authentication_activity', 'auth.populates_with_the_results',
                  'auth.returns_only_after_populate', 'auth.failure_escalates',
                  'loop.one_authentication_per_round', 'loop.same_vault_and_registry', 'loop.failure_escalates', 'loop.never_returns'],
         canaries=['canary.auth.never_fails', 'canary.auth.always_credentials', 'canary.loop.never_fails'],
         trusted=['credentials.Vault by contract N3: wait_for_emptiness() returns only while the vault is not ready (invalidated/never '
                  'populated); populate(d) admits d and makes the vault ready, releasing the blocked API calls (which fail with '
                  'LoginError if it is still empty)', 'activities.run_activity by contract U2a (results by handler id, or ActivityError)'],
         assumes=['login handlers\' ids are strings (ids.HandlerId)'])
def N4(vc):
    """
    The re-authentication loop (docs/authentication.rst: "When the vault is fully depleted, it freezes all the API calls and
    triggers the login handlers for re-authentication ... all the credentials are gathered from all the active handlers ... In
    case the vault is depleted and no new credentials are provided by the login handlers, the API calls fail, and so does the
    operator").
    authenticate (one round):
      auth.waits_for_emptiness_first      nothing happens before vault.wait_for_emptiness() has returned (one re-authentication
                                          per depletion: no login handler runs while the vault is ready);
      auth.runs_the_authentication_activity  then run_activity once: activity AUTHENTICATION, all handlers at once, with the
                                          registry/settings/indices/memo given;
      auth.populates_with_the_results     then vault.populate once, with exactly {str(handler id): credentials} of the activity's
                                          results -- also when there are none ({}), so that the frozen API calls are released
                                          (and fail) instead of hanging;
      auth.returns_only_after_populate    a normal return implies wait -> activity -> populate happened, in this order: the vault
                                          is ready again, so the next round's wait blocks until the next depletion (no spinning);
      auth.failure_escalates              an error of the activity (ActivityError, anything else, cancellation) or of the vault
                                          leaves authenticate as the same exception.
    authenticator (loop contract on `while True`, one arbitrary round):
      loop.one_authentication_per_round   a round is exactly one awaited authenticate(...);
      loop.same_vault_and_registry        with the vault, registry, settings, indices and memo given to the authenticator;
      loop.failure_escalates              an exception of a round ends the authenticator with that exception (C20: the failed
                                          root task brings the operator down; C12: it does not spin on a failing login);
      loop.never_returns                  there is no normal way out of the loop.
    """
    if vc.nondet(2, 'authenticate | authenticator') == 0:
        return _n4_authenticate(vc)
    return _n4_authenticator(vc)


def _n4_world(vc):
    W = Ghost(registry=Opaque('registry'), settings=Opaque('settings'), indices=Opaque('indices'), memo=Opaque('memo'))
    W.empty0 = vc.bool('vault.is_empty()')

    class Vault:
        def is_empty(self):
            return W.empty0

        async def wait_for_emptiness(self):
            vc.emit('wait_for_emptiness')
            await suspend('vault.wait_for_emptiness')
            vc.emit('wait_for_emptiness.returned')

        async def populate(self, src):
            vc.emit('populate', src)
            await suspend('vault.populate')
            vc.emit('populate.returned')
    W.vault = Vault()
    return W


def _n4_authenticate(vc):
    W = _n4_world(vc)
    st = Ghost(raised=None, results=None, cancel=None)
    h1, h2 = _HId('login-a'), _HId('login-b')
    info1, info2 = Opaque('credentials-a'), Opaque('credentials-b')

    async def run_activity(**kw):
        vc.emit('run_activity', kw)
        await suspend('run_activity')
        k = vc.nondet(6, 'activity: no credentials / one / two / ActivityError / other error / cancelled')
        if k <= 2:
            st.results = [{}, {h1: info1}, {h1: info1, h2: info2}][k]
            vc.emit('run_activity.returned')
            return st.results
        st.raised = [activities.ActivityError('login failed', outcomes={}), _Other('boom'), asyncio.CancelledError()][k - 3]
        raise st.raised

    def on_suspend(site):
        if site.startswith('vault.') and vc.nondet(2, f'cancelled at {site}?') == 1:
            st.cancel = (site, asyncio.CancelledError())
            return st.cancel[1]
    vc.used('activities.run_activity', 'U2a'); vc.used('credentials.Vault', 'N3')
    ld = vc.load('kopf._core.engines.activities', 'authenticate', stubs={'run_activity': run_activity, 'logger': NullLogger()})
    title = ['Authentication', 'Re-authentication'][vc.nondet(2, 'title')]
    result, escaped = _run(vc, ld.fn(registry=W.registry, settings=W.settings, indices=W.indices, vault=W.vault, memo=W.memo,
                                     _activity_title=title), on_suspend)
    tr = vc.trace
    names = names_of(tr)
    vc.canary('canary.auth.never_fails', escaped is None)
    # -- order
    vc.ensure('auth.waits_for_emptiness_first', names[0] == 'wait_for_emptiness' and names.count('wait_for_emptiness') == 1)
    if 'run_activity' in names or 'populate' in names:
        first = min(names.index(n) for n in ('run_activity', 'populate') if n in names)
        vc.ensure('auth.waits_for_emptiness_first', 'wait_for_emptiness.returned' in names[:first])
    runs = [ev[1] for ev in tr if ev[0] == 'run_activity']
    vc.ensure('auth.runs_the_authentication_activity', len(runs) <= 1)
    for kw in runs:
        vc.ensure('auth.runs_the_authentication_activity', kw.get('activity') is causes.Activity.AUTHENTICATION
                  and kw.get('lifecycle') is lifecycles.all_at_once and kw.get('registry') is W.registry and kw.get('settings') is W.settings
                  and kw.get('indices') is W.indices and kw.get('memo') is W.memo)
    pops = [ev[1] for ev in tr if ev[0] == 'populate']
    vc.ensure('auth.populates_with_the_results', len(pops) <= 1)
    if st.cancel is not None and st.cancel[0] == 'vault.wait_for_emptiness':
        vc.ensure('auth.failure_escalates', escaped is st.cancel[1] and not runs and not pops)
        return ('cancelled-waiting',)
    vc.ensure('auth.runs_the_authentication_activity', len(runs) == 1)
    if st.raised is not None:
        vc.ensure('auth.failure_escalates', escaped is st.raised)
        return ('activity-failed', type(escaped).__name__)
    # -- the activity returned: its results reach the vault, whatever they are
    vc.canary('canary.auth.always_credentials', bool(st.results))
    vc.ensure('auth.populates_with_the_results', len(pops) == 1 and 'run_activity.returned' in names[:names.index('populate')])
    for src in pops:
        want = {str(k): v for k, v in st.results.items()}
        vc.ensure('auth.populates_with_the_results', isinstance(src, dict) and set(src) == set(want)
                  and all(type(k) is str for k in src) and all(src[k] is want[k] for k in want))
    if st.cancel is not None:
        vc.ensure('auth.failure_escalates', escaped is st.cancel[1])
        return ('cancelled-populating',)
    vc.ensure('auth.failure_escalates', escaped is None)
    vc.ensure('auth.returns_only_after_populate', result is None and
              [n for n in names if n in ('wait_for_emptiness.returned', 'run_activity.returned', 'populate.returned')] ==
              ['wait_for_emptiness.returned', 'run_activity.returned', 'populate.returned'])
    return ('authenticated', len(st.results))


def _n4_authenticator(vc):
    W = _n4_world(vc)
    st = Ghost(raised=None, since=0, susp=0)

    async def authenticate(**kw):
        vc.emit('authenticate', kw)
        await suspend('authenticate')
        k = vc.nondet(4, 'authenticate: returns / ActivityError / other error / cancelled')
        if k:
            st.raised = [activities.ActivityError('login failed', outcomes={}), _Other('boom'), asyncio.CancelledError()][k - 1]
            raise st.raised
        vc.emit('authenticate.returned')

    def on_suspend(site):
        st.susp += 1

    def havoc(loc):
        st.since, st.susp = len(vc.trace), 0
        return {'counter': vc.int('counter')}

    def round_ok(tr):
        calls = [ev[1] for ev in tr if ev[0] == 'authenticate']
        vc.ensure('loop.one_authentication_per_round', len(calls) == 1)
        for kw in calls:
            vc.ensure('loop.same_vault_and_registry', kw.get('vault') is W.vault and kw.get('registry') is W.registry
                      and kw.get('settings') is W.settings and kw.get('indices') is W.indices and kw.get('memo') is W.memo)

    def at_back(loc):
        tr = vc.trace[st.since:]
        round_ok(tr)
        vc.ensure('loop.one_authentication_per_round', names_of(tr).count('authenticate.returned') <= 1 and st.susp > 0)
        vc.ensure('loop.failure_escalates', st.raised is None)      # a failed round never reaches the next one

    def on_exit(loc):
        vc.ensure('loop.never_returns', st.raised is not None)
    ld = vc.load('kopf._core.engines.activities', 'authenticator', stubs={'authenticate': authenticate, 'logger': NullLogger()},
                 loops={1: LoopSpec('while True', name='forever', havoc=havoc, at_backedge=at_back, on_exit=on_exit,
                                    at_entry=lambda loc: vc.ensure('loop.one_authentication_per_round', 'authenticate' not in names_of(vc.trace)))})
    result, escaped = _run(vc, ld.fn(registry=W.registry, settings=W.settings, indices=W.indices, vault=W.vault, memo=W.memo), on_suspend)
    # only the paths that leave the loop arrive here
    vc.canary('canary.loop.never_fails', escaped is None)
    vc.ensure('loop.never_returns', escaped is not None)
    vc.ensure('loop.failure_escalates', st.raised is not None and escaped is st.raised)
    round_ok(vc.trace[st.since:])
    return ('authenticator', type(escaped).__name__)


# =============================================================================================== D2w
@harness('D2w', targets='kopf._core.engines.daemons._wait_for_instant_exit', props=['C09', 'C06', 'C20', 'C13'],
         clauses=['changes_nothing', 'no_wait_when_done', 'timeout_mode', 'cycles_mode', 'no_wait_without_settings'],
         canaries=['canary.never_waits', 'canary.uses_all_cycles'],
         trusted=['aiotasks.wait(tasks, timeout=T) by contract S4w: returns after a suspension once the tasks are done or T has elapsed',
                  'asyncio.sleep(0): one zero-time cycle of the event loop (a suspension point)',
                  'asyncio.Task.done() is monotone and changes only at suspension points (SymTask)'],
         assumes=['settings.background.instant_exit_zero_time_cycles is None or an int in 0..3 (the for-loop over range() runs natively); '
                  'instant_exit_timeout is None or any number, 0 included'])
def D2w(vc):
    """
    daemons._wait_for_instant_exit (the contract D2 trusts: "only waits, changes nothing itself"; settings docs of
    background.instant_exit_timeout / instant_exit_zero_time_cycles):
      changes_nothing        no stop flag is raised and the task is not cancelled here; nothing is raised;
      no_wait_when_done      a daemon that has already exited costs no suspension at all;
      timeout_mode           with a timeout set (0 included): exactly one aiotasks.wait([the daemon's task], timeout=<that value>)
                             and no zero-time cycles ("if an instant-exit timeout is set, the zero-time cycles are not used");
      cycles_mode            without a timeout: at most `cycles` asyncio.sleep(0), and none after the task was seen done
                             ("if they exit earlier, extra cycles are not used"); all of them when it keeps running;
      no_wait_without_settings   neither set: returns at once.
    So the call is bounded by T or by `cycles` zero-time cycles: stopping cannot stall here (C09).
    """
    from contracts.c09_daemons import mk_daemon
    clock = Clock()
    d = mk_daemon(vc, clock, sym=False)
    timeout = vc.opt('instant_exit_timeout', vc.real)
    cycles = [None, 0, 1, 2, 3][vc.nondet(5, 'instant_exit_zero_time_cycles: None / 0..3')]
    settings = Opaque('settings', background=Opaque('background', instant_exit_timeout=timeout, instant_exit_zero_time_cycles=cycles))
    done0 = d.task.state
    st = Ghost(susp=0, seen_done_at=None)

    def on_suspend(site):
        st.susp += 1
        clock.advance()
        d.task.havoc()
        d.stopper.havoc()
        vc.emit('suspend', site, d.task.state)

    async def wait(tasks, *, timeout=None, return_when=asyncio.ALL_COMPLETED):
        vc.emit('wait', list(tasks), timeout, return_when)
        await suspend('aiotasks.wait')
        return set(), set()

    async def sleep(delay, *a):
        vc.emit('sleep0', delay, d.task.state)
        await suspend('asyncio.sleep')
    vc.used('aiotasks.wait', 'S4w')
    ld = vc.load('kopf._core.engines.daemons', '_wait_for_instant_exit', stubs={'aiotasks.wait': wait, 'asyncio.sleep': sleep})
    result, escaped = _run(vc, ld.fn(settings=settings, daemon=d), on_suspend)
    tr = vc.trace
    names = names_of(tr)
    waits = [ev for ev in tr if ev[0] == 'wait']
    sleeps = [ev for ev in tr if ev[0] == 'sleep0']
    vc.ensure('changes_nothing', 'stopper.set' not in names and 'task.cancel' not in names and escaped is None and result is None)
    vc.ensure('no_wait_when_done', Implies(done0, st.susp == 0))
    vc.canary('canary.never_waits', st.susp == 0)
    if timeout is not None:
        vc.ensure('timeout_mode', not sleeps and len(waits) <= 1)
        vc.ensure('timeout_mode', Implies(Not(done0), len(waits) == 1))
        for ev in waits:
            vc.ensure('timeout_mode', len(ev[1]) == 1 and ev[1][0] is d.task and ev[2] is timeout and ev[3] == asyncio.ALL_COMPLETED)
    elif cycles is not None:
        vc.ensure('cycles_mode', not waits and len(sleeps) <= cycles)
        for ev in sleeps:
            vc.ensure('cycles_mode', ev[1] == 0)
            vc.ensure('cycles_mode', Not(ev[2]))                    # never sleeps on with the task known to be done
        # it gives up early only because the task is done
        vc.ensure('cycles_mode', Or(d.task.state, len(sleeps) == cycles))
        vc.canary('canary.uses_all_cycles', len(sleeps) == cycles)
    else:
        vc.ensure('no_wait_without_settings', st.susp == 0)
    return ('waited', st.susp)


# =============================================================================================== H8c
@harness('H8c', targets='kopf._core.reactor.subhandling.subhandling_context', props=['C02', 'C11'],
         clauses=['fresh_registry_and_flag_for_the_body', 'implicit_execute_unless_explicit', 'implicit_execute_in_context',
                  'not_after_a_failed_body', 'errors_propagate', 'context_restored'],
         canaries=['canary.always_implicit', 'canary.never_raises'],
         trusted=['subhandling.execute by contract H8 (no arguments: runs the sub-handlers accumulated in subregistry_var once, raises '
                  'HandlerChildrenRetry while some are unfinished)', 'contextvars by contract (CtxVar); invocation.context (real code, inlined)',
                  'contextlib.asynccontextmanager (real)'])
def H8c(vc):
    """
    subhandling.subhandling_context -- the extra context in which execute_handler_once/invoke_handler (X4) run a handler that may
    have sub-handlers (docs/handlers.rst "Sub-handlers"; docstring of kopf.execute: "If the call to this method for the
    sub-handlers is not done explicitly in the handler, it is done implicitly after the handler is exited. One way or another,
    it is executed for the sub-handlers"):
      fresh_registry_and_flag_for_the_body  the handler body runs with subregistry_var = a NEW, empty ChangingRegistry made for
                               this invocation (not the enclosing handler's) and subexecuted_var = False;
      implicit_execute_unless_explicit      after a body that returned normally: if the flag says execute() already ran, it is not
                               run again; otherwise, if sub-handlers were registered, execute() -- without arguments -- is
                               awaited exactly once (with an empty registry it may or may not be: nothing to run either way);
      implicit_execute_in_context           and it runs while this invocation's registry and flag are still in place;
      not_after_a_failed_body  a body that raised is not followed by an implicit execution; its exception propagates unchanged;
      errors_propagate         what the implicit execute() raises (HandlerChildrenRetry: the parent stays unfinished, X1/H8)
                               leaves the context unchanged -- it is not swallowed;
      context_restored         afterwards both variables are what they were before (unset stays unset).
    """
    nested = vc.nondet(2, 'top-level handler / nested in another sub-handling context') == 1
    outer_reg, outer_flag = Opaque('outer-registry'), vc.bool('outer subexecuted') if nested else None
    cells = {'subregistry_var': CtxVar(vc, 'subregistry_var', *([outer_reg] if nested else [])),
             'subexecuted_var': CtxVar(vc, 'subexecuted_var', *([outer_flag] if nested else []))}
    made = []

    class Registry:
        def __init__(self, *a, **kw):
            self.handlers = []
            made.append(self)

        def append(self, h): self.handlers.append(h)

    def snapshot():
        return {k: c.value for k, c in cells.items()}
    before = snapshot()
    st = Ghost(body_exc=None, exec_exc=None, at_body=None, at_exec=None, flag_at_end=None, registered=False)
    body_kind = ['plain', 'registers', 'registers+explicit', 'explicit-only', 'raises', 'registers+raises'][vc.nondet(6, 'the handler body')]

    async def execute(*a, **kw):
        st.at_exec = snapshot()
        vc.emit('execute', a, kw)
        await suspend('execute')
        k = vc.nondet(3, 'implicit execute: returns / HandlerChildrenRetry / cancelled')
        if k:
            st.exec_exc = [execution.HandlerChildrenRetry('unfinished', delay=vc.opt('delay', vc.real)), asyncio.CancelledError()][k - 1]
            raise st.exec_exc
    vc.used('subhandling.execute', 'H8')
    stubs = dict(cells)
    stubs.update({'registries.ChangingRegistry': Registry, 'execute': execute})
    ld = vc.load('kopf._core.reactor.subhandling', 'subhandling_context', stubs=stubs)

    async def scenario():
        async with ld.fn():
            st.at_body = snapshot()
            vc.emit('body')
            if 'registers' in body_kind:
                cells['subregistry_var'].get().append(Opaque('sub-handler'))      # what @kopf.subhandler does
                st.registered = True
            if 'explicit' in body_kind:
                cells['subexecuted_var'].set(True)                                # what an explicit kopf.execute() does (H8.implicit_once)
            st.flag_at_end = cells['subexecuted_var'].value
            if 'raises' in body_kind:
                st.body_exc = _Other('the handler failed')
                raise st.body_exc
            vc.emit('body.end')
    result, escaped = _run(vc, scenario())
    tr = vc.trace
    names = [n for n in names_of(tr) if not n.startswith('var.')]
    execs = [ev for ev in tr if ev[0] == 'execute']
    reg = st.at_body['subregistry_var'] if st.at_body else None
    vc.ensure('fresh_registry_and_flag_for_the_body', st.at_body is not None and isinstance(reg, Registry) and reg is not outer_reg
              and len(made) == 1 and reg is made[0] and st.at_body['subexecuted_var'] is False)
    vc.ensure('context_restored', all(snapshot()[k] is before[k] for k in before))
    vc.canary('canary.never_raises', escaped is None)
    vc.canary('canary.always_implicit', len(execs) == 1)
    if st.body_exc is not None:
        vc.ensure('not_after_a_failed_body', not execs and escaped is st.body_exc)
        return ('body-failed', len(execs))
    explicit = st.flag_at_end is True
    vc.ensure('implicit_execute_unless_explicit', len(execs) <= 1 and not (explicit and execs))
    vc.ensure('implicit_execute_unless_explicit', len(execs) == 1 if (st.registered and not explicit) else True)
    for ev in execs:
        vc.ensure('implicit_execute_unless_explicit', ev[1] == () and all(v is None for v in ev[2].values()))
        vc.ensure('implicit_execute_in_context', names.index('execute') > names.index('body.end')
                  and st.at_exec['subregistry_var'] is reg and st.at_exec['subexecuted_var'] is False)
    vc.ensure('errors_propagate', escaped is st.exec_exc)
    return ('body-ok', len(execs), type(escaped).__name__)


# =============================================================================================== U4
class FakeFuture:
    """asyncio.Future / Task as the stop-flag checker uses it: awaiting a finished one gives its result at once."""
    def __init__(self, name, result=None, coro=None):
        self.name, self._result, self.coro = name, result, coro

    def __await__(self):
        return self._result
        yield

    def __repr__(self):
        return f'<future {self.name}>'


@harness('U4', targets=['kopf._core.reactor.running.stop_flag_checker', 'kopf._core.reactor.running.ultimate_termination'], props=['C20', 'C09'],
         clauses=['checker.waits_for_all_given_flags', 'checker.returns_only_on_flag_or_cancellation', 'checker.never_fails',
                  'ultimate.sleeps_until_shutdown', 'ultimate.kill_scheduled_iff_unintended_and_timeout', 'ultimate.kill_after_exactly_the_timeout',
                  'ultimate.never_fails'],
         canaries=['canary.checker.never_cancelled', 'canary.ultimate.always_schedules', 'canary.ultimate.never_schedules'],
         trusted=['asyncio.wait(fs, return_when=FIRST_COMPLETED): suspends until one of fs is done; returns (done, pending), done non-empty',
                  'aioadapters.wait_flag(flag): a coroutine that finishes when the flag is raised (every kind of flag: match over the 4 kinds); '
                  'aioadapters.check_flag(flag): None for no flag, else whether it is raised',
                  'asyncio.create_task(coro): a task running coro', 'a fresh asyncio.Event().wait() never returns, it can only be cancelled',
                  'loop.call_later(delay, fn, *args): fn(*args) runs `delay` seconds later if the loop is still alive'],
         assumes=['stop_flag_checker: at least one of signal_flag/stop_flag is given (spawn_tasks always passes a Future as signal_flag)'])
def U4(vc):
    """
    The two root tasks behind "a stop is requested => the whole operator shuts down ... and the run call returns within the
    bounded grace periods" (C20; run_tasks U3 stops everything as soon as ANY root task finishes):
    stop_flag_checker(signal_flag, stop_flag):
      checker.waits_for_all_given_flags    one asyncio.wait(FIRST_COMPLETED, no timeout) over exactly the signal future (if given)
                                           and ONE task of aioadapters.wait_flag(<the stop flag given>) (if given): raising either wakes it;
      checker.returns_only_on_flag_or_cancellation   it finishes -- triggering the shutdown -- only after that wait has returned (a
                                           flag is raised) or when it is cancelled itself (the operator is stopping anyway);
      checker.never_fails                  whatever the raised flag carries (None, a signal number, any object), it ends normally.
    ultimate_termination(settings, stop_flag)  (settings.process.ultimate_exiting_timeout: "How long to wait for the graceful exit
    before SIGKILL'ing the operator ... The countdown goes from when a graceful signal arrives ... None to disable";
    docstring: "Intentional stopping via a stop-flag is ignored"):
      ultimate.sleeps_until_shutdown       nothing is scheduled before the task is cancelled (= the shutdown begins);
      ultimate.kill_scheduled_iff_unintended_and_timeout   then exactly one loop.call_later iff the stop flag is not raised (no flag
                                           counts as not raised) and the timeout is not None (0 is a timeout);
      ultimate.kill_after_exactly_the_timeout   it is call_later(<the timeout>, signal.pthread_kill, <this thread>, SIGKILL): the
                                           graceful exit is bounded by the configured period;
      ultimate.never_fails                 it ends without an error of its own.
    """
    if vc.nondet(2, 'stop_flag_checker | ultimate_termination') == 0:
        return _u4_checker(vc)
    return _u4_ultimate(vc)


def _u4_checker(vc):
    has_signal = vc.nondet(2, 'signal_flag given?') == 1
    has_stop = (vc.nondet(2, 'stop_flag given?') == 1) if has_signal else True
    results = [None, signal.SIGTERM, signal.SIGINT, Opaque('flag-value'), 0]
    signal_flag = FakeFuture('signal_flag') if has_signal else None
    stop_flag = Opaque('stop_flag') if has_stop else None
    st = Ghost(cancel=None, tasks=[])

    def wait_flag(flag):
        return ('wait_flag-coro', flag)

    def create_task(coro, **kw):
        t = FakeFuture('stop-flag waiter', coro=coro)
        st.tasks.append(t)
        vc.emit('create_task', coro, t)
        return t

    async def aio_wait(fs, **kw):
        fs = list(fs)
        vc.emit('wait', fs, kw)
        if not fs:
            raise ValueError('Set of Tasks/Futures is empty.')
        await suspend('asyncio.wait')
        vc.emit('wait.returned')
        k = vc.nondet(len(fs), 'which flag was raised first')
        both = len(fs) > 1 and vc.nondet(2, 'the other one too?') == 1
        for f in fs:
            f._result = results[vc.nondet(len(results), f'{f.name} carries: None / SIGTERM / SIGINT / an object / 0')]
        done = set(fs) if both else {fs[k]}
        return done, set(fs) - done

    def on_suspend(site):
        if vc.nondet(2, 'the checker is cancelled while waiting?') == 1:
            st.cancel = asyncio.CancelledError()
            return st.cancel
    ld = vc.load('kopf._core.reactor.running', 'stop_flag_checker', stubs={
        'asyncio.create_task': create_task, 'asyncio.wait': aio_wait, 'aioadapters.wait_flag': wait_flag, 'logger': NullLogger()})
    result, escaped = _run(vc, ld.fn(signal_flag=signal_flag, stop_flag=stop_flag), on_suspend)
    tr = vc.trace
    names = names_of(tr)
    waits = [ev for ev in tr if ev[0] == 'wait']
    vc.ensure('checker.waits_for_all_given_flags', len(waits) == 1 and len(st.tasks) == (1 if has_stop else 0))
    for t in st.tasks:
        vc.ensure('checker.waits_for_all_given_flags', t.coro == ('wait_flag-coro', stop_flag))
    for ev in waits:
        fs, kw = ev[1], ev[2]
        want = ([signal_flag] if has_signal else []) + st.tasks
        vc.ensure('checker.waits_for_all_given_flags', len(fs) == len(want) and all(any(f is w for f in fs) for w in want)
                  and kw.get('return_when') == asyncio.FIRST_COMPLETED and kw.get('timeout') is None)
    vc.canary('canary.checker.never_cancelled', st.cancel is None)
    vc.ensure('checker.returns_only_on_flag_or_cancellation', 'wait.returned' in names or st.cancel is not None)
    vc.ensure('checker.never_fails', escaped is None or escaped is st.cancel)
    return ('checker', type(escaped).__name__)


def _u4_ultimate(vc):
    timeout = vc.opt('ultimate_exiting_timeout', vc.real)
    settings = Opaque('settings', process=Opaque('process', ultimate_exiting_timeout=timeout))
    stop_flag = [None, Opaque('stop_flag')][vc.nondet(2, 'stop_flag given?')]
    raised = vc.fin('check_flag(stop_flag)', [False, True]) if stop_flag is not None else None
    st = Ghost(cancel=None)
    kill, ident = Opaque('signal.pthread_kill'), Opaque('this-thread-ident')

    class ForeverEvent:
        async def wait(self):
            vc.emit('sleep-forever')
            await suspend('forever')
            raise AssertionError('a fresh event that nobody sets cannot be awaited to completion')

    def check_flag(flag):
        vc.emit('check_flag', flag)
        return raised

    def call_later(delay, fn, *args):
        vc.emit('call_later', delay, fn, args)
        return Opaque('timer-handle')

    def on_suspend(site):
        # this task is NOT guarded by the started-flag: it sleeps while the startup handlers run, and docs/configuration.rst has the
        # settings configured there (`@kopf.on.startup ... settings.process.ultimate_exiting_timeout = ...`): the value that
        # counts is the one in the settings when the shutdown begins, not the one seen when the task started
        nonlocal timeout
        timeout = vc.opt('ultimate_exiting_timeout as configured by the startup handlers', vc.real)
        settings.process.ultimate_exiting_timeout = timeout
        st.cancel = asyncio.CancelledError()          # the only way out of the sleep: the shutdown has begun
        vc.emit('cancelled')
        return st.cancel
    ld = vc.load('kopf._core.reactor.running', 'ultimate_termination', stubs={
        'asyncio.Event': ForeverEvent, 'aioadapters.check_flag': check_flag,
        'asyncio.get_running_loop': lambda: Opaque('loop', call_later=call_later),
        'signal.pthread_kill': kill, 'threading.get_ident': lambda: ident, 'logger': NullLogger()})
    result, escaped = _run(vc, ld.fn(settings=settings, stop_flag=stop_flag), on_suspend)
    tr = vc.trace
    names = names_of(tr)
    calls = [ev for ev in tr if ev[0] == 'call_later']
    vc.ensure('ultimate.sleeps_until_shutdown', 'cancelled' in names and 'call_later' not in names[:names.index('cancelled')]
              and names[0] == 'sleep-forever')
    for ev in tr:
        if ev[0] == 'check_flag':
            vc.ensure('ultimate.kill_scheduled_iff_unintended_and_timeout', ev[1] is stop_flag)
    intended = False if raised is None else Eq(raised, True)
    want = And(Not(intended), timeout is not None)
    vc.ensure('ultimate.kill_scheduled_iff_unintended_and_timeout', len(calls) <= 1)
    vc.ensure('ultimate.kill_scheduled_iff_unintended_and_timeout', Iff(len(calls) == 1, want))
    for ev in calls:
        vc.ensure('ultimate.kill_after_exactly_the_timeout', ev[1] is timeout and ev[2] is kill and tuple(ev[3]) == (ident, signal.SIGKILL))
    vc.canary('canary.ultimate.always_schedules', len(calls) == 1)
    vc.canary('canary.ultimate.never_schedules', len(calls) == 0)
    vc.ensure('ultimate.never_fails', escaped is None or escaped is st.cancel)
    return ('ultimate', len(calls))


# =============================================================================================== U4f
@harness('U4f', targets=['kopf._cogs.aiokits.aioadapters.wait_flag', 'kopf._cogs.aiokits.aioadapters.check_flag',
                         'kopf._cogs.aiokits.aioadapters.raise_flag'], props=['C20'],
         clauses=['wait.returns_only_once_raised', 'wait.none_is_immediate', 'check.tells_the_state', 'raise.raises_the_flag', 'unsupported_kinds_rejected'],
         canaries=['canary.always_suspends'],
         trusted=['asyncio.Future / asyncio.Event / concurrent.futures.Future / threading.Event by contract (fake classes in their place): '
                  'awaiting a Future or Event.wait() suspends until it is done/set; Future.result() / threading.Event.wait() block until then; '
                  'set_result()/set() raise it; done()/is_set() tell', 'loop.run_in_executor(None, fn): runs the blocking fn elsewhere, the awaiting task is suspended until it returns'])
def U4f(vc):
    """
    aioadapters -- the flags of the operator's lifecycle (stop_flag: U4; ready_flag: U2), for every supported kind of flag
    (asyncio.Future incl. subclasses such as Task, asyncio.Event, concurrent.futures.Future, threading.Event) and None:
      wait.returns_only_once_raised   wait_flag(flag) returns only after the flag itself reported "raised" to a waiting operation of
                                      its kind, without blocking the event loop (the blocking kinds are waited for in an executor);
      wait.none_is_immediate          no flag: returns None at once;
      check.tells_the_state           check_flag(flag) is the flag's own raised-state; None for no flag;
      raise.raises_the_flag           raise_flag(flag) leaves the flag raised (nothing for None);
      unsupported_kinds_rejected      anything else is a TypeError in all three.
    """
    fn_name = ['wait_flag', 'check_flag', 'raise_flag'][vc.nondet(3, 'function')]
    st = Ghost(susp=0, blocked_in_loop=False, in_executor=False)

    class Base:
        def __init__(self):
            self.raised = vc.bool('flag is raised already')
            self.waited = False

        def _block(self):            # a blocking wait: fine in an executor thread, a stall in the event loop
            if not st.in_executor:
                st.blocked_in_loop = True
            self.raised = True
            self.waited = True
            return 'flag-result'

    class AioFuture(Base):
        def __await__(self):
            if not self.raised:
                yield Suspend('future')
                self.raised = True
            self.waited = True
            return 'flag-result'

        def done(self): return self.raised
        def set_result(self, r): self.raised = True

    class AioTask(AioFuture):
        pass

    class AioEvent(Base):
        async def wait(self):
            if not self.raised:
                await suspend('event.wait')
                self.raised = True
            self.waited = True
            return True

        def is_set(self): return self.raised
        def set(self): self.raised = True

    class CfFuture(Base):
        def result(self, timeout=None): return self._block()
        def done(self): return self.raised
        def set_result(self, r): self.raised = True

    class ThEvent(Base):
        def wait(self, timeout=None): return self._block()
        def is_set(self): return self.raised
        def set(self): self.raised = True

    class Loop:
        async def run_in_executor(self, executor, fn, *args):
            await suspend('run_in_executor')
            st.in_executor = True
            try:
                return fn(*args)
            finally:
                st.in_executor = False
    kinds = [None, AioFuture, AioTask, AioEvent, CfFuture, ThEvent, 'unsupported']
    kind = kinds[vc.nondet(len(kinds), 'kind of flag')]
    flag = None if kind is None else (Opaque('not-a-flag') if kind == 'unsupported' else kind())
    raised0 = getattr(flag, 'raised', None)

    def on_suspend(site):
        st.susp += 1
    ld = vc.load('kopf._cogs.aiokits.aioadapters', fn_name, stubs={
        'asyncio.Future': AioFuture, 'asyncio.Event': AioEvent, 'concurrent.futures.Future': CfFuture, 'threading.Event': ThEvent,
        'asyncio.get_running_loop': lambda: Loop()})
    if fn_name == 'check_flag':
        try:
            result, escaped = ld.fn(flag), None
        except TypeError as e:
            result, escaped = None, e
    else:
        result, escaped = _run(vc, ld.fn(flag), on_suspend)
    if kind == 'unsupported':
        vc.ensure('unsupported_kinds_rejected', isinstance(escaped, TypeError))
        return (fn_name, 'rejected')
    vc.ensure('unsupported_kinds_rejected', escaped is None)
    if fn_name == 'wait_flag':
        vc.canary('canary.always_suspends', st.susp > 0)
        if flag is None:
            vc.ensure('wait.none_is_immediate', result is None and st.susp == 0)
        else:
            vc.ensure('wait.returns_only_once_raised', flag.waited and not st.blocked_in_loop)
    elif fn_name == 'check_flag':
        vc.canary('canary.always_suspends', False)
        vc.ensure('check.tells_the_state', result is None if flag is None else Eq(result, raised0))
    else:
        vc.canary('canary.always_suspends', False)
        vc.ensure('raise.raises_the_flag', flag is None or flag.raised is True)
    return (fn_name, 'ok')
