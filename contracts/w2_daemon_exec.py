"""Second-wave contracts (builder w2a): more of the functions the properties depend on, under contract.

  D4d  daemons._daemon                       the in-memory retry loop of a daemon on a ghost clock (C09, C11, C08)
  D2w  daemons._wait_for_instant_exit        only waits, bounded, returns early (C09)
  H9   processing.process_watching_cause     raw-event handlers: fresh state, errors ignored, nothing persisted (C07, C15, C11)
  X4   execution.invoke_handler              adjusted cause, context for the duration of the call, one invocation (C02, C11, C04)
  H8c  subhandling.subhandling_context       the implicit execute() after the handler body (C02)
  N4   activities.authenticate/authenticator the re-authentication loop (C12, C20)
  U4   running.stop_flag_checker / ultimate_termination   (C20)
"""
import asyncio
import signal

from pyvc import *
from pyvc.loader import _STOP
from pyvc.stubs import Opaque, NullLogger, Clock, StubLoop, make_sleep
from kopf._core.actions import execution, lifecycles
from kopf._core.engines import activities
from kopf._core.intents import causes, handlers as handlers_

from contracts.c10_timers import Cell, StopEvent

EM = execution.ErrorsMode


class Ghost:
    def __init__(self, **kw):
        self.__dict__.update(kw)


class _Other(Exception):
    """an arbitrary exception unrelated to the framework's classes"""


class _BaseOther(BaseException):
    """an arbitrary non-Exception BaseException"""


def names_of(tr):
    return [ev[0] for ev in tr]


def _run(vc, coro, on_suspend=None):
    """drive a coroutine; -> (result, escaped exception)"""
    try:
        return vc.drive(coro, on_suspend), None
    except BaseException as e:
        if isinstance(e, (PathEnd, Unsupported)):
            raise
        return None, e


# =============================================================================================== D4d
class DState:
    """
    progression.State for ONE handler by contract G3/G2, as the daemon loop uses it:
      done   -- a boolean of the state (the handler has finished: succeeded or failed for good);
      delay  -- None when done; otherwise the time left until the handler's `delayed` moment (`due`, an absolute loop
                time fixed when the outcome was recorded; "now" when nothing was requested), never negative,
                re-computed from the loop clock at every read;
      with_outcomes(o) -- a new state of the same handler; `due` of the new state is whatever the outcome asked for.
    """
    def __init__(self, vc, clock, tag, due=None, done=None):
        self.vc, self.clock, self.tag, self.due = vc, clock, tag, due
        self._done = done
        self.outcomes = None
        self.parent = None

    @property
    def done(self):
        if self._done is None:
            self._done = self.vc.bool(f'done[{self.tag}]')
        return self._done

    @property
    def delays(self):
        if self.done:                       # forks
            return []
        if self.due is None:
            return [0]
        left = self.due - self.clock.now
        return [If(left > 0, left, 0)]

    @property
    def delay(self):
        d = self.delays
        self.vc.emit('state.delay', self)
        return d[0] if d else None

    def with_outcomes(self, outcomes):
        s = DState(self.vc, self.clock, 'after-run', due=self.vc.real('due[after-run]'))
        s.outcomes, s.parent = outcomes, self
        self.vc.emit('with_outcomes', self, s, outcomes)
        return s

    def with_handlers(self, hs):
        raise Unsupported('with_handlers on a state that is already in use')


@harness('D4d', targets='kopf._core.engines.daemons._daemon', props=['C09', 'C11', 'C08'],
         clauses=['no_self_overlap', 'not_started_when_stopped', 'finished_not_invoked_again', 'first_run_after_initial_delay',
                  'retry_not_before_delay', 'state_threaded', 'results_then_patch_applied', 'patch_carried_over',
                  'sleeps_wake_on_stop_only', 'no_spin', 'exits_only_when_stopped_or_done', 'cancellation_propagates'],
         canaries=['canary.never_runs', 'canary.never_sleeps', 'canary.never_exits'],
         trusted=['aiotime.sleep by contract T1 (pyvc.stubs.make_sleep)', 'progression.State by contract G3/G2 (DState)',
                  'execution.execute_handlers_once by contract X2/X1 (suspends; returns outcomes, or is cancelled)',
                  'application.patch_and_check by contract A2 (suspends; returns (version, remaining patch))',
                  'progression.deliver_results: writes the results of the outcomes into the patch given'],
         assumes=['initial_delay is None, a number, or a callable returning a number (kopf.daemon docs)',
                  'the stop flag is only ever raised, never cleared (aioenums.FlagSetter; D2/D3)'],
         clause_props={'patch_carried_over': ['C08'], 'results_then_patch_applied': ['C08'],
                       'retry_not_before_delay': ['C11'], 'finished_not_invoked_again': ['C11', 'C09'],
                       'state_threaded': ['C11'], 'first_run_after_initial_delay': ['C09'],
                       'no_self_overlap': ['C09'], 'not_started_when_stopped': ['C09'], 'sleeps_wake_on_stop_only': ['C09', 'C11'],
                       'no_spin': ['C09'], 'exits_only_when_stopped_or_done': ['C09', 'C11'], 'cancellation_propagates': ['C09']})
def D4d(vc):
    """
    daemons._daemon: ONE arbitrary round of `while not stopper.is_set() and not state.done` (loop contract) from an
    arbitrary loop-head state satisfying the invariant
        stopper set  or  state done  or  clock >= bound        (bound: the moment before which no attempt may start),
        patch is cause.patch, state is a State of this handler, no run in progress.
    Every `await` is a suspension point: the clock advances and the stop flag may get raised (never cleared).
      no_self_overlap            the handler is awaited inside the loop: a run starts only when none is in progress;
      not_started_when_stopped   no attempt starts while the stop flag is set (C09: stop flag first);
      finished_not_invoked_again no attempt starts from a state that is done (C11: no retry after success / permanent
                                 failure / exhausted limits; C09: with D1.forever_stopped "exited on its own, not restarted");
      first_run_after_initial_delay  the loop is first reached not before entry + initial_delay (number, or what the
                                 callable returns for cause.kwargs), unless the stop flag is set; no wait at all without it;
      retry_not_before_delay     an attempt never starts before the `delayed` moment of the state it continues (C11);
      state_threaded             one attempt per round, on exactly [handler] with the cause/settings given and the state
                                 at the loop head; the next state is that state .with_outcomes(the attempt's outcomes);
                                 the first state is State.from_scratch().with_handlers([handler]);
      results_then_patch_applied (C08) the outcomes' results are delivered into the current patch, which is then applied
                                 by patch_and_check(patch=that patch, body, resource, settings) -- in this order, each once;
      patch_carried_over         (C08) afterwards cause.patch := Patch(<remaining patch returned>, body=body), and this is
                                 the patch of the next round;
      sleeps_wake_on_stop_only   every in-memory sleep is aiotime.sleep(..., wakeup=<the stopper's async event>);
      no_spin                    (C09 never stalls) every round contains a suspension point;
      exits_only_when_stopped_or_done   the loop is left (and the function returns normally) only with the stop flag set
                                 or the state done;
      cancellation_propagates    a cancellation thrown into the running handler is not swallowed.
    """
    clock = Clock()
    stop = Cell(vc)
    idk = vc.nondet(3, 'initial_delay: None / number / callable')
    d0 = vc.real('initial_delay') if idk else None
    kw_seen = []
    kwargs = {'some': Opaque('kwarg')}

    def delay_fn(**kw):
        kw_seen.append(kw)
        return d0
    handler = handlers_.DaemonHandler(
        id='d', fn=Opaque('fn'), param=None, errors=None, timeout=None, retries=None, backoff=None,
        selector=None, labels=None, annotations=None, when=None, field=None, value=None,
        requires_finalizer=None, initial_delay=[None, d0, delay_fn][idk],
        cancellation_backoff=None, cancellation_timeout=None, cancellation_polling=None)
    t_entry = clock.now
    G = Ghost(running=False, susp=0, bound=None, head=None, outcomes=None, remaining=None, runs=0, head_patch=None, thrown=None)

    def on_suspend(site):
        G.susp += 1
        clock.advance(0)
        stop.havoc_monotone()
        if site == 'handler run' and vc.nondet(2, 'the running daemon is cancelled?') == 1:
            G.thrown = asyncio.CancelledError()
            return G.thrown

    sleep = make_sleep(clock)
    wake = StopEvent(stop)
    stopper = Opaque('stopper', is_set=lambda: stop.state, async_event=wake)
    body, resource, settings = Opaque('body'), Opaque('resource'), Opaque('settings')
    patch0 = Opaque('patch0')
    cause = Opaque('cause', resource=resource, stopper=stopper, logger=NullLogger(), patch=patch0, body=body, kwargs=kwargs)

    class StateCls:
        @staticmethod
        def from_scratch():
            def with_handlers(hs):
                s = DState(vc, clock, 'fresh')
                vc.emit('fresh_state', hs, s)
                return s
            return Opaque('blank', with_handlers=with_handlers)

    async def execute_handlers_once(**kw):
        st = kw.get('state')
        vc.ensure('no_self_overlap', not G.running)
        vc.ensure('not_started_when_stopped', Not(stop.state))
        vc.ensure('state_threaded', kw.get('handlers') == [handler] and kw.get('cause') is cause and kw.get('settings') is settings
                  and st is G.head and kw.get('lifecycle') is not None
                  and kw.get('default_errors', EM.TEMPORARY) is EM.TEMPORARY)
        if isinstance(st, DState):
            vc.ensure('finished_not_invoked_again', Not(st.done))
        if G.bound is not None:
            vc.ensure('retry_not_before_delay', clock.now >= G.bound)
        vc.canary('canary.never_runs', False)
        G.running = True
        G.runs += 1
        vc.emit('run', clock.now)
        await suspend('handler run')
        G.running = False
        G.outcomes = Opaque('outcomes')
        return G.outcomes

    def deliver_results(**kw):
        vc.emit('deliver_results', kw)

    async def patch_and_check(**kw):
        vc.emit('patch_and_check', kw)
        await suspend('patch_and_check')
        G.remaining = Opaque('remaining_patch', truth=vc.bool('remaining patch is non-empty'))
        return (Opaque('resource-version'), G.remaining)
    new_patches = []

    def Patch(src=None, body=None):
        p = Opaque('Patch', src=src, body=body)
        new_patches.append(p)
        vc.emit('Patch', p)
        return p

    def sleeps_ok(since=0):
        for ev in vc.trace[since:]:
            if ev[0] == 'sleep':
                vc.ensure('sleeps_wake_on_stop_only', ev[2] is wake)

    # ------------------------------------------------------------------------------------- loop contract
    def inv(loc):
        st = loc.get('state')
        if not isinstance(st, DState):
            return False
        ok_time = True if G.bound is None else Or(stop.state, st.done, clock.now >= G.bound)
        return And(ok_time, loc.get('patch') is cause.patch, not G.running)

    def at_entry(loc):
        st = loc.get('state')
        fresh = [ev for ev in vc.trace if ev[0] == 'fresh_state']
        vc.ensure('state_threaded', len(fresh) == 1 and fresh[0][1] == [handler] and st is fresh[0][2])
        if idk:
            vc.ensure('first_run_after_initial_delay', Or(stop.state, clock.now >= t_entry + d0))
            G.bound = t_entry + d0
        else:
            vc.ensure('first_run_after_initial_delay', G.susp == 0)
        if idk == 2:
            vc.ensure('first_run_after_initial_delay', len(kw_seen) == 1 and kw_seen[0] == kwargs)
        vc.ensure('results_then_patch_applied', not any(n in ('run', 'patch_and_check', 'deliver_results') for n in names_of(vc.trace)))
        sleeps_ok()

    def havoc(loc):
        clock.advance(0)
        stop.state = vc.bool('stopper.is_set')
        G.bound = vc.real('bound') if vc.nondet(2, 'a bound is pending?') == 1 else None
        G.head = DState(vc, clock, 'loop-head', due=G.bound)
        G.head_patch = Opaque('patch-carried', truth=vc.bool('carried patch is non-empty'))
        cause.patch = G.head_patch
        G.susp = G.runs = 0
        G.since = len(vc.trace)
        new_patches.clear()
        return {'state': G.head, 'patch': G.head_patch}

    def at_back(loc):
        tr = vc.trace[G.since:]
        names = [n for n in names_of(tr) if n in ('run', 'with_outcomes', 'deliver_results', 'patch_and_check', 'Patch')]
        st = loc.get('state')
        vc.ensure('no_spin', G.susp > 0)
        vc.ensure('state_threaded', G.runs == 1 and names.count('with_outcomes') == 1)
        wo = [ev for ev in tr if ev[0] == 'with_outcomes']
        vc.ensure('state_threaded', len(wo) == 1 and wo[0][1] is G.head and wo[0][3] is G.outcomes and st is wo[0][2])
        # C08: results into the current patch, then that patch is applied, then the remainder is carried over
        vc.ensure('results_then_patch_applied', [n for n in names if n != 'with_outcomes'] == ['run', 'deliver_results', 'patch_and_check', 'Patch'])
        for ev in tr:
            if ev[0] == 'deliver_results':
                vc.ensure('results_then_patch_applied', ev[1].get('outcomes') is G.outcomes and ev[1].get('patch') is G.head_patch)
            if ev[0] == 'patch_and_check':
                kw = ev[1]
                vc.ensure('results_then_patch_applied', kw.get('patch') is G.head_patch and kw.get('body') is body
                          and kw.get('resource') is resource and kw.get('settings') is settings)
        vc.ensure('patch_carried_over', len(new_patches) == 1 and new_patches[0].src is G.remaining and new_patches[0].body is body
                  and cause.patch is new_patches[0] and loc.get('patch') is new_patches[0])
        sleeps_ok(G.since)
        vc.canary('canary.never_sleeps', not any(ev[0] == 'sleep' and ev[4] != 'nosleep' for ev in tr))
        # C11: what this round owes to the next one
        if isinstance(st, DState):
            vc.ensure('retry_not_before_delay', Or(stop.state, st.done, clock.now >= st.due))
            G.bound = st.due
            G.head = st

    def on_exit(loc):
        st = loc.get('state')
        vc.ensure('exits_only_when_stopped_or_done', Or(stop.state, st.done) if isinstance(st, DState) else stop.state)
        vc.canary('canary.never_exits', False)

    ld = vc.load('kopf._core.engines.daemons', '_daemon', stubs={
        'aiotime.sleep': sleep,
        'asyncio.get_running_loop': lambda: StubLoop(clock),
        'progression.State': StateCls,
        'progression.deliver_results': deliver_results,
        'execution.execute_handlers_once': execute_handlers_once,
        'application.patch_and_check': patch_and_check,
        'patches.Patch': Patch,
    }, loops={1: LoopSpec('while not stopper.is_set() and not state.done', name='retry loop', invariant=inv, havoc=havoc,
                          at_entry=at_entry, at_backedge=at_back, on_exit=on_exit,
                          dedup_key=lambda loc: ())})
    vc.used('execution.execute_handlers_once', 'X2'); vc.used('application.patch_and_check', 'A2')
    vc.used('progression.State', 'G3'); vc.used('aiotime.sleep', 'T1')
    result, escaped = _run(vc, ld.fn(settings=settings, handler=handler, cause=cause), on_suspend)
    if G.thrown is not None:
        vc.ensure('cancellation_propagates', escaped is G.thrown)
        return ('cancelled', G.runs)
    vc.ensure('exits_only_when_stopped_or_done', escaped is None and result is None)
    return ('returned', G.runs)
