"""Round-10 contracts (deductive): the key-forming helpers of kopf._cogs.configs.conventions that were covered by bounded
stand-ins only (E4b / E5 / E2b): make_safe_key (E4s), make_suffix (E4x), make_keys (E4k), mark_key (E4m),
remove_annotations (E2r).  make_v2_key / make_v1_key are E4 / E4v1 in c16_storage.py."""
import string

from pyvc import *
from pyvc.stubs import Opaque

from contracts.c16_storage import ALNUM, ID_CHARS, NAME_CHARS, SUFFIX_LEN, chars_in, first_in, last_in, slen


# --------------------------------------------------------------------------- helpers over proxies and plain strings
def char_at(s, i):
    """The one-character string s[i] for 0 <= i < len(s) (no fork)."""
    if isinstance(s, SStr):
        import z3
        t = i.term if isinstance(i, SNum) else z3.IntVal(i)
        return SStr(z3.SubString(s.term, t, 1))
    return s[int(i)]


def safe_char(c):
    """The documented replacement table of make_safe_key, for ONE character: '/' -> '.', '<' and '>' -> '_'."""
    return If(Eq(c, '/'), '.', If(Or(Eq(c, '<'), Eq(c, '>')), '_', c))


class _ReplStr(SStr):
    """
    A symbolic string whose `replace(old, new)` -- for two single CONCRETE characters -- is the CPython built-in BY CONTRACT
    (z3's and cvc5's str.replace_all come back `unknown` on every goal but the length; the python z3 binding has no ReplaceAll
    at all, so the plain SStr proxy raises Unsupported).  The contract of r = s.replace(c, d), quantifier-free instances of
       len(r) == len(s)  and  for all i: r[i] == (d if s[i] == c else s[i]):
     * the length; the equation above at every PROBE index handed in by the harness (its universally quantified `i`, the first
       and the last position); r == s when c does not occur in s; c does not occur in r (when d != c);
     * for every tracked alphabet A (s over A  =>  r over A - {c} + {d}) -- the consequence of the equation by induction on the
       length; the alphabets are computed from the ARGUMENTS of the call, whatever they are.
    Any other use (longer needles, a count, symbolic arguments) is Unsupported: undecided, never a pass.
    """
    def __init__(self, term, vc, probes, alphabets):
        SStr.__init__(self, term)
        self._vc, self._probes, self._alphabets = vc, probes, alphabets

    def replace(self, old, new, count=-1):
        import z3
        vc = self._vc
        if count != -1 or not (type(old) is str and type(new) is str and len(old) == 1 and len(new) == 1):
            raise Unsupported('str.replace other than one concrete character by one concrete character')
        r = vc.str(f'replace({old!r},{new!r})')
        vc.trust('str.replace(c, d) for single characters: same length, characterwise substitution (CPython built-in by contract)')
        vc.assume(Eq(slen(r), slen(self)), 'str.replace contract: same length')
        for p in self._probes:
            inside = And(p >= 0, p < slen(self))
            vc.assume(Implies(inside, Eq(char_at(r, p), If(Eq(char_at(self, p), old), new, char_at(self, p)))),
                      'str.replace contract: characterwise at a probe position')
        vc.assume(Implies(Not(self.contains(old)), Eq(r, self)), 'str.replace contract: nothing to replace')
        if old != new:
            vc.assume(Not(r.contains(old)), 'str.replace contract: no occurrence is left')
        alphabets = []
        for a in self._alphabets:
            a2 = ''.join(sorted((set(a) - {old}) | ({new} if old in a else set())))
            vc.assume(Implies(chars_in(self, a), chars_in(r, a2)), 'str.replace contract: alphabet')
            alphabets.append(a2)
        return _ReplStr(r.term, vc, self._probes, alphabets)


def in_class(c, chars):
    """The one-character string c is one of `chars`."""
    if isinstance(c, SStr):
        import z3
        from contracts.c16_storage import _re_of
        return SBool(z3.InRe(c.term, _re_of(chars)))
    return len(c) == 1 and c in chars


# =========================================================================== E4s
@harness('E4s', targets='kopf._cogs.configs.conventions.StorageKeyFormingConvention.make_safe_key',
         props=['C16', 'C02', 'C03', 'C04', 'C08', 'C14'],
         clauses=['same_length', 'characterwise', 'name_charset', 'ends_keep_their_class', 'clean_id_verbatim'],
         canaries=['canary.unchanged', 'canary.always_changed'],
         trusted=['str.replace(c, d) for single concrete characters by contract: same length, r[i] == (d if s[i] == c else s[i]) '
                  '(instantiated at the probe positions and, by induction, for the tracked alphabets); see _ReplStr'],
         timeout_ms=20000)
def E4s(vc):
    """
    make_safe_key(id) for EVERY string id (symbolic; the loop over the fixed replacement table runs natively, str.replace by
    contract, see _ReplStr):
      same_length            len(result) == len(id)   (E4/E4v1 cut the SAFE key at lengths computed from the id)
      characterwise          for every position i: result[i] is '.' if id[i] is '/', '_' if id[i] is '<' or '>', id[i] otherwise
                             (i is a free variable of the obligation, i.e. universally quantified) -- the documented table
      name_charset           an id over [A-Za-z0-9_./<>-] gives a result over [A-Za-z0-9_.-] (what Kubernetes allows in a name)
      ends_keep_their_class  the first/last character of the result is alphanumeric iff that of the id is (E4 assumes this)
      clean_id_verbatim      an id without '/', '<', '>' is returned as it is (short ids are kept verbatim)
    """
    key0 = vc.str('id')
    i = vc.int('i')
    if isinstance(key0, SStr):
        n = slen(key0)
        key = _ReplStr(key0.term, vc, [i, 0, n - 1], [ID_CHARS])
    else:
        key = key0
    vc.assume(And(i >= 0, i < slen(key)), 'an arbitrary position of the id (ids are not empty)')
    ld = vc.load('kopf._cogs.configs.conventions', 'StorageKeyFormingConvention.make_safe_key')
    r = ld.fn(key)
    last_k, last_r = slen(key) - 1, slen(r) - 1
    vc.ensure('same_length', Eq(slen(r), slen(key)))
    vc.ensure('characterwise', Eq(char_at(r, i), safe_char(char_at(key, i))))
    vc.ensure('name_charset', Implies(chars_in(key, ID_CHARS), chars_in(r, NAME_CHARS)))
    vc.ensure('ends_keep_their_class', Iff(in_class(char_at(r, 0), ALNUM), in_class(char_at(key, 0), ALNUM)))
    vc.ensure('ends_keep_their_class', Iff(in_class(char_at(r, last_r), ALNUM), in_class(char_at(key, last_k), ALNUM)))
    clean = And(*[Not(key.contains(c)) if isinstance(key, SStr) else c not in key for c in '/<>'])
    vc.ensure('clean_id_verbatim', Implies(clean, Eq(r, key)))
    vc.canary('canary.unchanged', Eq(r, key))
    vc.canary('canary.always_changed', Not(Eq(r, key)))
    return ('safe', r)


# =========================================================================== E4x
B64_STD = string.ascii_uppercase + string.ascii_lowercase + string.digits      # + the two altchars


class _StripStr(SStr):
    """A symbolic string whose rstrip(<concrete characters>) is the CPython built-in by its (exact) contract: the result is a
    prefix of the string, what was cut off consists of the given characters only, and the result does not end with one of
    them.  Concatenation keeps the class.  Other strip variants stay unmodelled (fresh string / Unsupported)."""
    def __init__(self, term, vc, calls):
        SStr.__init__(self, term)
        self._vc, self._calls = vc, calls       # calls: the rstrip calls of this path so far (rstrip is a function)

    def __add__(self, o):
        r = SStr.__add__(self, o)
        return r if r is NotImplemented else _StripStr(r.term, self._vc, self._calls)

    def __radd__(self, o):
        r = SStr.__radd__(self, o)
        return r if r is NotImplemented else _StripStr(r.term, self._vc, self._calls)

    def rstrip(self, chars=None):
        import z3
        from contracts.c16_storage import _any, _re_of
        if type(chars) is not str or not chars:
            raise Unsupported('str.rstrip without a concrete set of characters')
        vc = self._vc
        r, cut = vc.str('rstrip'), vc.str('rstrip.cut')
        vc.trust('str.rstrip(chars) by contract: s == r + cut, cut over chars, r does not end with one of chars')
        functional = [Implies(Eq(s2, self), Eq(r2, r)) for s2, c2, r2 in self._calls if set(c2) == set(chars)]
        vc.assume(And(Eq(self, r + cut), chars_in(cut, chars), Not(last_in(r, chars)), *functional),
                  'str.rstrip contract: a prefix; only the given characters are cut; nothing more to cut; a function of its arguments')
        self._calls.append((self, chars, r))
        return _StripStr(r.term, vc, self._calls)


class _IdStr(SStr):
    """The symbolic id as the hash sees it: encode() hands out a token that remembers which string was encoded, and how."""
    def encode(self, encoding='utf-8', errors='strict'):
        return _Encoded(self, encoding, errors)

    def __getitem__(self, k):           # a part of the id is still a string that can be encoded -- but no longer the id
        return _IdStr(SStr.__getitem__(self, k).term)

    def __add__(self, o):
        r = SStr.__add__(self, o)
        return r if r is NotImplemented else _IdStr(r.term)

    def __radd__(self, o):
        r = SStr.__radd__(self, o)
        return r if r is NotImplemented else _IdStr(r.term)


class _Encoded:
    def __init__(self, origin, encoding, errors):
        self.origin, self.encoding, self.errors = origin, encoding, errors


def b64_shape(s, nbytes, altchars):
    """RFC 4648 for `nbytes` bytes, the alphabet's last two characters replaced by `altchars`: ceil(8n/6) data characters (the last
    one carries 6, 4 or 2 significant bits), padded with '=' to a multiple of 4."""
    import math
    alphabet = B64_STD + altchars
    ndata, npad = math.ceil(8 * nbytes / 6), (3 - nbytes % 3) % 3
    last = {0: alphabet, 2: alphabet[::4], 1: alphabet[::16]}[nbytes % 3]
    if isinstance(s, SStr):
        import z3
        from contracts.c16_storage import _re_of
        parts = [_re_of(alphabet)] * (ndata - 1) + [_re_of(last)] + [z3.Re('=')] * npad
        return SBool(z3.InRe(s.term, z3.Concat(*parts) if len(parts) > 1 else parts[0]))
    return len(s) == ndata + npad and all(c in alphabet for c in s[:ndata - 1]) and s[ndata - 1] in last and s[ndata:] == '=' * npad


LOSSLESS_ENCODINGS = ('utf-8', 'utf8', 'utf_8', 'utf-16', 'utf-32', 'ascii', 'latin-1')


@harness('E4x', targets='kopf._cogs.configs.conventions.StorageKeyFormingConvention.make_suffix',
         props=['C16', 'C02', 'C03', 'C04', 'C08', 'C14', 'C05'],
         prop_clauses={'C05': ['function_of_the_id_only', 'hashes_the_whole_id']},
         clauses=['suffix_shape', 'hashes_the_whole_id', 'function_of_the_id_only', 'stateless'],
         canaries=['canary.nothing_hashed', 'canary.another_length', 'canary.ends_with_a_dot'],
         trusted=['hashlib.blake2b(data, digest_size=n).digest(): n bytes, a function of data (and of the constant keyword arguments) only',
                  'base64.b64encode(bytes, altchars=xy).decode(): the RFC 4648 shape for len(bytes) bytes over [A-Za-z0-9xy] with "=" padding, '
                  'a function of the bytes only',
                  'str.rstrip(chars) by its exact contract (see _StripStr); str.encode by contract: lossless for the listed encodings'],
         timeout_ms=20000)
def E4x(vc):
    """
    make_suffix(id), called once / twice on one storage object with arbitrary ids (hash and base64 by trusted contract):
      suffix_shape             the result is "-" + 5 characters of [A-Za-z0-9.-] + 1 alphanumeric: 7 characters (what E4 / E4v1 assume
                               when they cut the name to 63), only characters allowed in a Kubernetes name, alphanumeric at the end
      hashes_the_whole_id      each call hashes, once, the id it was given -- the whole string, losslessly encoded, with constant
                               parameters -- and encodes exactly that digest (long ids sharing a prefix differ in their hash input)
      function_of_the_id_only  the same id gives the same suffix again (identical across calls and restarts: nothing but the id is read,
                               hash / base64 / rstrip being functions of their arguments)
      stateless                the storage object is neither read nor written (it has no attributes here), every call hashes anew
    """
    hashed, encoded, rstrips = [], [], []
    twice = vc.nondet(2, 'one call (shape) | two calls on one object (determinism)') == 1

    class _Hash:
        def __init__(self, data, kw):
            self.data, self.kw = data, kw

        def digest(self):
            return _Digest(self)

    class _Digest:
        def __init__(self, h):
            self.h = h

    class _B64:
        def __init__(self, text):
            self.text = text

        def decode(self, encoding='utf-8', errors='strict'):
            return self.text

    def blake2b(data=b'', **kw):
        hashed.append((data, kw))
        return _Hash(data, kw)

    def same_data(d1, d2):
        if isinstance(d1, _Encoded) and isinstance(d2, _Encoded):
            return And(Eq(d1.origin, d2.origin), d1.encoding == d2.encoding, d1.errors == d2.errors)
        return isinstance(d1, bytes) and isinstance(d2, bytes) and d1 == d2

    def b64encode(s, altchars=None):
        # (the same stub in the concrete re-run: the "digest" is whatever the solver's model chose within the contract)
        if not isinstance(s, _Digest) or not isinstance(s.h.kw.get('digest_size', 64), int):
            raise Unsupported('b64encode of something else than a digest')
        alt = (altchars or b'+/').decode('ascii')
        text = vc.str('b64')
        data, kw = s.h.data, s.h.kw
        functional = [Implies(And(same_data(d2, data), kw2 == kw, alt2 == alt), Eq(t2, text)) for d2, kw2, alt2, t2 in encoded]
        vc.assume(And(b64_shape(text, kw.get('digest_size', 64), alt), *functional),
                  'base64 contract: RFC 4648 shape; hash and base64 are functions of their arguments')
        encoded.append((data, kw, alt, text))
        return _B64(_StripStr(text.term, vc, rstrips) if isinstance(text, SStr) else text)

    ids = [vc.str('id1')] * (2 if twice else 1)         # the SAME id twice: same input -> same output
    sym = isinstance(ids[0], SStr)
    me = Opaque('storage')
    before = dict(vars(me))
    ld = vc.load('kopf._cogs.configs.conventions', 'StorageKeyFormingConvention.make_suffix',
                 stubs={'hashlib.blake2b': blake2b, 'base64.b64encode': b64encode})
    results = []
    for n, key in enumerate(ids):
        arg = _IdStr(key.term) if sym else key
        r = ld.fn(me, arg)
        results.append(r)
        if not twice:
            vc.ensure('suffix_shape', And(slen(r) == SUFFIX_LEN, first_in(r, '-'), last_in(r, ALNUM)))
            vc.ensure('suffix_shape', chars_in(r, ALNUM + '.-'))
        ok = len(hashed) == n + 1 and len(encoded) == n + 1
        if ok:
            data, kw = hashed[n]
            ok = encoded[n][0] is data and all(isinstance(v, (int, bytes)) for v in kw.values())
        if ok and sym:
            ok = isinstance(data, _Encoded) and data.encoding.lower() in LOSSLESS_ENCODINGS and data.errors == 'strict' and Eq(data.origin, key)
        elif ok:
            ok = any(data == key.encode(e) for e in LOSSLESS_ENCODINGS if _encodable(key, e))
        vc.ensure('hashes_the_whole_id', ok)
        if not twice:
            vc.canary('canary.another_length', Not(slen(r) == SUFFIX_LEN))
            vc.canary('canary.ends_with_a_dot', r.endswith('.'))
    if twice:
        vc.ensure('function_of_the_id_only', Eq(results[0], results[1]))
    vc.ensure('stateless', vars(me) == before)
    vc.canary('canary.nothing_hashed', len(hashed) == 0)
    return ('suffix', len(results))


def _encodable(s, enc):
    try:
        s.encode(enc)
        return True
    except UnicodeError:
        return False


# =========================================================================== E4m
MARK = '-ofDRS'


def _same_structure(a, b):
    """Two JSON-like structures with proxy leaves are the same: same keys/lengths, the very same leaf objects."""
    if isinstance(a, dict) and isinstance(b, dict):
        return list(a) == list(b) and all(_same_structure(a[k], b[k]) for k in a)
    if isinstance(a, list) and isinstance(b, list):
        return len(a) == len(b) and all(_same_structure(x, y) for x, y in zip(a, b))
    return a is b or (not isinstance(a, SV) and not isinstance(b, SV) and type(a) is type(b) and a == b)


def _copy_structure(a):
    if isinstance(a, dict):
        return {k: _copy_structure(v) for k, v in a.items()}
    if isinstance(a, list):
        return [_copy_structure(v) for v in a]
    return a


def _draw_object(vc):
    """A Kubernetes object as far as key marking may look at it: kind absent / null / an arbitrary string; no metadata, no
    ownerReferences, an empty list, or 1..3 owners of arbitrary kinds.  Returns (raw dict, `it is a ReplicaSet owned by a Deployment`)."""
    raw = {'apiVersion': 'apps/v1', 'spec': {'replicas': 1}}
    kind_shape = vc.nondet(3, 'kind: absent / null / a string')
    kind = None
    if kind_shape == 1:
        raw['kind'] = None
    elif kind_shape == 2:
        kind = raw['kind'] = vc.str('kind')
    owners_shape = vc.nondet(6, 'ownerReferences: no metadata / absent / [] / 1 / 2 / 3 owners')
    owner_kinds = []
    if owners_shape >= 1:
        raw['metadata'] = {'name': 'obj', 'namespace': 'ns', 'annotations': {'user': 'data'}}
    if owners_shape >= 2:
        owner_kinds = [vc.str(f'owner{n}.kind') for n in range(owners_shape - 2)]
        raw['metadata']['ownerReferences'] = [{'apiVersion': 'apps/v1', 'kind': k, 'name': f'owner{n}', 'uid': f'uid{n}', 'controller': n == 0}
                                              for n, k in enumerate(owner_kinds)]
    is_drs = And(kind is not None, Eq(kind, 'ReplicaSet') if kind is not None else False, Or(*[Eq(k, 'Deployment') for k in owner_kinds]) if owner_kinds else False)
    return raw, is_drs


@harness('E4m', targets='kopf._cogs.configs.conventions.CollisionEvadingConvention.mark_key',
         props=['C16', 'C02', 'C03', 'C14', 'C05', 'C06', 'C08', 'C15', 'C04'],
         clauses=['marked_iff_replicaset_of_deployment', 'mark_is_name_safe', 'marked_keys_stay_distinct', 'body_untouched', 'stateless'],
         canaries=['canary.never_marked', 'canary.always_marked'],
         assumes=['every owner reference has a `kind` (a required field of the Kubernetes OwnerReference)'],
         timeout_ms=20000)
def E4m(vc):
    """
    mark_key(key, body=) for EVERY key and every object (kind absent/null/arbitrary; 0..3 owner references of arbitrary kinds,
    no ownerReferences, no metadata), called for two keys on the same object:
      marked_iff_replicaset_of_deployment  the result is key + "-ofDRS" if the object's kind is ReplicaSet AND one of its owners
                                           (at any position) is a Deployment; the key itself otherwise  (class docstring: the
                                           annotations Kubernetes copies down from the Deployment must not be taken for the ReplicaSet's)
      mark_is_name_safe                    a marked key over [A-Za-z0-9_.-] stays over it and ends with an alphanumeric
      marked_keys_stay_distinct            two keys get the same marked key only if they are the same key (no record disturbs another's)
      body_untouched                       the object is only read;  stateless: the second call is answered for ITS key
    """
    from kopf._cogs.structs import bodies
    raw, is_drs = _draw_object(vc)
    before = _copy_structure(raw)
    body = bodies.Body(raw)
    key, key2 = vc.str('key'), vc.str('key2')
    me = Opaque('storage')
    me_before = dict(vars(me))
    ld = vc.load('kopf._cogs.configs.conventions', 'CollisionEvadingConvention.mark_key')
    r = ld.fn(me, key, body=body)
    r2 = ld.fn(me, key2, body=body)
    vc.ensure('marked_iff_replicaset_of_deployment', Eq(r, If(is_drs, key + MARK, key)))
    vc.ensure('stateless', Eq(r2, If(is_drs, key2 + MARK, key2)))
    vc.ensure('mark_is_name_safe', Implies(chars_in(key, NAME_CHARS), chars_in(r, NAME_CHARS)))
    vc.ensure('mark_is_name_safe', Implies(is_drs, last_in(r, ALNUM)))
    vc.ensure('marked_keys_stay_distinct', Implies(Eq(r, r2), Eq(key, key2)), z3_ms=300)
    vc.ensure('marked_keys_stay_distinct', Implies(is_drs, Not(Eq(r, key))))
    vc.ensure('body_untouched', _same_structure(raw, before) and vars(me) == me_before)
    vc.canary('canary.never_marked', Eq(r, key))
    vc.canary('canary.always_marked', Not(Eq(r, key)))
    return ('marked', r)


# =========================================================================== E4k
def _decide_eq(a, b):
    r = Eq(a, b)
    return bool(r)          # forks on a symbolic equality


class _StrSet:
    """The built-in set/frozenset over (symbolic) strings as far as key forming uses it: built from an iterable (whether two
    members are equal is decided by forking), difference, union, intersection, membership, iteration, len, truth."""
    def __init__(self, items=()):
        self.items = []
        for x in items:
            if not any(_decide_eq(x, y) for y in self.items):
                self.items.append(x)

    def __contains__(self, x):
        return any(_decide_eq(x, y) for y in self.items)

    def __sub__(self, other):
        return _StrSet([x for x in self.items if x not in _StrSet(other)])

    def __and__(self, other):
        return _StrSet([x for x in self.items if x in _StrSet(other)])

    def __or__(self, other):
        return _StrSet(self.items + list(other))

    difference, intersection, union = __sub__, __and__, __or__

    def __iter__(self):
        return iter(list(self.items))

    def __len__(self):
        return len(self.items)

    def vc_len(self):
        return len(self.items)


@harness('E4k', targets='kopf._cogs.configs.conventions.StorageKeyFormingConvention.make_keys',
         props=['C16', 'C02', 'C03', 'C04', 'C08', 'C14', 'C05'],
         clauses=['v2_key_first', 'v1_key_iff_enabled_and_different', 'marker_before_cutting', 'unmarked_without_body',
                  'each_call_answers_for_its_own_body'],
         canaries=['canary.single_key', 'canary.two_keys', 'canary.never_marked'],
         trusted=['set/frozenset of strings by contract (see _StrSet): equal members collapse, difference/union/intersection'],
         assumes=['make_v2_key / make_v1_key (E4 / E4v1) are functions of their argument; nothing else of their contracts is used here',
                  'mark_key by contract E4m: key + "-ofDRS" for a ReplicaSet owned by a Deployment, the key itself otherwise'],
         timeout_ms=20000)
def E4k(vc):
    """
    make_keys(id, body=) called TWICE on ONE storage object with the same id and every ordered pair of bodies out of {no body,
    an ordinary object, a ReplicaSet owned by a Deployment}; v1 on/off; make_v2_key / make_v1_key / mark_key by contract:
      v2_key_first                        the first key is make_v2_key(marked id)
      v1_key_iff_enabled_and_different    with v1 on and make_v1_key(marked id) different from the v2 key the result is exactly
                                          [v2 key, v1 key]; otherwise exactly [v2 key] (no duplicates, nothing else)
      marker_before_cutting               make_v2_key / make_v1_key receive the MARKED id (the mark takes part in the length cut and
                                          the hash; nothing is appended to their results), and only that
      unmarked_without_body               without a body the id itself is used and mark_key is not consulted
      each_call_answers_for_its_own_body  the second call obeys the same clauses for ITS body (no memory of the first call)
    """
    from kopf._cogs.structs import bodies
    rs_body = bodies.Body({'apiVersion': 'apps/v1', 'kind': 'ReplicaSet', 'metadata': {'name': 'rs', 'ownerReferences': [
        {'apiVersion': 'apps/v1', 'kind': 'Deployment', 'name': 'd', 'uid': 'u', 'controller': True}]}})
    plain_body = bodies.Body({'apiVersion': 'example.com/v1', 'kind': 'KopfExample', 'metadata': {'name': 'obj'}})
    choices = [None, plain_body, rs_body]
    sequence = [choices[vc.nondet(3, 'first call: no body / ordinary object / ReplicaSet of a Deployment')],
                choices[vc.nondet(3, 'second call: no body / ordinary object / ReplicaSet of a Deployment')]]
    key = vc.str('id')
    v1 = vc.bool('storage.v1')
    by_code = [True]
    calls = {'v1': [], 'v2': []}            # (argument, result, asked by the code?)
    mark_calls = []

    def key_maker(version):
        def make(arg, *more, **kw):
            if more or kw:
                raise Unsupported(f'make_{version}_key with a max_length')
            r = vc.str(f'{version}-key')
            functional = [Implies(Eq(a2, arg), Eq(r2, r)) for a2, r2, _ in calls[version]]
            if functional:
                vc.assume(And(*functional), f'make_{version}_key is a function of its argument')
            calls[version].append((arg, r, by_code[0]))
            return r
        return make

    def mark_key(k, *, body):
        mark_calls.append((k, body))
        return k + MARK if body is rs_body else k
    vc.used('self.make_v2_key', 'E4')
    vc.used('self.make_v1_key', 'E4v1')
    vc.used('self.mark_key', 'E4m')
    me = Opaque('storage', v1=v1)
    me.make_v2_key, me.make_v1_key, me.mark_key = key_maker('v2'), key_maker('v1'), mark_key
    me_before = dict(vars(me))
    ld = vc.load('kopf._cogs.configs.conventions', 'StorageKeyFormingConvention.make_keys', stubs={'set': _StrSet, 'frozenset': _StrSet})
    summary = []
    for n, body in enumerate(sequence):
        seen = {v: len(calls[v]) for v in calls}
        n_marks = len(mark_calls)
        by_code[0] = True
        got = list(ld.fn(me, key) if body is None else ld.fn(me, key, body=body))
        by_code[0] = False
        marked = key + MARK if body is rs_body else key
        asked = {v: [c for c in calls[v][seen[v]:] if c[2]] for v in calls}
        want2, want1 = me.make_v2_key(marked), me.make_v1_key(marked)
        both = And(v1, Not(Eq(want1, want2)))
        own = ['each_call_answers_for_its_own_body'] if n else []
        for clause in ['v2_key_first'] + own:
            vc.ensure(clause, len(got) >= 1 and Eq(got[0], want2))
        for clause in ['v1_key_iff_enabled_and_different'] + own:
            vc.ensure(clause, And(Implies(both, len(got) == 2 and Eq(got[-1], want1)), Implies(Not(both), len(got) == 1)))
        for clause in ['marker_before_cutting'] + own:
            vc.ensure(clause, len(asked['v2']) >= 1)
            for a, _, _ in asked['v2'] + asked['v1']:
                vc.ensure(clause, Eq(a, marked))
        if body is None:
            vc.ensure('unmarked_without_body', len(mark_calls) == n_marks)
        else:
            vc.ensure('marker_before_cutting', all(b is body for _, b in mark_calls[n_marks:]))
        vc.canary('canary.single_key', len(got) == 1)
        vc.canary('canary.two_keys', len(got) == 2)
        summary.append(len(got))
    vc.ensure('each_call_answers_for_its_own_body', vars(me) == me_before)
    vc.canary('canary.never_marked', not any(b is rs_body for _, b in mark_calls))
    return ('keys', tuple(summary))


# =========================================================================== E2r
class _KeyStr(SStr):
    """A symbolic string that can be a dict key / set member: every such key hashes alike, and whether two keys are EQUAL is decided
    by forking the path -- so real dicts, sets and frozensets work on them with Python's own semantics.  (Only sound among keys of
    this class: a container must not mix them with plain strings, whose hashes differ.)"""
    def __hash__(self):
        return 0

    def __eq__(self, o):
        r = SStr.__eq__(self, o)
        return bool(r) if isinstance(r, SBool) else r

    def __ne__(self, o):
        return not self.__eq__(o)


def _sym_eq(a, b):
    """Equality of two keys as a formula (no fork)."""
    return SStr.__eq__(a, b) if isinstance(a, SStr) else a == b


@harness('E2r', targets='kopf._cogs.configs.conventions.StorageStanzaCleaner.remove_annotations',
         props=['C04', 'C03', 'C16', 'C05'],
         clauses=['named_annotations_removed', 'other_annotations_kept', 'nothing_else_touched', 'no_crash'],
         canaries=['canary.nothing_removed', 'canary.something_removed'],
         assumes=['the essence is a dict whose metadata / metadata.annotations, if present, are dicts (DiffBaseStorage.build); '
                  'annotation keys and the keys to remove are ARBITRARY strings (symbolic, see _KeyStr), values arbitrary strings; '
                  'a partially concrete dict instead of SJson: the function iterates the annotations and builds a new dict, which the '
                  'SJson proxy does not support (no iteration / items())'],
         timeout_ms=20000)
def E2r(vc):
    """
    remove_annotations(essence, keys_to_remove) for essences {no metadata, metadata without annotations, 0..3 annotations with
    arbitrary keys and values} and keys_to_remove = 0..2 arbitrary strings (possibly equal to each other, to some annotation
    keys, or to none) as set / frozenset / list / tuple:
      named_annotations_removed  every annotation whose key is among keys_to_remove is gone afterwards
      other_annotations_kept     every other annotation is still there, with the very same value; no annotation appears
      nothing_else_touched       everything outside metadata.annotations -- spec, status, labels, other metadata, the essence's own
                                 key set -- is the same object with the same content; metadata / annotations are not created when absent
      no_crash                   no exception, also when metadata or annotations are absent or empty
    """
    shape = vc.nondet(5, 'essence: no metadata / no annotations / {} / 1 / 2..3 annotations')
    spec, status, labels = {'x': 1, 'nested': {'y': [1, 2]}}, {'s': 1}, {'l': 'v'}
    essence = {'spec': spec, 'status': status}
    sym = not vc.concrete

    def key(name):
        k = vc.str(name)
        return _KeyStr(k.term) if isinstance(k, SStr) else k
    pairs = []
    if shape >= 1:
        essence['metadata'] = {'labels': labels, 'name': 'obj'}
    if shape >= 2:
        n = {2: 0, 3: 1, 4: 3}[shape]
        pairs = [(key(f'annotation{i}'), vc.str(f'value{i}')) for i in range(n)]
        essence['metadata']['annotations'] = dict(pairs)           # equal keys collapse (decided by forking): the later value wins
    ann0 = essence.get('metadata', {}).get('annotations')
    original = dict(ann0) if ann0 is not None else None
    n_remove = vc.nondet(3, 'keys to remove: 0 / 1 / 2')
    to_remove = [key(f'remove{i}') for i in range(n_remove)]
    cast = [set, frozenset, list, tuple][vc.nondet(4, 'keys_to_remove as set / frozenset / list / tuple')]
    keys_to_remove = cast(to_remove)
    top_keys, md0 = list(essence), essence.get('metadata')
    md_keys = list(md0) if md0 is not None else None
    ld = vc.load('kopf._cogs.configs.conventions', 'StorageStanzaCleaner.remove_annotations')
    try:
        result = ld.fn(essence, keys_to_remove)
    except (PathEnd, Unsupported):
        raise
    except Exception as e:
        vc.ensure('no_crash', False, note=repr(e))
        vc.canary('canary.nothing_removed', True)
        vc.canary('canary.something_removed', True)
        return ('crash', type(e).__name__)
    vc.ensure('no_crash', result is None)
    # -- the frame
    frame = (list(essence) == top_keys and essence['spec'] is spec and essence['status'] is status and essence.get('metadata') is md0
             and spec == {'x': 1, 'nested': {'y': [1, 2]}} and status == {'s': 1} and labels == {'l': 'v'})
    if md0 is not None:
        frame = frame and [k for k in md0 if k != 'annotations'] == [k for k in md_keys if k != 'annotations'] \
            and md0['labels'] is labels and md0['name'] == 'obj' and ('annotations' in md0) == ('annotations' in md_keys)
    vc.ensure('nothing_else_touched', frame)
    # -- the annotations
    after = essence.get('metadata', {}).get('annotations')
    removed_any = False
    if original is None:
        vc.ensure('other_annotations_kept', after is None)
    else:
        vc.ensure('other_annotations_kept', isinstance(after, dict) and len(after) <= len(original))
        for k, v in original.items():
            named = Or(*[_sym_eq(k, r) for r in to_remove]) if to_remove else False
            present = k in after                                   # decided on this path (forks)
            vc.ensure('named_annotations_removed', Implies(named, not present))
            vc.ensure('other_annotations_kept', Implies(Not(named), present and after[k] is v))
            removed_any = removed_any or not present
        for k in after:
            vc.ensure('other_annotations_kept', k in original)
    vc.canary('canary.nothing_removed', not removed_any)
    vc.canary('canary.something_removed', removed_any)
    return ('removed', len(after) if after is not None else None)
