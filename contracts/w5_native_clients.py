"""Round-11 contracts: structure-independent companions (`sizes_only=True`) of the client-side contracts A3/A4
(patching.patch_obj) and N2 (api.request).

A3 stubs `api.patch` and `patches.Patch` by the names the source spells and states its clauses over a ghost trace; N2 cuts the
retry loop by a loop contract anchored to the loop header.  A restructured patch_obj / request (requests sent through a local
helper, the retry loop rewritten, the Retry-After parsing moved into a module-level function) may leave them undecided.  The
harnesses here run the REAL functions NATIVELY -- whatever helpers they use, the real `patches.Patch.as_json_patch` and
`jsonpatch`, the real `finalizers.block_deletion/allow_deletion`, the real `errors.check_response` -- against a small STATEFUL
model of the API server (A3n) or a scripted session (N2n), and rely only on the functions' signatures, on the requests that
reach the collaborators and on what is returned/raised.  Module attributes reached from natively-run helpers are replaced in the
(forked, per-harness) process.  Exhaustive for the stated sizes, labelled B in the evidence, never counted as proved."""
import asyncio
import contextlib
import copy
import functools
import types

import aiohttp
import jsonpatch

from pyvc import *
from pyvc.loader import _STRIP_DEFAULT
from pyvc.stubs import NullLogger

from kopf._cogs.clients import api, errors, patching
from kopf._cogs.structs import bodies, finalizers, patches, references

MERGE = 'application/merge-patch+json'
JSONP = 'application/json-patch+json'
NS, NAME = 'ns1', 'obj1'
FIN = 'kopf.zalando.org/KopfFinalizerMarker'


@contextlib.contextmanager
def patched(module, **attrs):
    old = {k: getattr(module, k) for k in attrs}
    for k, v in attrs.items():
        setattr(module, k, v)
    try:
        yield
    finally:
        for k, v in old.items():
            setattr(module, k, v)


def _not_ours(e):
    return isinstance(e, (PathEnd, Unsupported))


# =============================================================================================== A3n
def _merge(doc, patch):
    """RFC 7386 on plain dicts (in place)."""
    for k, v in patch.items():
        if v is None:
            doc.pop(k, None)
        elif isinstance(v, dict):
            if not isinstance(doc.get(k), dict):
                doc[k] = {}
            _merge(doc[k], v)
        else:
            doc[k] = copy.deepcopy(v)


def _touches_status(ctype, payload):
    if ctype == MERGE:
        return isinstance(payload, dict) and 'status' in payload
    return any(isinstance(o, dict) and o.get('op') != 'test' and (o.get('path') == '/status' or str(o.get('path', '')).startswith('/status/'))
               for o in (payload if isinstance(payload, list) else []))


def _touches_other(ctype, payload):
    if ctype == MERGE:
        return isinstance(payload, dict) and any(k != 'status' for k in payload)
    return any(isinstance(o, dict) and o.get('op') != 'test' and not (o.get('path') == '/status' or str(o.get('path', '')).startswith('/status/'))
               for o in (payload if isinstance(payload, list) else []))


def _set_status_z(body):
    body.setdefault('status', {})['z'] = 1


def _sans_version(doc, *, drop=()):
    d = copy.deepcopy(doc)
    d.get('metadata', {}).pop('resourceVersion', None)
    for k in drop:
        d.pop(k, None)
    return d


class _Rq:
    def __init__(self, no, endpoint, ctype, payload):
        self.no, self.endpoint, self.ctype, self.payload = no, endpoint, ctype, payload
        self.outcome, self.error, self.response = None, None, None
        self.before, self.after, self.client_knew_current = None, None, None

    def brief(self):
        return (self.endpoint, 'merge' if self.ctype == MERGE else 'json' if self.ctype == JSONP else str(self.ctype), self.outcome)


@harness('A3n', targets=['kopf._cogs.clients.patching.patch_obj'], props=['C08', 'C06', 'C03'], sizes_only=True,
         clauses=['status_through_subresource_iff_present', 'merge_patch_errors_escalate', 'not_found_ends_silently',
                  'fns_tested_against_the_version', 'remaining_patch_carries_exactly_the_unapplied_fns',
                  'at_most_one_request_per_part', 'returns_latest_body'],
         canaries=['canary.never_conflicts', 'canary.never_raises', 'canary.never_json_patches'],
         trusted=['api.patch (-> N2/N1): sends one PATCH with the given url/payload/headers; returns the stored object or raises the APIError subclass of the status',
                  'the API server (model): a merge-patch is applied per RFC 7386, a JSON-patch atomically per RFC 6902 (real `jsonpatch`; a failed '
                  '`test` op or an inapplicable op => 422); with a status subresource the main endpoint ignores `status` and the status endpoint '
                  'everything else, without one the status endpoint does not exist (404); every accepted write bumps metadata.resourceVersion',
                  'patches.Patch.as_json_patch by contracts A5/A5j, finalizers.block_deletion/allow_deletion by contracts F1/F2 (run as real code here)',
                  'references.Resource.get_url by contract (run as real code)'],
         assumes=['a resource with / without the status subresource; a patch of the shapes {metadata+spec fields, metadata+spec+status fields, metadata+spec fields and status: None, fns '
                  'only, fields and fns}; fns in {[block_deletion], [allow_deletion], [block_deletion, a status edit]}; the event body the patch was '
                  'computed for is current, or a foreign writer has added a finalizer since; at most one more foreign write while a JSON-patch request '
                  'is in flight; every request is answered by the server model or with a scripted 404 / 422 / 500 / 403; silent in {False, True}',
                  'patch.fns non-empty ==> the patch carries the body it was computed for (call sites: processing, daemons)'])
def A3n(vc):
    """
    patch_obj run natively against a stateful model of the API server (see `trusted`), over real Patch objects:
      status_through_subresource_iff_present  status content travels to the status endpoint exactly when the resource has that
                                  subresource (and nothing else travels there); when every request was accepted, the stored object
                                  has every field of the patch -- metadata, spec AND status;
      merge_patch_errors_escalate a 422 / 500 / 403 answered to a MERGE-patch request, and a 500 / 403 answered to a JSON-patch
                                  request, escapes as that very error: nothing is swallowed, the call does not end as if it had
                                  succeeded; nothing is raised when no request failed so (only 404 ends patching silently; only a
                                  422 on a JSON-patch request is a version conflict);
      not_found_ends_silently     404 to any request => (None, None), nothing raised;
      fns_tested_against_the_version  every JSON-patch request carries a `test` op on /metadata/resourceVersion for the version of a
                                  state the client has seen (the body the patch was computed for, or a response); whenever the server
                                  ACCEPTS a JSON-patch, what it wrote is exactly the effect of the fns on the state it had at that
                                  moment (foreign finalizers neither dropped nor reordered: nothing computed from a stale state is
                                  written); and a JSON-patch sent while the freshest state the client has seen is still current is
                                  not rejected by its own version test (the fns are applied eventually);
      remaining_patch_carries_exactly_the_unapplied_fns  a 422 to a JSON-patch request => returns a remaining Patch with ALL the fns of
                                  the patch (same objects, same order) and no fields; all requests accepted => no remaining patch;
                                  the patch handed in is not consumed;
      at_most_one_request_per_part  at most one request per (content type, endpoint), only for the named object, nothing after a
                                  failed request;
      returns_latest_body         on a normal return without a 404 the first result is the body of the last accepted request
                                  (None if there was none).
    """
    as_sub = vc.nondet(2, 'status subresource?') == 1
    resource = references.Resource(group='kopf.dev', version='v1', plural='kopfexamples', namespaced=True,
                                   subresources=frozenset({'status', 'scale'}) if as_sub else frozenset({'scale'}))
    url_main = resource.get_url(namespace=NS, name=NAME)
    url_status = resource.get_url(namespace=NS, name=NAME, subresource='status')
    shape = ['fields', 'fields+status', 'fns', 'both', 'fields-status'][vc.nondet(5, 'patch: metadata+spec / + status fields / fns only / fields and fns / metadata+spec and the removal of the status (None)')]
    has_fns = shape in ('fns', 'both')
    fnkind = ['block', 'allow', 'block+status'][vc.nondet(3, 'fns: block deletion / allow deletion / block deletion and edit the status')] if has_fns else None
    stale = has_fns and vc.nondet(2, 'the event body is current / a foreign writer added a finalizer since') == 1
    silent = vc.nondet(2, 'silent?') == 1

    raw0 = {'apiVersion': 'kopf.dev/v1', 'kind': 'KopfExample',
            'metadata': {'namespace': NS, 'name': NAME, 'uid': 'uid1', 'resourceVersion': '100'},
            'spec': {'x': 'old'}, 'status': {'y': 'old'}}
    if fnkind == 'allow':
        raw0['metadata']['finalizers'] = [FIN]
    srv = types.SimpleNamespace(stored=copy.deepcopy(raw0), rv=100, interfered=0)

    def foreign_write(tag):
        srv.stored['metadata'].setdefault('finalizers', []).insert(0, tag)
        srv.rv += 1
        srv.stored['metadata']['resourceVersion'] = str(srv.rv)
    if stale:
        foreign_write('late.example.com/finalizer')

    content = {}
    if shape != 'fns':
        content['metadata'] = {'annotations': {'a': 'new'}}
        content['spec'] = {'x': 'new'}
    if shape in ('fields+status', 'both'):
        content['status'] = {'y': 'new'}
    if shape == 'fields-status':
        content['status'] = None        # falsy but present: the removal of the stanza
    fns = []
    if fnkind in ('block', 'block+status'):
        fns.append(functools.partial(finalizers.block_deletion, finalizer=FIN))
    if fnkind == 'allow':
        fns.append(functools.partial(finalizers.allow_deletion, finalizer=FIN))
    if fnkind == 'block+status':
        fns.append(_set_status_z)
    original = bodies.Body(copy.deepcopy(raw0))
    patch = patches.Patch(copy.deepcopy(content), body=original, fns=list(fns))
    settings, logger = types.SimpleNamespace(), NullLogger()
    reqs = []
    known_versions = ['100']

    async def fake_patch(url, *, settings, payload=None, headers=None, timeout=None, logger):
        endpoint = 'main' if url == url_main else 'status' if url == url_status else f'other:{url}'
        r = _Rq(len(reqs), endpoint, (headers or {}).get('Content-Type'), copy.deepcopy(payload))
        reqs.append(r)
        await suspend('api.patch')
        if r.ctype == JSONP and not srv.interfered and vc.nondet(2, 'a foreign writer adds a finalizer while the JSON-patch is in flight?') == 1:
            srv.interfered += 1
            foreign_write('later.example.com/finalizer')
        r.client_knew_current = known_versions[-1] == str(srv.rv)
        k = vc.nondet(5, 'answer: by the server model / 404 / 422 / 500 / 403')
        if k == 0 and endpoint == 'status' and not as_sub:
            k = 1           # no such endpoint
        if k == 0 and endpoint not in ('main', 'status'):
            k = 1
        if k == 0:
            r.before = copy.deepcopy(srv.stored)
            new = copy.deepcopy(srv.stored)
            try:
                if r.ctype == MERGE and isinstance(r.payload, dict):
                    _merge(new, r.payload)
                elif r.ctype == JSONP and isinstance(r.payload, list):
                    new = jsonpatch.apply_patch(new, copy.deepcopy(r.payload))
                else:
                    raise jsonpatch.JsonPatchException('unsupported media type / payload')
            except (jsonpatch.JsonPatchException, jsonpatch.JsonPointerException, TypeError, KeyError, IndexError):
                k = 2
                r.rejected_by_model = True
            else:
                if as_sub and endpoint == 'main':
                    new.pop('status', None)
                    if 'status' in r.before:
                        new['status'] = copy.deepcopy(r.before['status'])
                elif as_sub and endpoint == 'status':
                    keep = copy.deepcopy(r.before)
                    keep.pop('status', None)
                    if 'status' in new:
                        keep['status'] = new['status']
                    new = keep
                srv.rv += 1
                new.setdefault('metadata', {})['resourceVersion'] = str(srv.rv)
                srv.stored = new
                r.after = copy.deepcopy(new)
                r.outcome, r.response = 'ok', copy.deepcopy(new)
                known_versions.append(str(srv.rv))
                return r.response
        status = {1: 404, 2: 422, 3: 500, 4: 403}[k]
        cls = {404: errors.APINotFoundError, 422: errors.APIUnprocessableEntityError, 500: errors.APIServerError, 403: errors.APIForbiddenError}[status]
        r.outcome = str(status)
        r.error = cls({'kind': 'Status', 'code': status, 'message': 'scripted'}, status=status, headers={})
        raise r.error

    fake_api = types.SimpleNamespace(patch=fake_patch)
    fields_before, fns_before = copy.deepcopy(dict(patch)), list(patch.fns)
    escaped, result = None, None
    with patched(patching, api=fake_api):
        ld = vc.load('kopf._cogs.clients.patching', 'patch_obj')
        try:
            result = vc.drive(ld.fn(settings=settings, resource=resource, namespace=NS, name=NAME, patch=patch, logger=logger, silent=silent),
                              lambda site: None)
        except BaseException as e:
            if _not_ours(e):
                raise
            escaped = e
    pair = escaped is None and isinstance(result, tuple) and len(result) == 2
    oks = [r for r in reqs if r.outcome == 'ok']
    failed = [r for r in reqs if r.outcome != 'ok']
    gone = [r for r in reqs if r.outcome == '404']
    conflicts = [r for r in reqs if r.outcome == '422' and r.ctype == JSONP]
    escalating = [r for r in failed if r.outcome in ('500', '403') or (r.outcome == '422' and r.ctype != JSONP)]

    # ---- requests: which, where, how often
    keys = [(r.ctype, r.endpoint) for r in reqs]
    vc.ensure('at_most_one_request_per_part', len(set(keys)) == len(keys))
    vc.ensure('at_most_one_request_per_part', all(r.ctype in (MERGE, JSONP) and r.endpoint in ('main', 'status') for r in reqs))
    vc.ensure('at_most_one_request_per_part', len(failed) <= 1 and all(f is reqs[-1] for f in failed))
    for r in reqs:
        st, other = _touches_status(r.ctype, r.payload), _touches_other(r.ctype, r.payload)
        if as_sub:
            vc.ensure('status_through_subresource_iff_present', (not st or r.endpoint == 'status') and (not other or r.endpoint == 'main'))
        else:
            vc.ensure('status_through_subresource_iff_present', r.endpoint == 'main')
    if not failed and escaped is None:
        want = copy.deepcopy(content)
        got = srv.stored
        vc.ensure('status_through_subresource_iff_present',
                  all(got.get(top, {}).get(k) == v for top in ('spec', 'status') for k, v in (want.get(top) or {}).items())
                  and ('status' not in want or want['status'] is not None or 'status' not in got)
                  and all(got.get('metadata', {}).get('annotations', {}).get(k) == v for k, v in want.get('metadata', {}).get('annotations', {}).items()))

    # ---- failures
    vc.ensure('merge_patch_errors_escalate', escaped is (escalating[0].error if escalating else None))
    if gone:
        vc.ensure('not_found_ends_silently', pair and result[0] is None and result[1] is None)

    # ---- JSON-patches: guarded by the version, exact in effect
    for r in reqs:
        if r.ctype != JSONP:
            continue
        tests = [o for o in (r.payload if isinstance(r.payload, list) else []) if isinstance(o, dict) and o.get('op') == 'test'
                 and o.get('path') == '/metadata/resourceVersion']
        seen_before = ['100'] + [o.response['metadata']['resourceVersion'] for o in oks if o.no < r.no]
        vc.ensure('fns_tested_against_the_version', len(tests) >= 1 and all(t.get('value') in seen_before for t in tests))
        if r.outcome == 'ok':
            expected = copy.deepcopy(r.before)
            for fn in fns:
                fn(expected)
            if as_sub and r.endpoint == 'main':
                same = _sans_version(expected, drop=('status',)) == _sans_version(r.after, drop=('status',))
            elif as_sub:
                same = expected.get('status') == r.after.get('status')
            else:
                same = _sans_version(expected) == _sans_version(r.after)
            vc.ensure('fns_tested_against_the_version', same)
        if getattr(r, 'rejected_by_model', False) and r.client_knew_current:
            vc.ensure('fns_tested_against_the_version', False)      # a spurious conflict: rejected although nothing has changed
    if has_fns and not failed and escaped is None:
        # everything accepted: the effect of the fns is there
        fin = srv.stored.get('metadata', {}).get('finalizers', [])
        vc.ensure('fns_tested_against_the_version', ((FIN in fin) == (fnkind != 'allow')) and fin.count(FIN) <= 1
                  and [f for f in fin if f != FIN] == (['late.example.com/finalizer'] if stale else []))
        if fnkind == 'block+status':
            vc.ensure('fns_tested_against_the_version', srv.stored.get('status', {}).get('z') == 1)

    # ---- results
    if conflicts:
        ok = pair and isinstance(result[1], patches.Patch)
        vc.ensure('remaining_patch_carries_exactly_the_unapplied_fns', ok)
        if ok:
            rem = result[1]
            vc.ensure('remaining_patch_carries_exactly_the_unapplied_fns',
                      len(rem.fns) == len(fns) and all(a is b for a, b in zip(rem.fns, fns)) and len(dict(rem)) == 0)
    if not failed and escaped is None:
        vc.ensure('remaining_patch_carries_exactly_the_unapplied_fns', pair and not result[1])
    vc.ensure('remaining_patch_carries_exactly_the_unapplied_fns',
              dict(patch) == fields_before and len(patch.fns) == len(fns_before) and all(a is b for a, b in zip(patch.fns, fns_before)))
    if escaped is None and not gone:
        vc.ensure('returns_latest_body', pair and ((result[0] == oks[-1].response) if oks else (result[0] is None)))
    vc.canary('canary.never_conflicts', escaped is None and pair and result[1] is None)
    vc.canary('canary.never_raises', escaped is None)
    vc.canary('canary.never_json_patches', not any(r.ctype == JSONP for r in reqs))
    if escaped is not None:
        return ('raise', type(escaped).__name__, [r.brief() for r in reqs])
    return ('return', pair and result[0] is None, pair and result[1] is None, [r.brief() for r in reqs])


# =============================================================================================== N2n
class _Resp:
    """aiohttp.ClientResponse as far as errors.check_response and the callers of request() use it."""
    def __init__(self, status, headers=None, body=None):
        self.status, self.headers, self.body = status, dict(headers or {}), body
        self.closed = False

    async def json(self, **kw):
        return self.body

    async def text(self, **kw):
        return ''

    def raise_for_status(self):
        if self.status >= 400:
            raise aiohttp.ClientResponseError(None, (), status=self.status, message='scripted', headers=self.headers)

    def release(self):
        self.closed = True

    def close(self):
        self.closed = True


RETRY_AFTER = 3
_KINDS = ['200', '429+Retry-After', '503', '403', 'ClientConnectionError', 'ServerDisconnectedError', 'TimeoutError', '404']
_RETRIED = {'429+Retry-After', '503', '403', 'ClientConnectionError', 'ServerDisconnectedError', 'TimeoutError'}


@harness('N2n', targets=['kopf._cogs.clients.api.request'], props=['C19', 'C13', 'C03'], sizes_only=True,
         clauses=['retried_kinds', 'attempts_bounded', 'never_earlier_than_retry_after', 'backoff_as_configured', 'last_error_escalates',
                  'success_returns_response'],
         canaries=['canary.never_retries', 'canary.never_escalates', 'canary.never_succeeds'],
         trusted=['aiohttp.ClientSession.request (here: scripted answers; suspends while the request is in flight)',
                  'asyncio.sleep(d): suspends for d seconds (here: recorded)',
                  'errors.check_response by contract N1 (run as real code here, on a minimal response object)',
                  'auth.authenticated by contract N3: injects the context (here: the undecorated function gets it from the harness)'],
         assumes=['settings.networking.error_backoffs in {[], [0], [0, 0], [1, 2], 5 (a scalar)}; enforce_retry_after in {True, False}; method in '
                  '{get, patch}; every attempt is answered with 200 / 429 with Retry-After: 3 / 503 / 403 / ClientConnectionError / '
                  'ServerDisconnectedError / asyncio.TimeoutError / 404; nobody cancels the task'])
def N2n(vc):
    """
    api.request run natively (whatever its loop structure and helpers) against a scripted session, real errors.check_response:
      retried_kinds                 a failed attempt is followed by another one exactly when its failure is transient -- 5xx, 403,
                                    429, a connection error or a timeout, whatever the HTTP method -- and a backoff is left; a 404
                                    (any other 4xx) escapes at once as APINotFoundError of that status;
      attempts_bounded              at most len(error_backoffs)+1 requests (a scalar counts as one backoff);
      never_earlier_than_retry_after  after a 429 with Retry-After r the next attempt is made only after sleeping >= r seconds --
                                    also when the configured backoff is 0: a zero backoff is not "no backoff" -- and >= the
                                    configured backoff (unless enforce_retry_after lets the server's shorter value replace it);
      backoff_as_configured         between two attempts: the configured backoff of that attempt; after a 429 with Retry-After r
                                    the server's r if enforce_retry_after or r is longer, else the configured one
                                    (docs/configuration.rst); no sleep before the first attempt;
      last_error_escalates          when the backoffs are used up the error of the LAST attempt escapes (the APIError of that
                                    status, or the very connection error), without a further sleep;
      success_returns_response      a 200 ends the call at once with that very response object, no sleep after it.
    """
    cfgs = [[], [0], [0, 0], [1, 2], 5]
    backoffs = cfgs[vc.nondet(len(cfgs), 'error_backoffs: [] / [0] / [0, 0] / [1, 2] / 5')]
    blist = list(backoffs) if isinstance(backoffs, list) else [backoffs]
    n = len(blist)
    enforce = vc.nondet(2, 'enforce_retry_after?') == 1
    method = ['get', 'patch'][vc.nondet(2, 'method: get / patch')]
    settings = types.SimpleNamespace(networking=types.SimpleNamespace(
        error_backoffs=copy.copy(backoffs), enforce_retry_after=enforce, request_timeout=300, connect_timeout=30))
    log = []            # ('request', i, kind, response | error) / ('sleep', d)
    budget = n + 3      # (a runaway retry loop is cut by the harness: attempts_bounded fails before)

    class Session:
        closed = False

        async def request(self, **kw):
            i = sum(1 for e in log if e[0] == 'request')
            if i >= budget:
                raise AssertionError('harness: more attempts than the budget allows')
            await suspend('session.request')
            if i > n:       # one attempt too many already (attempts_bounded fails): no further case splits
                kind = '200'
            else:
                kind = _KINDS[vc.nondet(len(_KINDS), f'attempt {i}: 200 / 429 with Retry-After / 503 / 403 / connection error / server disconnected / timeout / 404')]
            ev = ['request', i, kind, None, kw]
            log.append(ev)
            if kind == '200':
                ev[3] = _Resp(200, {}, {'kind': 'KopfExample'})
                return ev[3]
            if kind == '429+Retry-After':
                ev[3] = _Resp(429, {'Retry-After': str(RETRY_AFTER)}, {'kind': 'Status', 'code': 429, 'message': 'slow down'})
                return ev[3]
            if kind in ('503', '403', '404'):
                ev[3] = _Resp(int(kind), {}, {'kind': 'Status', 'code': int(kind), 'message': 'scripted'})
                return ev[3]
            ev[3] = {'ClientConnectionError': aiohttp.ClientConnectionError('connection refused'),
                     'ServerDisconnectedError': aiohttp.ServerDisconnectedError('server disconnected'),
                     'TimeoutError': asyncio.TimeoutError('timed out')}[kind]
            raise ev[3]

    async def fake_sleep(delay, *a, **kw):
        log.append(['sleep', delay])
        await suspend('asyncio.sleep')

    class FakeAsyncio:
        sleep = staticmethod(fake_sleep)

        def __getattr__(self, name):
            return getattr(asyncio, name)

    context = types.SimpleNamespace(session=Session(), server='https://server/', default_namespace=None)
    escaped, result = None, None
    with patched(api, asyncio=FakeAsyncio()):
        ld = vc.load('kopf._cogs.clients.api', 'request', strip_decorators=_STRIP_DEFAULT + ('auth.authenticated',))
        try:
            result = vc.drive(ld.fn(method, '/apis/kopf.dev/v1/kopfexamples', settings=settings, payload={'x': 1}, headers={'h': 'v'},
                                    context=context, logger=NullLogger()), lambda site: None)
        except BaseException as e:
            if _not_ours(e):
                raise
            escaped = e
    attempts = [e for e in log if e[0] == 'request']
    pos = [i for i, e in enumerate(log) if e[0] == 'request']
    vc.ensure('attempts_bounded', 1 <= len(attempts) <= n + 1)
    vc.canary('canary.never_retries', len(attempts) == 1)
    vc.canary('canary.never_escalates', escaped is None)
    vc.canary('canary.never_succeeds', escaped is not None)
    if not attempts:
        return ('no-attempt', type(escaped).__name__)
    vc.ensure('backoff_as_configured', pos[0] == 0)

    def matches(err, ev):
        kind, what = ev[2], ev[3]
        if isinstance(what, BaseException):
            return err is what
        return isinstance(err, errors.APIError) and err.status == what.status and isinstance(err, {
            '429+Retry-After': errors.APITooManyRequestsError, '503': errors.APIServerError, '403': errors.APIForbiddenError,
            '404': errors.APINotFoundError}[kind])

    for i, ev in enumerate(attempts):
        kind = ev[2]
        last = i == len(attempts) - 1
        sleeps_after = [e[1] for e in log[pos[i] + 1:(pos[i + 1] if not last else len(log))]]
        slept = sum(sleeps_after)
        if kind == '200':
            vc.ensure('success_returns_response', last and escaped is None and result is ev[3] and not sleeps_after)
        elif kind == '404':
            vc.ensure('retried_kinds', last and matches(escaped, ev) and not sleeps_after)
        else:
            may_retry = i < n
            vc.ensure('retried_kinds', (not last) == may_retry)
            if last:
                vc.ensure('last_error_escalates', matches(escaped, ev) and not sleeps_after)
            if not last and may_retry:
                b = blist[i]
                served = kind == '429+Retry-After'
                vc.ensure('never_earlier_than_retry_after', (not served or slept >= RETRY_AFTER) and (slept >= b or (served and enforce)))
                if kind == '429+Retry-After':
                    want = RETRY_AFTER if (enforce or RETRY_AFTER > b) else b
                else:
                    want = b
                vc.ensure('backoff_as_configured', slept == want and len(sleeps_after) == 1)
    if escaped is None:
        vc.ensure('success_returns_response', attempts[-1][2] == '200' and result is attempts[-1][3])
    return ('raise' if escaped is not None else 'return', type(escaped).__name__, tuple(e[2] for e in attempts),
            tuple(e[1] for e in log if e[0] == 'sleep'))
