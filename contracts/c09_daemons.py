"""Contracts for the daemon/timer lifecycle (C09) and the daemon clause of the finalizer property (C06):
staged termination (D2: stop_daemons / stop_daemon), spawning and self-removal (D1: spawn_daemons / _runner),
who gets stopped and why (D3: match_daemons / pause_daemons / daemon_killer), and the per-event
orchestration (H7: processing.process_spawning_cause).

Shared models (all *contracts* of the real classes, never their bodies):
  * SymStopper -- aioenums.FlagSetter: a boolean event, the time of the first set(), one boolean per reason
    flag; flags are only ever raised; `is_set(r)` == event and r raised.
  * SymTask    -- asyncio.Task as far as the stoppers use it: `done()` (monotone), `cancel()` (recorded).
  * LiveDict   -- `DaemonsMemory.running_daemons` (and the operator's memories): a dict *shared with other
    tasks*: every runner deletes its own entry when it ends, i.e. at any suspension point of the function under
    contract.  Python's rule for dict views applies: fetching the next element of a live view after the dict
    changed size raises RuntimeError; a snapshot (`list(d.values())`, `tuple(...)`, `d.copy()`) is immune.
"""
import asyncio

from pyvc import *
from pyvc.loader import _STOP
from pyvc.stubs import Opaque, NullLogger, Clock, StubLoop
from kopf._core.engines import daemons
from kopf._core.intents import handlers, stoppers

SR = stoppers.DaemonStoppingReason
STAGE_FLAGS = (SR.DAEMON_SIGNALLED, SR.DAEMON_CANCELLED, SR.DAEMON_ABANDONED)
FINDING_LIVE_ITERATION = 'F-C09-2'


class Ghost:
    """harness-level ghost state"""
    def __init__(self, **kw):
        self.__dict__.update(kw)


class Unusable:
    """A callee result the contract says nothing about: any use makes the harness undecided."""
    def __init__(self, what):
        self._what = what

    def _no(self, *a, **kw):
        raise Unsupported(f'use of an unspecified callee result: {self._what}')
    __bool__ = __iter__ = __len__ = __contains__ = __getitem__ = _no


# ------------------------------------------------------------------------------------------- models
class SymStopper:
    """
    aioenums.FlagSetter by contract.  State: `event` (sync/async event), `when` (loop time of the first
    set(), None before), `flags[r]` for every DaemonStoppingReason member.  Class invariant (assumed for
    the arbitrary initial state, preserved by set()): when is not None <=> event; flags[r] => event.
      is_set(None) == event;  is_set(r) == event and flags[r]
      set(r): when := when or now; flags[r] := True; event := True
    Other tasks may call set() at every suspension point (rely): flags and event are only ever raised.
    """
    def __init__(self, vc, clock, name, fresh=False):
        self.vc, self.clock, self.name = vc, clock, name
        self.flags = {r: False for r in SR}
        self.event = False
        self.when = None
        self.task = None          # ghost link: the task this stopper belongs to (its state is recorded at every set())
        self.async_event = self.sync_event = Opaque(f'{name}.event')
        self.async_event.is_set = lambda: self.event
        if not fresh and vc.nondet(2, f'{name}: was set before?') == 1:
            self.event = True
            self.when = vc.real(f'{name}.when')
            for r in SR:
                self.flags[r] = vc.bool(f'{name}.{r.name}')

    def has(self, reason):
        """`reason in self.reason` for a single-member reason (possibly a symbolic one)."""
        return Or(*[And(Eq(reason, r), self.flags[r]) for r in SR])

    def is_set(self, reason=None):
        if reason is None:
            return self.event
        return And(self.event, self.has(reason))

    def set(self, reason=None):
        before = Ghost(event=self.event, flags=dict(self.flags))
        if self.when is None:
            self.when = self.clock.now
        if reason is not None:
            for r in SR:
                self.flags[r] = Or(self.flags[r], Eq(reason, r))
        self.event = True
        done_then = self.task.state if self.task is not None else None
        self.vc.emit('stopper.set', self, reason, self.clock.now, before, done_then)

    @property
    def reason(self):
        if Or(*self.flags.values()):      # forks once: "some reason was ever given"
            return self
        return None

    def havoc(self):
        """another task may have raised the stop flag / further reasons meanwhile"""
        vc = self.vc
        if self.event is False:
            if vc.nondet(2, f'{self.name}: set by another task meanwhile?') == 0:
                return
            self.event = True
            self.when = self.clock.now
        for r in SR:
            new = vc.bool(f'{self.name}.{r.name}')
            vc.assume(Implies(self.flags[r], new), 'reason flags are only ever raised')
            self.flags[r] = new

    def __repr__(self):
        return f'<stopper {self.name}>'


class SymTask:
    """asyncio.Task by contract: done() is monotone and changes only at suspension points; cancel() is recorded."""
    def __init__(self, vc, clock, name, done=None):
        self.vc, self.clock, self.name = vc, clock, name
        self.state = vc.bool(f'{name}.done') if done is None else done

    def done(self):
        return self.state

    def cancel(self, msg=None):
        self.vc.emit('task.cancel', self, self.clock.now, self.state)
        return True

    def havoc(self):
        new = self.vc.bool(f'{self.name}.done')
        self.vc.assume(Implies(self.state, new), 'a finished task stays finished')
        self.state = new

    def __repr__(self):
        return f'<task {self.name}>'


class _Marker:
    """the stand-in content of a snapshot taken from a LiveDict view"""
    def __init__(self, owner, kind):
        self.owner, self.kind = owner, kind


class LiveView:
    def __init__(self, owner, kind, live=True):
        self.owner, self.kind, self.live = owner, kind, live

    def __iter__(self):
        # native iteration = somebody takes a snapshot: list(view), tuple(view), [*view], sorted(view, ...)
        yield _Marker(self.owner, self.kind)


class LiveDict:
    """A dict shared with other tasks; only loops under a loop contract may walk it (element by contract)."""
    def __init__(self, name, live=True):
        self.name, self.live = name, live

    def values(self): return LiveView(self, 'values', self.live)
    def items(self): return LiveView(self, 'items', self.live)
    def keys(self): return LiveView(self, 'keys', self.live)
    def __iter__(self): return iter(LiveView(self, 'keys', self.live))
    def copy(self): return LiveDict(self.name, live=False)

    def __repr__(self):
        return f'<dict {self.name}>'


def iteration_mode(iterable, owner):
    """-> ('live'|'snapshot', kind) if `iterable` walks `owner`'s content, else None"""
    if isinstance(iterable, LiveView) and (iterable.owner is owner or iterable.owner.name == owner.name):
        return ('live' if iterable.live else 'snapshot'), iterable.kind
    if isinstance(iterable, (list, tuple)) and len(iterable) == 1 and isinstance(iterable[0], _Marker) \
            and iterable[0].owner.name == owner.name:
        return 'snapshot', iterable[0].kind
    return None


def mk_handler(vc, name='d', kinds=('daemon', 'timer'), sym=True):
    """an arbitrary registered spawning handler: a daemon with arbitrary cancellation settings, or a timer"""
    base = dict(id=name, fn=Opaque('fn'), param=None, errors=None, timeout=None, retries=None, backoff=None,
                selector=None, labels=None, annotations=None, when=None, field=None, value=None,
                requires_finalizer=None, initial_delay=None)
    kind = kinds[vc.nondet(len(kinds), 'handler kind')] if len(kinds) > 1 else kinds[0]
    if kind == 'daemon':
        return handlers.DaemonHandler(
            **base,
            cancellation_backoff=vc.opt(f'{name}.backoff', vc.real) if sym else None,
            cancellation_timeout=vc.opt(f'{name}.timeout', vc.real) if sym else None,
            cancellation_polling=vc.opt(f'{name}.polling', vc.real) if sym else None)
    return handlers.TimerHandler(**base, sharp=None, idle=None, interval=None)


def mk_daemon(vc, clock, name='d', **kw):
    h = mk_handler(vc, name, **kw)
    d = daemons.Daemon(task=SymTask(vc, clock, f'{name}.task'), logger=NullLogger(), handler=h,
                       stopper=SymStopper(vc, clock, f'{name}.stopper'))
    d.stopper.task = d.task
    return d


def is_stage_flag(x):
    return any(x is f for f in STAGE_FLAGS)


def settings_of(h):
    if isinstance(h, handlers.DaemonHandler):
        return h.cancellation_backoff, h.cancellation_timeout, h.cancellation_polling
    return None, None, None


def own_events(vc, since, d):
    """what the function under contract did to daemon `d` since trace position `since`"""
    out = []
    for ev in vc.trace[since:]:
        if ev[0] == 'stopper.set' and ev[1] is d.stopper:
            out.append(ev)
        elif ev[0] == 'task.cancel' and ev[1] is d.task:
            out.append(ev)
        elif ev[0] == 'suspend':
            out.append(ev)
    return out


def check_cancel_with_flag(vc, clause, evs):
    """whoever raises DAEMON_CANCELLED cancels the task in the same atomic segment, and vice versa"""
    sets = [i for i, e in enumerate(evs) if e[0] == 'stopper.set' and e[2] is SR.DAEMON_CANCELLED]
    cans = [i for i, e in enumerate(evs) if e[0] == 'task.cancel']
    vc.ensure(clause, len(sets) == len(cans) and len(sets) <= 1)
    for i, j in zip(sets, cans):
        lo, hi = min(i, j), max(i, j)
        vc.ensure(clause, not any(e[0] == 'suspend' for e in evs[lo:hi]))


# =============================================================================================== D2
@harness('D2', targets=['kopf._core.engines.daemons.stop_daemons', 'kopf._core.engines.daemons.stop_daemon'],
         props=['C09', 'C06'],
         clauses=['flag_first', 'stage_table', 'stage_progress', 'cancel_with_flag', 'delays',
                  'delays_nonempty_while_alive', 'returns_collected', 'crash_free',
                  'one.flag_first', 'one.stage_order', 'one.cancel_with_flag', 'one.progress',
                  'one.ends_done_or_abandoned'],
         canaries=['canary.never_cancels', 'canary.never_abandons', 'canary.always_delays', 'canary.one.never_abandons'],
         trusted=['daemons._wait_for_instant_exit: only waits (a suspension point), changes nothing itself',
                  'aiotasks.wait(tasks, timeout=T): returns after a suspension once all tasks are done or T has elapsed',
                  'aioenums.FlagSetter (DaemonStopper) by its contract (SymStopper); asyncio.Task.done/cancel (SymTask)'],
         assumes=['stop_daemons/stop_daemon: handlers are DaemonHandler or TimerHandler instances (the only kinds a SpawningRegistry holds)',
                  'stop_daemons: reason in {RESOURCE_DELETED, FILTERS_MISMATCH, OPERATOR_PAUSING} (its three call sites); '
                  'stop_daemon: reason in {OPERATOR_PAUSING, OPERATOR_EXITING} (daemon_killer)'])
def D2(vc):
    """
    Staged termination (docs/daemons.rst "three stages"; age := call time - time the stop flag was first
    raised, 0 if it was not; B/T = cancellation_backoff/_timeout, None for timers).

    stop_daemons (loop contract: ONE arbitrary daemon of an arbitrary-size mapping, arbitrary earlier delays):
      flag_first      the requested reason flag is raised before anything else is done to the daemon and is
                      raised at the end, whatever the task state;
      stage_table     what the call does itself: DAEMON_SIGNALLED only while B is set and age < B; DAEMON_CANCELLED
                      and task.cancel() only when not in the signalling stage, T is set and age < T+(B or 0);
                      DAEMON_ABANDONED only when T is set and age >= T+(B or 0); nothing for a finished task;
      stage_progress  a task still running at the end of its turn has the flag of its stage raised;
      cancel_with_flag the CANCELLED flag and task.cancel() come as a pair without a suspension in between;
      delays          a running task contributes exactly: B-age (signalled), T+(B or 0)-age (cancelled), nothing
                      (abandoned), the polling interval (no timeout); a finished task contributes nothing;
      delays_nonempty_while_alive (C06)  the returned delays are non-empty if some visited daemon is neither
                      done nor flagged DAEMON_ABANDONED (ghost `alive`; task/flag states are monotone, so a daemon
                      alive at return was alive at the end of its turn);
      returns_collected the list that is returned is the one the delays were collected in;
      crash_free      the mapping is walked through a snapshot: the body suspends, and runners delete their
                      entries at suspension points.
    stop_daemon (linear, operator pause/exit):
      one.flag_first  the reason flag is raised first and unconditionally, before any suspension;
      one.stage_order SIGNALLED only with B set; cancel only with T set, on a running task, not earlier than B
                      after the flag; ABANDONED only on a running task and not earlier than T after the cancel;
      one.progress    a task still running at the end was signalled (if B) and cancelled (if T);
      one.ends_done_or_abandoned  on return the task is done or flagged DAEMON_ABANDONED (never stalls).
    """
    if vc.nondet(2, 'stop_daemons | stop_daemon') == 0:
        return _d2_many(vc)
    return _d2_one(vc)


def _stages(age, B, T):
    B0 = 0 if B is None else B
    in_signal = False if B is None else (age < B)
    in_cancel = False if T is None else And(Not(in_signal), age < T + B0)
    in_abandon = False if T is None else And(Not(in_signal), Not(in_cancel))
    in_poll = Not(in_signal) if T is None else False
    return in_signal, in_cancel, in_abandon, in_poll


class Prefix:
    """ghost stand-in for the delays collected by the earlier iterations (an arbitrary number of them)"""
    def __init__(self, vc):
        self.n = vc.int('earlier-delays.len')
        vc.assume(self.n >= 0, 'a length')


def _d2_many(vc):
    clock = Clock()
    g = Ghost(susp=0, cur=None, calls=0, alive=False, prefix=None, lists=[], it=None)
    reason = vc.fin('reason', [SR.RESOURCE_DELETED, SR.FILTERS_MISMATCH, SR.OPERATOR_PAUSING])
    sp = vc.real('settings.cancellation_polling')
    settings = Opaque('settings', background=Opaque('background', cancellation_polling=sp))
    running = LiveDict('running_daemons')
    now0 = clock.now

    async def wait_for_instant_exit(*, settings, daemon):
        vc.emit('instant_exit', daemon)
        await suspend('_wait_for_instant_exit')

    def on_suspend(site):
        g.susp += 1
        clock.advance()
        if g.cur is not None:
            g.cur.task.havoc()
            g.cur.stopper.havoc()
        vc.emit('suspend', site)

    def local_lists(loc):
        return [v for k, v in loc.items() if type(v) is list and not k.startswith('__')]

    def havoc(loc):
        g.lists = local_lists(loc)
        g.alive = vc.bool('ghost.alive')
        g.prefix = Prefix(vc)
        for lst in g.lists:
            lst[:] = [g.prefix]
        return {}

    def element(loc, iterable):
        mode = iteration_mode(iterable, running)
        if mode is None or mode[1] != 'values':
            raise Unsupported(f'stop_daemons walks something else than the daemons given: {iterable!r}')
        if vc.nondet(2, 'exhausted?') == 0:
            return _STOP
        d = mk_daemon(vc, clock)
        g.cur = d
        st = d.stopper
        g.it = Ghost(d=d, mode=mode[0], since=len(vc.trace), susp=g.susp, done0=d.task.state, when0=st.when,
                     flags0=dict(st.flags), event0=st.event)
        return d

    def invariant(loc):
        g.calls += 1
        if g.calls == 1:        # entry: nothing collected, nobody visited
            lists = local_lists(loc)
            vc.ensure('returns_collected', len(lists) == 1 and lists[0] == [])
            return True
        if g.calls == 2:        # assumed at the head of the arbitrary iteration
            return Implies(g.alive, g.prefix.n > 0)
        _d2_many_turn(vc, g, reason, sp, now0)     # back edge: the turn of daemon g.it.d is complete
        return True

    ld = vc.load('kopf._core.engines.daemons', 'stop_daemons', stubs={
        '_wait_for_instant_exit': wait_for_instant_exit,
        'asyncio.get_running_loop': lambda: StubLoop(clock),
        'warnings.warn': lambda *a, **kw: vc.emit('warn', a),
    }, loops={1: LoopSpec('for daemon in', invariant=invariant, havoc=havoc, element=element)})
    result = vc.drive(ld.fn(settings=settings, daemons=running, reason=reason), on_suspend)
    # the path that leaves the loop: nothing was appended after the (assumed) invariant state
    vc.ensure('returns_collected', len(g.lists) == 1 and result is g.lists[0] and len(result) == 1 and result[0] is g.prefix)
    vc.ensure('delays_nonempty_while_alive', Implies(g.alive, g.prefix.n + (len(result) - 1) > 0))
    return ('many', 'returned')


def _d2_many_turn(vc, g, reason, sp, now0):
    it = g.it
    d, st, task = it.d, it.d.stopper, it.d.task
    B, T, P = settings_of(d.handler)
    age = 0 if it.when0 is None else now0 - it.when0
    in_signal, in_cancel, in_abandon, in_poll = _stages(age, B, T)
    B0 = 0 if B is None else B
    polling = sp if P is None else If(P != 0, P, sp)
    evs = own_events(vc, it.since, d)
    sets = [e for e in evs if e[0] == 'stopper.set']
    cancels = [e for e in evs if e[0] == 'task.cancel']
    done_end = task.state
    lists = g.lists
    appended = lists[0][1:] if len(lists) == 1 and lists[0] and lists[0][0] is g.prefix else None

    # -- flag_first
    vc.ensure('flag_first', st.is_set(reason))
    effects = [e for e in evs if e[0] != 'suspend']
    was = And(it.event0, Or(*[And(Eq(reason, r), it.flags0[r]) for r in SR]))     # raised before this call's turn
    if effects:
        e = effects[0]
        vc.ensure('flag_first', Or(was, e[0] == 'stopper.set' and Eq(e[2], reason)))
    for i, e in enumerate(evs):
        if (e[0] == 'stopper.set' and is_stage_flag(e[2])) or e[0] == 'task.cancel':
            earlier = [x for x in evs[:i] if x[0] == 'stopper.set']
            vc.ensure('flag_first', Or(was, *[Eq(x[2], reason) for x in earlier]))

    # -- stage_table: the call's own actions
    for e in sets:
        r = e[2]
        if r is SR.DAEMON_SIGNALLED:
            vc.ensure('stage_table', in_signal)
        elif r is SR.DAEMON_CANCELLED:
            vc.ensure('stage_table', in_cancel)
        elif r is SR.DAEMON_ABANDONED:
            vc.ensure('stage_table', in_abandon)
        else:
            vc.ensure('stage_table', Eq(r, reason))
        if is_stage_flag(r):
            vc.ensure('stage_table', And(Not(it.done0), Not(e[5])))
    for e in cancels:
        vc.ensure('stage_table', And(in_cancel, Not(it.done0)))
    vc.canary('canary.never_cancels', not cancels)
    vc.canary('canary.never_abandons', not any(e[2] is SR.DAEMON_ABANDONED for e in sets))

    # -- stage_progress
    running_end = Not(done_end)
    vc.ensure('stage_progress', Implies(And(running_end, in_signal), st.is_set(SR.DAEMON_SIGNALLED)))
    vc.ensure('stage_progress', Implies(And(running_end, in_cancel), st.is_set(SR.DAEMON_CANCELLED)))
    vc.ensure('stage_progress', Implies(And(running_end, in_abandon), st.is_set(SR.DAEMON_ABANDONED)))
    check_cancel_with_flag(vc, 'cancel_with_flag', evs)

    # -- delays
    vc.ensure('delays', appended is not None and len(appended) <= 1)
    if appended is None:
        return
    has = len(appended) == 1
    v = appended[0] if has else None
    vc.ensure('delays', Implies(it.done0, not has))
    vc.ensure('delays', Implies(And(running_end, Or(in_signal, in_cancel, in_poll)), has))
    vc.ensure('delays', Implies(in_abandon, not has))
    if has:
        vc.ensure('delays', And(Implies(in_signal, Eq(v, B - age) if B is not None else False),
                                Implies(in_cancel, Eq(v, T + B0 - age) if T is not None else False),
                                Implies(in_poll, Eq(v, polling))))
    vc.canary('canary.always_delays', has)

    # -- C06: ghost `alive` := some visited daemon is neither done nor abandoned (at the end of its turn)
    alive = Or(g.alive, And(running_end, Not(st.is_set(SR.DAEMON_ABANDONED))))
    vc.ensure('delays_nonempty_while_alive', Implies(alive, g.prefix.n + len(appended) > 0))

    # -- crash_free: a live view must not be walked across a suspension point
    vc.ensure('crash_free', not (it.mode == 'live' and g.susp > it.susp))


def _d2_one(vc):
    clock = Clock()
    g = Ghost(susp=0)
    reason = vc.fin('reason', [SR.OPERATOR_PAUSING, SR.OPERATOR_EXITING])
    settings = Opaque('settings', background=Opaque('background', cancellation_polling=vc.real('settings.cancellation_polling')))
    d = mk_daemon(vc, clock)
    st, task = d.stopper, d.task
    B, T, _P = settings_of(d.handler)

    def on_suspend(site):
        g.susp += 1
        clock.advance()
        task.havoc()
        st.havoc()
        vc.emit('suspend', site)

    async def wait_for_instant_exit(*, settings, daemon):
        vc.emit('instant_exit', daemon)
        await suspend('_wait_for_instant_exit')

    async def wait(tasks, *, timeout=None, return_when=asyncio.ALL_COMPLETED):
        tasks = list(tasks)
        if not all(t is task for t in tasks) or return_when != asyncio.ALL_COMPLETED:
            raise Unsupported('aiotasks.wait on something else than the daemon task')
        t0 = clock.now
        vc.emit('wait', timeout, t0)
        if tasks:
            await suspend('aiotasks.wait')
            elapsed = False if timeout is None else (clock.now >= t0 + timeout)
            vc.assume(Or(task.state, elapsed), 'asyncio.wait returns once the tasks are done or the timeout has elapsed')
        return Unusable('done set'), Unusable('pending set')

    ld = vc.load('kopf._core.engines.daemons', 'stop_daemon', stubs={
        '_wait_for_instant_exit': wait_for_instant_exit,
        'aiotasks.wait': wait,
        'asyncio.get_running_loop': lambda: StubLoop(clock),
        'warnings.warn': lambda *a, **kw: vc.emit('warn', a),
    })
    vc.drive(ld.fn(settings=settings, daemon=d, reason=reason), on_suspend)
    tr = [e for e in vc.trace if e[0] in ('stopper.set', 'task.cancel', 'suspend', 'wait')]
    effects = [e for e in tr if e[0] in ('stopper.set', 'task.cancel')]
    # -- one.flag_first
    vc.ensure('one.flag_first', bool(tr) and tr[0][0] == 'stopper.set' and Eq(tr[0][2], reason))
    vc.ensure('one.flag_first', st.is_set(reason))
    t_flag = tr[0][3] if tr and tr[0][0] == 'stopper.set' else None
    # -- one.stage_order
    t_cancel = None
    for e in effects[1:]:
        if e[0] == 'stopper.set':
            r, t = e[2], e[3]
            if r is SR.DAEMON_SIGNALLED:
                vc.ensure('one.stage_order', B is not None)
            elif r is SR.DAEMON_CANCELLED:
                vc.ensure('one.stage_order', T is not None)
            elif r is SR.DAEMON_ABANDONED:
                vc.ensure('one.stage_order', t_flag is not None)
                if T is not None:
                    vc.ensure('one.stage_order', t_cancel is not None and t >= t_cancel + T)
                if B is not None and t_flag is not None:
                    vc.ensure('one.stage_order', t >= t_flag + B)
            else:
                vc.ensure('one.stage_order', Eq(r, reason))
        else:
            t, done_then = e[2], e[3]
            t_cancel = t
            vc.ensure('one.stage_order', T is not None and t_flag is not None)
            vc.ensure('one.stage_order', Not(done_then))
            if B is not None and t_flag is not None:
                vc.ensure('one.stage_order', t >= t_flag + B)
    # stage flags are only raised on a task that is still running at that moment
    for e in effects:
        if e[0] == 'stopper.set' and is_stage_flag(e[2]):
            vc.ensure('one.stage_order', Not(e[5]))
    check_cancel_with_flag(vc, 'one.cancel_with_flag', tr)
    # -- one.progress / termination
    running_end = Not(task.state)
    vc.ensure('one.progress', Implies(running_end, And(B is None or st.is_set(SR.DAEMON_SIGNALLED),
                                                       T is None or st.is_set(SR.DAEMON_CANCELLED))))
    vc.ensure('one.progress', Implies(running_end, T is None or any(e[0] == 'task.cancel' for e in effects)))
    vc.ensure('one.ends_done_or_abandoned', Or(task.state, st.is_set(SR.DAEMON_ABANDONED)))
    vc.canary('canary.one.never_abandons', not any(e[0] == 'stopper.set' and e[2] is SR.DAEMON_ABANDONED for e in effects))
    return ('one', len(effects))
