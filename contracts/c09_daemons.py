"""Contracts for the daemon/timer lifecycle (C09) and the daemon clause of the finalizer property (C06):
staged termination (D2: stop_daemons / stop_daemon), spawning and self-removal (D1: spawn_daemons / _runner),
who gets stopped and why (D3: match_daemons / pause_daemons / daemon_killer), and the per-event
orchestration (H7: processing.process_spawning_cause).

Shared models (all *contracts* of the real classes, never their bodies):
  * SymStopper -- aioenums.FlagSetter: a boolean event, the time of the first set(), one boolean per reason
    flag; flags are only ever raised; `is_set(r)` == event and r raised.
  * SymTask    -- asyncio.Task as far as the stoppers use it: `done()` (monotone), `cancel()` (recorded).
  * LiveDict   -- `DaemonsMemory.running_daemons` (and the operator's memories): a dict *shared with other
    tasks*: every runner deletes its own entry when it ends, i.e. at any suspension point of the function under
    contract.  Python's rule for dict views applies: fetching the next element of a live view after the dict
    changed size raises RuntimeError; a snapshot (`list(d.values())`, `tuple(...)`, `d.copy()`) is immune.
"""
import asyncio

from pyvc import *
from pyvc.loader import _STOP
from pyvc.stubs import Opaque, NullLogger, Clock, StubLoop
from kopf._core.engines import daemons
from kopf._core.intents import handlers, stoppers
from kopf._cogs.structs import patches

SR = stoppers.DaemonStoppingReason
STAGE_FLAGS = (SR.DAEMON_SIGNALLED, SR.DAEMON_CANCELLED, SR.DAEMON_ABANDONED)
FINDING_LIVE_ITERATION = 'F-C09-2'


class Ghost:
    """harness-level ghost state"""
    def __init__(self, **kw):
        self.__dict__.update(kw)


class Unusable:
    """A callee result the contract says nothing about: any use makes the harness undecided."""
    def __init__(self, what):
        self._what = what

    def _no(self, *a, **kw):
        raise Unsupported(f'use of an unspecified callee result: {self._what}')
    __bool__ = __iter__ = __len__ = __contains__ = __getitem__ = _no


# ------------------------------------------------------------------------------------------- models
class SymStopper:
    """
    aioenums.FlagSetter by contract.  State: `event` (sync/async event), `when` (loop time of the first
    set(), None before), `flags[r]` for every DaemonStoppingReason member.  Class invariant (assumed for
    the arbitrary initial state, preserved by set()): when is not None <=> event; flags[r] => event.
      is_set(None) == event;  is_set(r) == event and flags[r]
      set(r): when := when or now; flags[r] := True; event := True
    Other tasks may call set() at every suspension point (rely): flags and event are only ever raised.
    """
    def __init__(self, vc, clock, name, fresh=False):
        self.vc, self.clock, self.name = vc, clock, name
        self.flags = {r: False for r in SR}
        self.event = False
        self.when = None
        self.task = None          # ghost link: the task this stopper belongs to (its state is recorded at every set())
        self.async_event = self.sync_event = Opaque(f'{name}.event')
        self.async_event.is_set = lambda: self.event
        if not fresh and vc.nondet(2, f'{name}: was set before?') == 1:
            self.event = True
            self.when = vc.real(f'{name}.when')
            for r in SR:
                self.flags[r] = vc.bool(f'{name}.{r.name}')

    def has(self, reason):
        """`reason in self.reason` for a single-member reason (possibly a symbolic one)."""
        return Or(*[And(Eq(reason, r), self.flags[r]) for r in SR])

    def is_set(self, reason=None):
        if reason is None:
            return self.event
        return And(self.event, self.has(reason))

    def set(self, reason=None):
        before = Ghost(event=self.event, flags=dict(self.flags))
        if self.when is None:
            self.when = self.clock.now
        if reason is not None:
            for r in SR:
                self.flags[r] = Or(self.flags[r], Eq(reason, r))
        self.event = True
        done_then = self.task.state if self.task is not None else None
        self.vc.emit('stopper.set', self, reason, self.clock.now, before, done_then)

    @property
    def reason(self):
        if Or(*self.flags.values()):      # forks once: "some reason was ever given"
            return self
        return None

    def havoc(self):
        """another task may have raised the stop flag / further reasons meanwhile"""
        vc = self.vc
        if self.event is False:
            if vc.nondet(2, f'{self.name}: set by another task meanwhile?') == 0:
                return
            self.event = True
            self.when = self.clock.now
        for r in SR:
            new = vc.bool(f'{self.name}.{r.name}')
            vc.assume(Implies(self.flags[r], new), 'reason flags are only ever raised')
            self.flags[r] = new

    def __repr__(self):
        return f'<stopper {self.name}>'


class SymTask:
    """asyncio.Task by contract: done() is monotone and changes only at suspension points; cancel() is recorded."""
    def __init__(self, vc, clock, name, done=None):
        self.vc, self.clock, self.name = vc, clock, name
        self.state = vc.bool(f'{name}.done') if done is None else done

    def done(self):
        return self.state

    def cancel(self, msg=None):
        self.vc.emit('task.cancel', self, self.clock.now, self.state)
        return True

    def havoc(self):
        new = self.vc.bool(f'{self.name}.done')
        self.vc.assume(Implies(self.state, new), 'a finished task stays finished')
        self.state = new

    def __repr__(self):
        return f'<task {self.name}>'


class _Marker:
    """the stand-in content of a snapshot taken from a LiveDict view"""
    def __init__(self, owner, kind):
        self.owner, self.kind = owner, kind


class LiveView:
    def __init__(self, owner, kind, live=True):
        self.owner, self.kind, self.live = owner, kind, live

    def __iter__(self):
        # native iteration = somebody takes a snapshot: list(view), tuple(view), [*view], sorted(view, ...)
        yield _Marker(self.owner, self.kind)


class LiveDict:
    """A dict shared with other tasks; only loops under a loop contract may walk it (element by contract)."""
    def __init__(self, name, live=True, nonempty=True):
        self.name, self.live, self.nonempty = name, live, nonempty

    def __bool__(self):          # emptiness is a (possibly symbolic) fact about the shared dict
        return bool(self.nonempty)

    def values(self): return LiveView(self, 'values', self.live)
    def items(self): return LiveView(self, 'items', self.live)
    def keys(self): return LiveView(self, 'keys', self.live)
    def __iter__(self): return iter(LiveView(self, 'keys', self.live))
    def copy(self): return LiveDict(self.name, live=False)

    def __repr__(self):
        return f'<dict {self.name}>'


def iteration_mode(iterable, owner):
    """-> ('live'|'snapshot', kind) if `iterable` walks `owner`'s content, else None"""
    if isinstance(iterable, LiveView) and (iterable.owner is owner or iterable.owner.name == owner.name):
        return ('live' if iterable.live else 'snapshot'), iterable.kind
    if isinstance(iterable, (list, tuple)) and len(iterable) == 1 and isinstance(iterable[0], _Marker) \
            and iterable[0].owner.name == owner.name:
        return 'snapshot', iterable[0].kind
    return None


def mk_handler(vc, name='d', kinds=('daemon', 'timer'), sym=True):
    """an arbitrary registered spawning handler: a daemon with arbitrary cancellation settings, or a timer"""
    base = dict(id=name, fn=Opaque('fn'), param=None, errors=None, timeout=None, retries=None, backoff=None,
                selector=None, labels=None, annotations=None, when=None, field=None, value=None,
                requires_finalizer=None, initial_delay=None)
    kind = kinds[vc.nondet(len(kinds), 'handler kind')] if len(kinds) > 1 else kinds[0]
    if kind == 'daemon':
        return handlers.DaemonHandler(
            **base,
            cancellation_backoff=vc.opt(f'{name}.backoff', vc.real) if sym else None,
            cancellation_timeout=vc.opt(f'{name}.timeout', vc.real) if sym else None,
            cancellation_polling=vc.opt(f'{name}.polling', vc.real) if sym else None)
    return handlers.TimerHandler(**base, sharp=None, idle=None, interval=None)


def mk_daemon(vc, clock, name='d', **kw):
    h = mk_handler(vc, name, **kw)
    d = daemons.Daemon(task=SymTask(vc, clock, f'{name}.task'), logger=NullLogger(), handler=h,
                       stopper=SymStopper(vc, clock, f'{name}.stopper'))
    d.stopper.task = d.task
    return d


def is_stage_flag(x):
    return any(x is f for f in STAGE_FLAGS)


def settings_of(h):
    if isinstance(h, handlers.DaemonHandler):
        return h.cancellation_backoff, h.cancellation_timeout, h.cancellation_polling
    return None, None, None


def own_events(vc, since, d):
    """what the function under contract did to daemon `d` since trace position `since`"""
    out = []
    for ev in vc.trace[since:]:
        if ev[0] == 'stopper.set' and ev[1] is d.stopper:
            out.append(ev)
        elif ev[0] == 'task.cancel' and ev[1] is d.task:
            out.append(ev)
        elif ev[0] == 'suspend':
            out.append(ev)
    return out


def check_cancel_with_flag(vc, clause, evs):
    """whoever raises DAEMON_CANCELLED cancels the task in the same atomic segment, and vice versa"""
    sets = [i for i, e in enumerate(evs) if e[0] == 'stopper.set' and e[2] is SR.DAEMON_CANCELLED]
    cans = [i for i, e in enumerate(evs) if e[0] == 'task.cancel']
    vc.ensure(clause, len(sets) == len(cans) and len(sets) <= 1)
    for i, j in zip(sets, cans):
        lo, hi = min(i, j), max(i, j)
        vc.ensure(clause, not any(e[0] == 'suspend' for e in evs[lo:hi]))


# =============================================================================================== D2
_UNBOUND = object()


@harness('D2', targets=['kopf._core.engines.daemons.stop_daemons', 'kopf._core.engines.daemons.stop_daemon'],
         props=['C09', 'C06', 'C20', 'C13', 'C03'],
         prop_clauses={'C13': ['flag_first', 'crash_free', 'one.flag_first', 'one.progress'], 'C03': ['delays', 'crash_free']},
         clauses=['flag_first', 'stage_table', 'stage_progress', 'cancel_with_flag', 'delays',
                  'delays_nonempty_while_alive', 'returns_collected', 'crash_free',
                  'one.flag_first', 'one.stage_order', 'one.cancel_with_flag', 'one.progress',
                  'one.ends_done_or_abandoned', 'one.chance_before_abandon'],
         canaries=['canary.never_cancels', 'canary.never_abandons', 'canary.always_delays', 'canary.one.never_abandons'],
         trusted=['daemons._wait_for_instant_exit: only waits (a suspension point), changes nothing itself',
                  'aiotasks.wait(tasks, timeout=T): returns after a suspension once all tasks are done or T has elapsed',
                  'aioenums.FlagSetter (DaemonStopper) by its contract (SymStopper); asyncio.Task.done/cancel (SymTask)'],
         assumes=['stop_daemons/stop_daemon: handlers are DaemonHandler or TimerHandler instances (the only kinds a SpawningRegistry holds)',
                  'stop_daemons: reason in {RESOURCE_DELETED, FILTERS_MISMATCH, OPERATOR_PAUSING} (its three call sites); '
                  'stop_daemon: reason in {OPERATOR_PAUSING, OPERATOR_EXITING} (daemon_killer)'])
def D2(vc):
    """
    Staged termination (docs/daemons.rst "three stages"; age := call time - time the stop flag was first
    raised, 0 if it was not; B/T = cancellation_backoff/_timeout, None for timers).

    stop_daemons (loop contract: ONE arbitrary daemon of an arbitrary-size mapping, arbitrary earlier delays):
      flag_first      the requested reason flag is raised before anything else is done to the daemon and is
                      raised at the end, whatever the task state;
      stage_table     what the call does itself: DAEMON_SIGNALLED only while B is set and age < B; DAEMON_CANCELLED
                      and task.cancel() only when not in the signalling stage, T is set and age < T+(B or 0);
                      DAEMON_ABANDONED only when T is set and age >= T+(B or 0); nothing for a finished task;
      stage_progress  a task still running at the end of its turn has the flag of its stage raised;
      cancel_with_flag the CANCELLED flag and task.cancel() come as a pair without a suspension in between;
      delays          a running task contributes exactly: B-age (signalled), T+(B or 0)-age (cancelled), nothing
                      (abandoned), the polling interval (no timeout); a finished task contributes nothing;
      delays_nonempty_while_alive (C06)  the returned delays are non-empty if some visited daemon is neither
                      done nor flagged DAEMON_ABANDONED (ghost `alive`; task/flag states are monotone, so a daemon
                      alive at return was alive at the end of its turn);
      returns_collected the list that is returned is the one the delays were collected in;
      crash_free      the mapping is walked through a snapshot: the body suspends, and runners delete their
                      entries at suspension points.
    stop_daemon (linear, operator pause/exit):
      one.flag_first  the reason flag is raised first and unconditionally, before any suspension;
      one.stage_order SIGNALLED only with B set; cancel only with T set, on a running task, not earlier than B
                      after the flag; ABANDONED only on a running task and not earlier than T after the cancel;
      one.progress    a task still running at the end was signalled (if B) and cancelled (if T);
      one.ends_done_or_abandoned  on return the task is done or flagged DAEMON_ABANDONED (never stalls);
      one.chance_before_abandon   "stop flag first ... abandonment after the timeout": between raising the reason flag
                      and giving the daemon up (DAEMON_ABANDONED, ResourceWarning) the stopper yields to the event loop
                      at least once (instant-exit wait, backoff or timeout wait) -- also for timers and daemons
                      without backoff/timeout; otherwise even an instance that obeys the flag at once is abandoned.
    """
    if vc.nondet(2, 'stop_daemons | stop_daemon') == 0:
        return _d2_many(vc)
    return _d2_one(vc)


def _stages(age, B, T):
    B0 = 0 if B is None else B
    in_signal = False if B is None else (age < B)
    in_cancel = False if T is None else And(Not(in_signal), age < T + B0)
    in_abandon = False if T is None else And(Not(in_signal), Not(in_cancel))
    in_poll = Not(in_signal) if T is None else False
    return in_signal, in_cancel, in_abandon, in_poll


class Prefix:
    """ghost stand-in for the delays collected by the earlier iterations (an arbitrary number of them)"""
    def __init__(self, vc):
        self.n = vc.int('earlier-delays.len')
        vc.assume(self.n >= 0, 'a length')


def _d2_many(vc):
    clock = Clock()
    g = Ghost(susp=0, cur=None, calls=0, alive=False, prefix=None, lists=[], it=None)
    reason = vc.fin('reason', [SR.RESOURCE_DELETED, SR.FILTERS_MISMATCH, SR.OPERATOR_PAUSING])
    sp = vc.real('settings.cancellation_polling')
    settings = Opaque('settings', background=Opaque('background', cancellation_polling=sp))
    running = LiveDict('running_daemons')
    now0 = clock.now

    async def wait_for_instant_exit(*, settings, daemon):
        vc.emit('instant_exit', daemon)
        await suspend('_wait_for_instant_exit')

    def on_suspend(site):
        g.susp += 1
        clock.advance()
        if g.cur is not None:
            g.cur.task.havoc()
            g.cur.stopper.havoc()
        vc.emit('suspend', site)

    def local_lists(loc):
        # the function's own result lists (a snapshot of the mapping kept in a local is not one of them)
        return [v for k, v in loc.items() if type(v) is list and not k.startswith('__')
                and not any(isinstance(x, _Marker) for x in v)]

    def havoc(loc):
        g.lists = local_lists(loc)
        g.alive = vc.bool('ghost.alive')
        g.prefix = Prefix(vc)
        for lst in g.lists:
            lst[:] = [g.prefix]
        # per-daemon temporaries that happen to be bound at the loop head hold what an EARLIER daemon's iteration left in them:
        # arbitrary values (a timer visited after a daemon must not inherit that daemon's cancellation backoff/timeout)
        out = {}
        for n in ('backoff', 'timeout', 'polling'):
            if loc.get(n, _UNBOUND) is not _UNBOUND:
                out[n] = vc.opt(f'{n} left by an earlier iteration', vc.real)
        return out

    def element(loc, iterable):
        mode = iteration_mode(iterable, running)
        if mode is None or mode[1] != 'values':
            raise Unsupported(f'stop_daemons walks something else than the daemons given: {iterable!r}')
        if vc.nondet(2, 'exhausted?') == 0:
            return _STOP
        d = mk_daemon(vc, clock)
        g.cur = d
        st = d.stopper
        g.it = Ghost(d=d, mode=mode[0], since=len(vc.trace), susp=g.susp, done0=d.task.state, when0=st.when,
                     flags0=dict(st.flags), event0=st.event)
        return d

    def invariant(loc):
        g.calls += 1
        if g.calls == 1:        # entry: nothing collected, nobody visited
            lists = local_lists(loc)
            vc.ensure('returns_collected', len(lists) == 1 and lists[0] == [])
            return True
        if g.calls == 2:        # assumed at the head of the arbitrary iteration
            return Implies(g.alive, g.prefix.n > 0)
        _d2_many_turn(vc, g, reason, sp, now0)     # back edge: the turn of daemon g.it.d is complete
        return True

    ld = vc.load('kopf._core.engines.daemons', 'stop_daemons', stubs={
        '_wait_for_instant_exit': wait_for_instant_exit,
        'asyncio.get_running_loop': lambda: StubLoop(clock),
        'warnings.warn': lambda *a, **kw: vc.emit('warn', a),
    }, loops={1: LoopSpec('for daemon in', invariant=invariant, havoc=havoc, element=element)})
    result = vc.drive(ld.fn(settings=settings, daemons=running, reason=reason), on_suspend)
    # the path that leaves the loop: nothing was appended after the (assumed) invariant state
    vc.ensure('returns_collected', len(g.lists) == 1 and result is g.lists[0] and len(result) == 1 and result[0] is g.prefix)
    vc.ensure('delays_nonempty_while_alive', Implies(g.alive, g.prefix.n + (len(result) - 1) > 0))
    return ('many', 'returned')


def _d2_many_turn(vc, g, reason, sp, now0):
    it = g.it
    d, st, task = it.d, it.d.stopper, it.d.task
    B, T, P = settings_of(d.handler)
    age = 0 if it.when0 is None else now0 - it.when0
    in_signal, in_cancel, in_abandon, in_poll = _stages(age, B, T)
    B0 = 0 if B is None else B
    polling = sp if P is None else If(P != 0, P, sp)
    evs = own_events(vc, it.since, d)
    sets = [e for e in evs if e[0] == 'stopper.set']
    cancels = [e for e in evs if e[0] == 'task.cancel']
    done_end = task.state
    lists = g.lists
    appended = lists[0][1:] if len(lists) == 1 and lists[0] and lists[0][0] is g.prefix else None

    # -- flag_first
    vc.ensure('flag_first', st.is_set(reason))
    effects = [e for e in evs if e[0] != 'suspend']
    was = And(it.event0, Or(*[And(Eq(reason, r), it.flags0[r]) for r in SR]))     # raised before this call's turn
    if effects:
        e = effects[0]
        vc.ensure('flag_first', Or(was, e[0] == 'stopper.set' and Eq(e[2], reason)))
    for i, e in enumerate(evs):
        if (e[0] == 'stopper.set' and is_stage_flag(e[2])) or e[0] == 'task.cancel':
            earlier = [x for x in evs[:i] if x[0] == 'stopper.set']
            vc.ensure('flag_first', Or(was, *[Eq(x[2], reason) for x in earlier]))

    # -- stage_table: the call's own actions
    for e in sets:
        r = e[2]
        if r is SR.DAEMON_SIGNALLED:
            vc.ensure('stage_table', in_signal)
        elif r is SR.DAEMON_CANCELLED:
            vc.ensure('stage_table', in_cancel)
        elif r is SR.DAEMON_ABANDONED:
            vc.ensure('stage_table', in_abandon)
        else:
            vc.ensure('stage_table', Eq(r, reason))
        if is_stage_flag(r):
            vc.ensure('stage_table', And(Not(it.done0), Not(e[5])))
    for e in cancels:
        vc.ensure('stage_table', And(in_cancel, Not(it.done0)))
    vc.canary('canary.never_cancels', not cancels)
    vc.canary('canary.never_abandons', not any(e[2] is SR.DAEMON_ABANDONED for e in sets))

    # -- stage_progress
    running_end = Not(done_end)
    vc.ensure('stage_progress', Implies(And(running_end, in_signal), st.is_set(SR.DAEMON_SIGNALLED)))
    vc.ensure('stage_progress', Implies(And(running_end, in_cancel), st.is_set(SR.DAEMON_CANCELLED)))
    vc.ensure('stage_progress', Implies(And(running_end, in_abandon), st.is_set(SR.DAEMON_ABANDONED)))
    check_cancel_with_flag(vc, 'cancel_with_flag', evs)

    # -- delays
    vc.ensure('delays', appended is not None and len(appended) <= 1)
    if appended is None:
        return
    has = len(appended) == 1
    v = appended[0] if has else None
    vc.ensure('delays', Implies(it.done0, not has))
    vc.ensure('delays', Implies(And(running_end, Or(in_signal, in_cancel, in_poll)), has))
    vc.ensure('delays', Implies(in_abandon, not has))
    if has:
        vc.ensure('delays', And(Implies(in_signal, Eq(v, B - age) if B is not None else False),
                                Implies(in_cancel, Eq(v, T + B0 - age) if T is not None else False),
                                Implies(in_poll, Eq(v, polling))))
    vc.canary('canary.always_delays', has)

    # -- C06: ghost `alive` := some visited daemon is neither done nor abandoned (at the end of its turn)
    alive = Or(g.alive, And(running_end, Not(st.is_set(SR.DAEMON_ABANDONED))))
    vc.ensure('delays_nonempty_while_alive', Implies(alive, g.prefix.n + len(appended) > 0))

    # -- crash_free: a live view must not be walked across a suspension point
    vc.ensure('crash_free', not (it.mode == 'live' and g.susp > it.susp))


def _d2_one(vc):
    clock = Clock()
    g = Ghost(susp=0)
    reason = vc.fin('reason', [SR.OPERATOR_PAUSING, SR.OPERATOR_EXITING])
    settings = Opaque('settings', background=Opaque('background', cancellation_polling=vc.real('settings.cancellation_polling')))
    d = mk_daemon(vc, clock)
    st, task = d.stopper, d.task
    B, T, _P = settings_of(d.handler)

    def on_suspend(site):
        g.susp += 1
        clock.advance()
        task.havoc()
        st.havoc()
        vc.emit('suspend', site)

    async def wait_for_instant_exit(*, settings, daemon):
        vc.emit('instant_exit', daemon)
        await suspend('_wait_for_instant_exit')

    async def wait(tasks, *, timeout=None, return_when=asyncio.ALL_COMPLETED):
        tasks = list(tasks)
        if not all(t is task for t in tasks) or return_when != asyncio.ALL_COMPLETED:
            raise Unsupported('aiotasks.wait on something else than the daemon task')
        t0 = clock.now
        vc.emit('wait', timeout, t0)
        if tasks:
            await suspend('aiotasks.wait')
            elapsed = False if timeout is None else (clock.now >= t0 + timeout)
            vc.assume(Or(task.state, elapsed), 'asyncio.wait returns once the tasks are done or the timeout has elapsed')
        return Unusable('done set'), Unusable('pending set')

    ld = vc.load('kopf._core.engines.daemons', 'stop_daemon', stubs={
        '_wait_for_instant_exit': wait_for_instant_exit,
        'aiotasks.wait': wait,
        'asyncio.get_running_loop': lambda: StubLoop(clock),
        'warnings.warn': lambda *a, **kw: vc.emit('warn', a),
    })
    vc.drive(ld.fn(settings=settings, daemon=d, reason=reason), on_suspend)
    tr = [e for e in vc.trace if e[0] in ('stopper.set', 'task.cancel', 'suspend', 'wait')]
    effects = [e for e in tr if e[0] in ('stopper.set', 'task.cancel')]
    # -- one.flag_first
    vc.ensure('one.flag_first', bool(tr) and tr[0][0] == 'stopper.set' and Eq(tr[0][2], reason))
    vc.ensure('one.flag_first', st.is_set(reason))
    t_flag = tr[0][3] if tr and tr[0][0] == 'stopper.set' else None
    # -- one.stage_order
    t_cancel = None
    for e in effects[1:]:
        if e[0] == 'stopper.set':
            r, t = e[2], e[3]
            if r is SR.DAEMON_SIGNALLED:
                vc.ensure('one.stage_order', B is not None)
            elif r is SR.DAEMON_CANCELLED:
                vc.ensure('one.stage_order', T is not None)
            elif r is SR.DAEMON_ABANDONED:
                vc.ensure('one.stage_order', t_flag is not None)
                if T is not None:
                    vc.ensure('one.stage_order', t_cancel is not None and t >= t_cancel + T)
                if B is not None and t_flag is not None:
                    vc.ensure('one.stage_order', t >= t_flag + B)
            else:
                vc.ensure('one.stage_order', Eq(r, reason))
        else:
            t, done_then = e[2], e[3]
            t_cancel = t
            vc.ensure('one.stage_order', T is not None and t_flag is not None)
            vc.ensure('one.stage_order', Not(done_then))
            if B is not None and t_flag is not None:
                vc.ensure('one.stage_order', t >= t_flag + B)
    # stage flags are only raised on a task that is still running at that moment
    for e in effects:
        if e[0] == 'stopper.set' and is_stage_flag(e[2]):
            vc.ensure('one.stage_order', Not(e[5]))
    check_cancel_with_flag(vc, 'one.cancel_with_flag', tr)
    # -- one.progress / termination
    running_end = Not(task.state)
    vc.ensure('one.progress', Implies(running_end, And(B is None or st.is_set(SR.DAEMON_SIGNALLED),
                                                       T is None or st.is_set(SR.DAEMON_CANCELLED))))
    vc.ensure('one.progress', Implies(running_end, T is None or any(e[0] == 'task.cancel' for e in effects)))
    vc.ensure('one.ends_done_or_abandoned', Or(task.state, st.is_set(SR.DAEMON_ABANDONED)))
    # -- one.chance_before_abandon: the daemon task can only run (and obey the flag) while the stopper is suspended
    for i, e in enumerate(tr):
        if e[0] == 'stopper.set' and e[2] is SR.DAEMON_ABANDONED:
            vc.ensure('one.chance_before_abandon', any(x[0] == 'suspend' for x in tr[1:i]))
    vc.canary('canary.one.never_abandons', not any(e[0] == 'stopper.set' and e[2] is SR.DAEMON_ABANDONED for e in effects))
    return ('one', len(effects))


# =============================================================================================== D1
class RegDict(LiveDict):
    """running_daemons as seen for ONE handler id: membership is a (symbolic) boolean; every access is recorded."""
    def __init__(self, vc, name, key, present, value=None):
        super().__init__(name)
        self.vc, self.key, self.present, self.value = vc, key, present, value

    def _mine(self, k):
        if k != self.key:
            raise Unsupported(f'{self.name}: access to another key {k!r}')

    def __contains__(self, k):
        self._mine(k)
        self.vc.emit('daemons.contains', k)
        return bool(self.present)

    def __setitem__(self, k, v):
        self._mine(k)
        self.vc.emit('daemons.set', k, v)
        self.present, self.value = True, v

    def __getitem__(self, k):
        self._mine(k)
        if not self.present:
            raise KeyError(k)
        return self.value

    def __delitem__(self, k):
        self._mine(k)
        if not self.present:
            raise KeyError(k)
        self.vc.emit('daemons.del', k)
        self.present, self.value = False, None


class RunnerDict(RegDict):
    """running_daemons as the ending runner sees it: its own record under its own id plus a concrete tuple of
    records of the object's other daemons/timers (before / after it, in dict order).  No suspension point lies
    between the end of the wrapped call and the end of the runner (D1.removal_last), so walking it is safe."""
    def __init__(self, vc, name, key, value, before=(), after=()):
        super().__init__(vc, name, key, True, value)
        self.before, self.after = list(before), list(after)

    def _content(self):
        mine = [(self.key, self.value)] if self.present else []
        return self.before + mine + self.after

    def values(self): return [v for _, v in self._content()]
    def items(self): return list(self._content())
    def keys(self): return [k for k, _ in self._content()]
    def __iter__(self): return iter(self.keys())
    def __len__(self): return len(self._content())
    def __bool__(self): return bool(self._content())
    def copy(self): return dict(self._content())

    def get(self, k, default=None):
        self._mine(k)
        return self.value if self.present else default


class TracedSet(set):
    def __init__(self, vc, items=()):
        super().__init__(items)
        self._vc = vc

    def add(self, x):
        self._vc.emit('forever_stopped.add', x)
        super().add(x)


class TracedMemory:
    """DaemonsMemory: attribute writes are recorded on the ghost trace"""
    def __init__(self, vc, **kw):
        object.__setattr__(self, '_vc', vc)
        for k, v in kw.items():
            object.__setattr__(self, k, v)

    def __setattr__(self, k, v):
        self._vc.emit('memory.write', k, v)
        object.__setattr__(self, k, v)


@harness('D1', targets=['kopf._core.engines.daemons.spawn_daemons', 'kopf._core.engines.daemons._runner'], props=['C09', 'C10', 'C13', 'C06', 'C20', 'C08', 'C15'],
         prop_clauses={'C08': ['runner_wired', 'live_body_kept_while_shared', 'own_patch_per_daemon'], 'C15': ['spawn_only_absent', 'runner_wired', 'frame']},
         clauses=['spawn_only_absent', 'atomic_register', 'runner_wired', 'frame', 'own_patch_per_daemon',
                  'wraps_by_kind', 'forever_stopped_iff_self_exit', 'removal_last', 'done_flag', 'propagates',
                  'live_body_kept_while_shared'],
         canaries=['canary.always_spawns', 'canary.never_forever_stopped'],
         trusted=['asyncio.create_task(coro): returns a new task, does not run the coroutine before the next suspension of the caller',
                  'daemons._daemon / daemons._timer (D4-D6): suspend; return, raise any exception or are cancelled',
                  'aioenums.FlagSetter by contract (SymStopper); loggers.LocalObjectLogger: no effect'],
         assumes=['spawn_daemons: memory.live_fresh_body is not None (H7.body_before_spawn)',
                  '_runner: daemons[handler.id] is the runner\'s own record when it starts (D1.atomic_register) and nobody else '
                  'deletes it (only _runner deletes entries); handler is a DaemonHandler or a TimerHandler; `daemons` is '
                  'memory.running_daemons (processing.process_spawning_cause, H7); the other entries of that dict are drawn '
                  'over a universe of 0..2 records of other handlers in every position relative to the own record'])
def D1(vc):
    """
    At most one instance per (object, handler): running_daemons[id] exists exactly while a runner of id is alive.
    spawn_daemons (loop contract: ONE arbitrary handler of the given sequence):
      spawn_only_absent  a task is created (exactly one) iff handler.id is not in the running-daemons dict; an
                         existing entry is neither replaced nor touched;
      atomic_register    the new task is stored under handler.id, and between the membership test, the task creation
                         and the store there is no suspension point (so neither the new runner nor another
                         processing cycle can observe the dict without the entry);
      runner_wired       the stored record holds the created task, the handler and the very stopper given to the
                         runner's cause (a fresh, unset one); the runner gets the same dict (for self-removal),
                         the handler and the memory.
      own_patch_per_daemon  (spawn_daemons run natively for TWO or THREE absent handlers of one object, spawned in one cycle)
                         what is handed out per daemon is the daemon's own: every runner's cause carries its OWN patch
                         object (empty when handed over, relative to the live body) and its own stopper -- never an object
                         shared with a sibling or the one-shot patch of the spawning cycle: each runner delivers its patch
                         and swaps in a fresh one for itself only; a shared initial patch is never cleared, so whatever the
                         first handler to finish put into it is re-sent, stale, with every sibling's first delivery, and a
                         sibling's delivery ships another handler's half-written fields (C08: exactly once, atomically;
                         seeded C08-10 hoisted the Patch construction out of the loop).
    _runner:
      wraps_by_kind      daemons run in _daemon, timers in _timer, exactly once, with the handler and cause given;
      forever_stopped_iff_self_exit  handler.id is added to memory.forever_stopped iff no stop reason was ever
                         given when the wrapped call ended (any way: return, exception, cancellation);
      removal_last       the own entry is deleted exactly once, after the wrapped call has ended, and the whole epilogue
                         (forever_stopped bookkeeping, deletion, DONE flag) is one atomic segment that ends the runner:
                         no suspension point after the wrapped call (nobody sees the entry gone while the runner lives,
                         or a self-exited daemon missing in forever_stopped);
      done_flag          the stopper carries DONE at the end;  propagates: exceptions/cancellation are not swallowed;
      live_body_kept_while_shared  memory.live_fresh_body is THE body object every running daemon/timer of the object was
                         given (D1.runner_wired) and the only one processing.process_resource_event refreshes in place
                         (docs/daemons.rst: kwargs are "live views" of the current state): while another daemon/timer of
                         the object is still registered the ending runner leaves it alone (dropping it would freeze the
                         others' view for good: the next cycle installs a new body object); and the runner never
                         installs a body of its own -- at most it drops the reference.  (Whether it is dropped when
                         nobody else is registered is a memory optimisation and is not constrained.)
    """
    k = vc.nondet(3, 'spawn_daemons | _runner | spawn_daemons for several handlers')
    if k == 0:
        return _d1_spawn(vc)
    if k == 2:
        return _d1_spawn_several(vc)
    return _d1_runner(vc)


def _d1_spawn_several(vc):
    clock = Clock()
    settings = Opaque('settings')
    body = Opaque('live-body')
    spawning_patch = patches.Patch()
    cause = Opaque('spawning-cause', resource=Opaque('resource'), indices=Opaque('indices'), logger=NullLogger(),
                   memo=Opaque('memo'), body=Opaque('cause-body'), patch=spawning_patch)
    n = 2 + vc.nondet(2, 'two or three absent handlers')
    hs = [mk_handler(vc, f'd{i}', sym=False) for i in range(n)]
    running = {}
    memory = TracedMemory(vc, live_fresh_body=body, forever_stopped=set(), running_daemons=running, idle_reset_time=clock.now)
    jobs = []

    def runner(**kw):
        jobs.append(kw)
        return Ghost(kw=kw)

    def create_task(coro, *, name=None, **kw):
        return SymTask(vc, clock, 'new-task', done=False)

    async def sleep(*a, **kw):
        await suspend('asyncio.sleep')

    ld = vc.load('kopf._core.engines.daemons', 'spawn_daemons', stubs={
        '_runner': runner, 'asyncio.create_task': create_task, 'asyncio.sleep': sleep,
        'loggers.LocalObjectLogger': lambda **kw: NullLogger(),
    })
    vc.drive(ld.fn(settings=settings, handlers=hs, daemons=running, cause=cause, memory=memory), lambda site: None)
    vc.ensure('own_patch_per_daemon', len(jobs) == n and [kw.get('handler') for kw in jobs] == hs)
    ps = [kw['cause'].patch for kw in jobs]
    sts = [kw['cause'].stopper for kw in jobs]
    for i in range(len(jobs)):
        vc.ensure('own_patch_per_daemon', isinstance(ps[i], patches.Patch) and ps[i] is not spawning_patch
                  and not any(ps[i] is ps[j] for j in range(i)))
        vc.ensure('own_patch_per_daemon', not ps[i] and len(ps[i]) == 0 and not ps[i].fns)
        vc.ensure('own_patch_per_daemon', sts[i] is not None and not any(sts[i] is sts[j] for j in range(i)))
        vc.ensure('own_patch_per_daemon', jobs[i]['cause'].body is body)
    return ('spawn-several', n, len(jobs))


def _d1_spawn(vc):
    clock = Clock()
    g = Ghost(calls=0, it=None)
    settings = Opaque('settings')
    body = Opaque('live-body')
    hs = Opaque('handlers')
    cause = Opaque('spawning-cause', resource=Opaque('resource'), indices=Opaque('indices'), logger=NullLogger(),
                   memo=Opaque('memo'), body=Opaque('cause-body'))
    running = RegDict(vc, 'running_daemons', key='d', present=False)
    memory = TracedMemory(vc, live_fresh_body=body, forever_stopped=set(), running_daemons=running,
                          idle_reset_time=clock.now)

    def runner(**kw):
        job = Ghost(kw=kw)
        vc.emit('runner.coro', job)
        return job

    def create_task(coro, *, name=None, **kw):
        task = SymTask(vc, clock, 'new-task', done=False)
        vc.emit('create_task', coro, task)
        return task

    async def sleep(*a, **kw):
        await suspend('asyncio.sleep')

    def on_suspend(site):
        vc.emit('suspend', site)

    def element(loc, iterable):
        vc.ensure('frame', iterable is hs)
        if vc.nondet(2, 'exhausted?') == 0:
            return _STOP
        h = mk_handler(vc, 'd', sym=False)
        running.present = vc.bool('d in running_daemons')
        running.value = Opaque('existing-daemon')
        g.it = Ghost(h=h, present0=running.present, value0=running.value, since=len(vc.trace))
        return h

    def invariant(loc):
        g.calls += 1
        if g.calls == 3:
            _d1_spawn_turn(vc, g, running, memory, settings)
        return True

    ld = vc.load('kopf._core.engines.daemons', 'spawn_daemons', stubs={
        '_runner': runner, 'asyncio.create_task': create_task, 'asyncio.sleep': sleep,
        'loggers.LocalObjectLogger': lambda **kw: NullLogger(),
    }, loops={1: LoopSpec('for handler in handlers', invariant=invariant, element=element)})
    result = vc.drive(ld.fn(settings=settings, handlers=hs, daemons=running, cause=cause, memory=memory), on_suspend)
    vc.ensure('frame', not any(e[0] in ('create_task', 'daemons.set', 'daemons.del', 'memory.write') for e in vc.trace))
    return ('spawn', 'returned', len(result))


def _d1_spawn_turn(vc, g, running, memory, settings):
    it = g.it
    tr = vc.trace[it.since:]
    names = [e[0] for e in tr]
    creates = [e for e in tr if e[0] == 'create_task']
    stores = [e for e in tr if e[0] == 'daemons.set']
    absent = Not(it.present0)
    vc.ensure('spawn_only_absent', len(creates) <= 1 and len(stores) <= 1 and 'daemons.del' not in names)
    vc.ensure('spawn_only_absent', Iff(len(creates) == 1, absent))
    vc.ensure('spawn_only_absent', Iff(len(stores) == 1, absent))
    vc.canary('canary.always_spawns', len(creates) == 1)
    vc.ensure('frame', 'memory.write' not in names)
    if not creates or not stores:
        vc.ensure('spawn_only_absent', running.value is it.value0)
        return
    # atomic segment: membership test ... create_task ... store, without a suspension point
    first_test = names.index('daemons.contains') if 'daemons.contains' in names else None
    i_store = names.index('daemons.set')
    i_create = names.index('create_task')
    vc.ensure('atomic_register', first_test is not None and first_test < i_create < i_store)
    vc.ensure('atomic_register', 'suspend' not in names[(first_test or 0):i_store + 1])
    key, rec = stores[0][1], stores[0][2]
    coro, task = creates[0][1], creates[0][2]
    vc.ensure('atomic_register', key == it.h.id and rec.task is task)
    jobs = [e[1] for e in tr if e[0] == 'runner.coro']
    vc.ensure('runner_wired', len(jobs) == 1 and coro is jobs[0])
    if len(jobs) == 1:
        kw = jobs[0].kw
        st = rec.stopper
        vc.ensure('runner_wired', rec.handler is it.h and kw.get('handler') is it.h and kw.get('daemons') is running
                  and kw.get('memory') is memory and kw.get('settings') is settings)
        vc.ensure('runner_wired', kw['cause'].stopper is st and not st.is_set() and st.reason is None)
        vc.ensure('runner_wired', kw['cause'].body is memory.live_fresh_body)


def _d1_runner(vc):
    clock = Clock()
    g = Ghost(flags_at_end=None, outcome=None)
    settings = Opaque('settings')
    h = mk_handler(vc, 'd', sym=False)
    stopper = SymStopper(vc, clock, 'stopper', fresh=True)
    cause = Opaque('daemon-cause', stopper=stopper, logger=NullLogger(), resource=Opaque('resource'), body=Opaque('body'),
                   patch=Opaque('patch'), memo=Opaque('memo'), indices=Opaque('indices'))
    task = SymTask(vc, clock, 'own-task', done=False)
    me = daemons.Daemon(task=task, logger=NullLogger(), handler=h, stopper=stopper)
    n_others = vc.nondet(3, 'other daemons/timers of the object still registered: none / one / two')
    n_before = vc.nondet(n_others + 1, 'how many of them precede the own record in the dict') if n_others else 0
    others = [(f'other-{i}', Opaque(f'another-daemon-{i}')) for i in range(n_others)]
    running = RunnerDict(vc, 'running_daemons', key='d', value=me, before=others[:n_before], after=others[n_before:])
    had = vc.nondet(2, 'id already in forever_stopped?') == 1
    forever = TracedSet(vc, {'other'} | ({'d'} if had else set()))
    live0 = Opaque('live-body')
    memory = TracedMemory(vc, live_fresh_body=live0, forever_stopped=forever, running_daemons=running,
                          idle_reset_time=clock.now)
    kinds = ['return', 'cancelled', 'error']

    def guarded(which):
        async def wrapper(**kw):
            vc.emit('guarded', which, kw)
            await suspend(which)
            g.outcome = kinds[vc.nondet(3, f'{which}: returns / is cancelled / fails')]
            g.flags_at_end = dict(stopper.flags)
            vc.emit('guarded.end', which)
            if g.outcome == 'cancelled':
                raise asyncio.CancelledError()
            if g.outcome == 'error':
                raise ValueError('any exception out of the daemon/timer wrapper')
        return wrapper

    def on_suspend(site):
        clock.advance()
        stopper.havoc()
        vc.emit('suspend', site)

    async def sleep(*a, **kw):
        await suspend('asyncio.sleep')

    # no loop contract: the dict content is concrete (RunnerDict), the walk over it runs natively
    ld = vc.load('kopf._core.engines.daemons', '_runner',
                 stubs={'_daemon': guarded('_daemon'), '_timer': guarded('_timer'), 'asyncio.sleep': sleep})
    escaped = None
    try:
        vc.drive(ld.fn(settings=settings, daemons=running, handler=h, memory=memory, cause=cause), on_suspend)
    except BaseException as e:
        if isinstance(e, (PathEnd, Unsupported)):
            raise
        escaped = e
    tr = vc.trace
    names = [e[0] for e in tr]
    calls = [e for e in tr if e[0] == 'guarded']
    want = '_daemon' if isinstance(h, handlers.DaemonHandler) else '_timer'
    vc.ensure('wraps_by_kind', len(calls) == 1 and calls[0][1] == want)
    if len(calls) == 1:
        kw = calls[0][2]
        vc.ensure('wraps_by_kind', kw.get('handler') is h and kw.get('cause') is cause and kw.get('settings') is settings
                  and (want == '_daemon' or kw.get('memory') is memory))
    vc.ensure('propagates', (g.outcome == 'return') == (escaped is None) and
              (g.outcome != 'cancelled' or isinstance(escaped, asyncio.CancelledError)) and
              (g.outcome != 'error' or isinstance(escaped, ValueError)))
    # -- forever_stopped
    self_exit = Not(Or(*(g.flags_at_end or stopper.flags).values()))
    vc.ensure('forever_stopped_iff_self_exit', Iff('d' in forever, Or(had, self_exit)))
    vc.ensure('forever_stopped_iff_self_exit', set(forever) - {'d'} == {'other'})
    vc.canary('canary.never_forever_stopped', 'd' not in forever)
    # -- removal
    dels = [i for i, n in enumerate(names) if n == 'daemons.del']
    vc.ensure('removal_last', len(dels) == 1 and not running.present and 'daemons.set' not in names)
    if len(dels) == 1:
        vc.ensure('removal_last', 'guarded.end' in names[:dels[0]])
    if 'guarded.end' in names:      # from the end of the wrapped call to the end of the runner: one atomic segment
        vc.ensure('removal_last', 'suspend' not in names[names.index('guarded.end'):])
    vc.ensure('done_flag', stopper.is_set(SR.DONE))
    # -- the live body shared with the object's other daemons/timers
    body_writes = [e for e in tr if e[0] == 'memory.write' and e[1] == 'live_fresh_body']
    vc.ensure('live_body_kept_while_shared', n_others == 0 or (not body_writes and memory.live_fresh_body is live0))
    vc.ensure('live_body_kept_while_shared', all(e[2] is None for e in body_writes))
    vc.ensure('live_body_kept_while_shared', running.before + running.after == others)
    return ('runner', g.outcome, 'd' in forever, n_others)


# =============================================================================================== D3
@harness('D3', targets=['kopf._core.engines.daemons.match_daemons', 'kopf._core.engines.daemons.pause_daemons',
                        'kopf._core.engines.daemons.daemon_killer'], props=['C09', 'C13', 'C20', 'C10', 'C15'],
         prop_clauses={'C10': ['match.stops_exactly_mismatching', 'pause.iff_paused', 'killer.pause_only_when_paused'], 'C15': ['match.stops_exactly_mismatching']},
         clauses=['match.stops_exactly_mismatching', 'match.reason', 'match.delays',
                  'pause.iff_paused', 'pause.reason_all', 'pause.delays',
                  'killer.pause_stops_all', 'killer.pause_only_when_paused', 'killer.pause_rounds_while_on',
                  'killer.exit_stops_all',
                  'killer.waits_before_close', 'killer.crash_free', 'killer.no_spin'],
         canaries=['canary.match.stops_all', 'canary.pause.always_stops', 'canary.killer.never_closes'],
         trusted=['daemons.stop_daemons / stop_daemon by contract D2 (here: recorded, suspend, arbitrary delays)',
                  'aiotasks.Scheduler: spawn(coro) takes ownership of the coroutine and suspends; wait() returns when all '
                  'spawned coroutines have finished; close() cancels the rest',
                  'aiotoggles.ToggleSet: is_on() reads the shared pause state; wait_for(s) returns when the state is s',
                  'asyncio.timeout(t): turns the cancellation it injects after t seconds into TimeoutError; exists from Python 3.11 on'],
         assumes=['match_daemons: handler ids are hashable constants; the mapping is drawn over a universe of 3 ids with every '
                  'combination of "currently matching" x "running" (the set/dict comprehensions cannot be cut by a loop contract)',
                  'daemon_killer: the task is cancelled once (operator exit); no second cancellation while its finally block runs; '
                  'sys.version_info is drawn from {3.10, the running interpreter} (both sides of the version switch; '
                  'asyncio.timeout is a stub, so the 3.11+ branch needs no real one)'])
def D3(vc):
    """
    Who gets stopped, and why.
    match_daemons:  exactly the running daemons whose handler id is not among the currently matching handlers are
                    handed to stop_daemons, with reason FILTERS_MISMATCH; its delays are returned.
    pause_daemons:  stop_daemons(all running daemons, OPERATOR_PAUSING) iff operator_paused is given and on;
                    its delays are returned, none otherwise.
    daemon_killer:  (loop contracts: one arbitrary memory, one arbitrary running daemon)
      killer.pause_stops_all / pause_only_when_paused / pause_rounds_while_on  once the pause toggle is on, stopping
                    rounds are made until it is observed off; in a round every running daemon of every memory gets
                    stop_daemon(reason=OPERATOR_PAUSING) scheduled; no such stopper is scheduled in any other situation;
      killer.exit_stops_all     when the task is cancelled (operator exit) or fails, every running daemon of every
                    memory gets stop_daemon(reason=OPERATOR_EXITING) scheduled;
      killer.waits_before_close the scheduler is awaited after the last stopper was scheduled and before it is closed;
      killer.crash_free         dicts shared with other tasks (memories, running_daemons) are not walked as live
                    views across a suspension point: runners delete their entries (and deleted objects are forgotten)
                    whenever the killer is suspended, and the next step of a live view then raises RuntimeError --
                    the killer dies and the remaining daemons are never asked to stop; and the killer (an endless
                    root task) ends by cancellation only, on every supported interpreter;
      killer.no_spin            "stopping never stalls the operator": every turn of the killer's two endless loops (one
                    wait-for-pause cycle; one stopping round while paused) yields to the event loop at least once -- it
                    blocks on the pause toggle (or on the scheduler) -- so the killer never busy-loops, neither while the
                    operator runs normally nor while it stays paused (a loop turn without any suspension changes nothing
                    it could observe, repeats forever and starves every other task).  The shared pause state changes
                    only at suspension points (loop summaries: "no suspension so far => state unchanged").
    """
    k = vc.nondet(3, 'match_daemons | pause_daemons | daemon_killer')
    if k == 0:
        return _d3_match(vc)
    if k == 1:
        return _d3_pause(vc)
    return _d3_killer(vc)


def _stop_daemons_stub(vc):
    async def stop_daemons(**kw):
        delays = vc.seq('stop_daemons.delays', 'real')
        vc.emit('stop_daemons', kw, delays)
        await suspend('stop_daemons')
        return delays
    return stop_daemons


def _d3_match(vc):
    settings = Opaque('settings')
    universe = ['a', 'b', 'c']
    hs, running, expected = [], {}, set()
    for i in universe:
        matching = vc.nondet(2, f'{i} matches now?') == 1
        runs = vc.nondet(2, f'{i} is running?') == 1
        h = Opaque(f'handler-{i}', id=i)
        if matching:
            hs.append(h)
        if runs:
            running[i] = daemons.Daemon(task=Opaque('task'), logger=NullLogger(), handler=h, stopper=Opaque('stopper'))
            if not matching:
                expected.add(i)
    before = dict(running)
    ld = vc.load('kopf._core.engines.daemons', 'match_daemons', stubs={'stop_daemons': _stop_daemons_stub(vc)})
    result = vc.drive(ld.fn(settings=settings, handlers=hs, daemons=running), lambda site: None)
    calls = [e for e in vc.trace if e[0] == 'stop_daemons']
    stopped = {}
    for e in calls:
        kw = e[1]
        vc.ensure('match.reason', kw.get('reason') is SR.FILTERS_MISMATCH and kw.get('settings') is settings)
        for d in kw['daemons'].values():
            stopped[d.handler.id] = d
    vc.ensure('match.stops_exactly_mismatching', set(stopped) == expected and all(stopped[i] is before[i] for i in stopped))
    vc.ensure('match.stops_exactly_mismatching', running == before)
    total = 0
    for e in calls:
        total = total + vc_len(e[2])
    vc.ensure('match.delays', Eq(vc_len(result), total))
    if len(calls) == 1:
        vc.ensure('match.delays', Eq(result, calls[0][2]))
    vc.canary('canary.match.stops_all', set(stopped) == set(before))
    return ('match', sorted(stopped))


def _d3_pause(vc):
    settings = Opaque('settings')
    running = LiveDict('running_daemons')
    on = vc.bool('operator_paused.is_on')
    toggle = Opaque('operator_paused')
    toggle.is_on = lambda: on
    toggle.is_off = lambda: Not(on)
    paused = [None, toggle][vc.nondet(2, 'operator_paused given?')]
    ld = vc.load('kopf._core.engines.daemons', 'pause_daemons', stubs={'stop_daemons': _stop_daemons_stub(vc)})
    result = vc.drive(ld.fn(settings=settings, daemons=running, operator_paused=paused), lambda site: None)
    calls = [e for e in vc.trace if e[0] == 'stop_daemons']
    is_paused = False if paused is None else on
    vc.ensure('pause.iff_paused', len(calls) <= 1)
    vc.ensure('pause.iff_paused', Iff(len(calls) == 1, is_paused))
    for e in calls:
        kw = e[1]
        vc.ensure('pause.reason_all', kw.get('reason') is SR.OPERATOR_PAUSING and kw.get('daemons') is running
                  and kw.get('settings') is settings)
        vc.ensure('pause.delays', Eq(result, e[2]))
    if not calls:
        vc.ensure('pause.delays', vc_len(result) == 0)
    vc.canary('canary.pause.always_stops', len(calls) == 1)
    return ('pause', len(calls))


class _TimeoutFired(asyncio.CancelledError):
    """the cancellation asyncio.timeout() injects when its deadline passes"""


def _d3_killer(vc):
    g = Ghost(susp=0, thrown=False, paused=vc.bool('paused0'), in_timeout=0, mem=None, memit=None, dit=None,
              calls={}, soft=[], cycle_mark=(0, 0), round_mark=(0, 0))
    clock = Clock()
    import sys as _sys
    version_info = [(3, 10, 14, 'final', 0), tuple(_sys.version_info)][vc.nondet(2, 'python 3.10 | the running interpreter')]
    settings = Opaque('settings')
    memdict = LiveDict('memories')
    memories = Opaque('memories')
    memories.iter_all_daemon_memories = lambda: LiveView(memdict, 'values')     # a generator over the live dict

    def maybe_cancel(site):
        if not g.thrown and vc.nondet(2, f'{site}: the killer is cancelled here?') == 1:
            g.thrown = True
            raise asyncio.CancelledError()

    async def susp(site):
        g.susp += 1
        vc.emit('suspend', site)
        await suspend(site)
        g.paused = vc.bool('paused')         # other tasks (peering) flip the pause toggle meanwhile

    class Toggle:
        def is_on(self):
            vc.emit('is_on', g.paused)
            return g.paused

        async def wait_for(self, state):
            vc.emit('wait_for', state)
            if Eq(g.paused, bool(state)):
                return
            await susp('operator_paused.wait_for')
            if not g.thrown:
                k = vc.nondet(3 if g.in_timeout else 2, 'wait_for: state reached / cancelled / timeout fired')
                if k == 1:
                    g.thrown = True
                    raise asyncio.CancelledError()
                if k == 2:
                    raise _TimeoutFired()
            vc.assume(Eq(g.paused, bool(state)), 'wait_for returns when the toggle has the awaited state')

    class Timeout:
        def __init__(self, delay):
            self.delay = delay

        async def __aenter__(self):
            g.in_timeout += 1
            return self

        async def __aexit__(self, et, e, tb):
            g.in_timeout -= 1
            if et is not None and issubclass(et, _TimeoutFired):
                raise TimeoutError() from e
            return False

    class Scheduler:
        def __init__(self, **kw):
            vc.emit('sched.new', kw)

        async def spawn(self, coro, *, name=None):
            vc.emit('spawn', coro)
            await susp('scheduler.spawn')
            maybe_cancel('scheduler.spawn')

        async def wait(self):
            vc.emit('sched.wait')
            await susp('scheduler.wait')

        async def close(self):
            vc.emit('sched.close')
            await susp('scheduler.close')

    def timeout(delay):
        if version_info < (3, 11):      # asyncio.timeout() is new in Python 3.11
            raise AttributeError("module 'asyncio' has no attribute 'timeout'")
        return Timeout(delay)

    def stop_daemon(**kw):
        return Ghost(kw=kw)

    def crash_free(it):
        bad = it.mode == 'live' and g.susp > it.susp
        vc.ensure('killer.crash_free', not bad, excuse={FINDING_LIVE_ITERATION: bad})

    def mem_loop(anchor):
        def element(loc, iterable):
            mode = iteration_mode(iterable, memdict)
            if mode is None or mode[1] != 'values':
                raise Unsupported(f'daemon_killer walks something else than the memories: {iterable!r}')
            if vc.nondet(2, 'memories exhausted?') == 0:
                return _STOP
            g.mem = Opaque('memory', running_daemons=LiveDict('running_daemons'))
            g.memit = Ghost(mode=mode[0], susp=g.susp)
            return g.mem

        def invariant(loc):
            n = g.calls[anchor] = g.calls.get(anchor, 0) + 1
            if n == 3:
                crash_free(g.memit)
            return True
        return LoopSpec('for memory in', invariant=invariant, havoc=summary(anchor), element=element, name=anchor)

    def daemon_loop(anchor, reason, clause):
        def havoc(loc):
            # summary of the earlier turns of this loop: each of them suspends in scheduler.spawn
            if vc.nondet(2, f'{anchor}: earlier turns (which suspend) happened?') == 1:
                g.susp += 1
                havoc_shared()
            return {}

        def element(loc, iterable):
            mode = iteration_mode(iterable, g.mem.running_daemons)
            if mode is None or mode[1] != 'values':
                raise Unsupported(f'daemon_killer walks something else than memory.running_daemons: {iterable!r}')
            if vc.nondet(2, 'daemons exhausted?') == 0:
                return _STOP
            g.dit = Ghost(mode=mode[0], susp=g.susp, since=len(vc.trace),
                          d=mk_daemon(vc, clock, kinds=('daemon',), sym=False))
            return g.dit.d

        def invariant(loc):
            n = g.calls[anchor] = g.calls.get(anchor, 0) + 1
            if n == 3:
                it = g.dit
                spawns = [e[1] for e in vc.trace[it.since:] if e[0] == 'spawn']
                vc.ensure(clause, len(spawns) == 1 and isinstance(spawns[0], Ghost)
                          and spawns[0].kw.get('daemon') is it.d and spawns[0].kw.get('reason') is reason
                          and spawns[0].kw.get('settings') is settings)
                crash_free(it)
            return True
        return LoopSpec('for daemon in', invariant=invariant, havoc=havoc, element=element, name=anchor)

    def havoc_shared(loc=None):
        # earlier turns of a loop suspend: the pause toggle may have been flipped by other tasks meanwhile
        g.paused = vc.bool('paused')
        return {}

    def summary(anchor, mark=None, earlier=True):
        """loop-head summary of the earlier turns: either none of them has suspended so far (no other task ran: the
        shared pause state is as it was), or some did (a ghost suspension `s` is noted, the pause toggle is arbitrary).
        `mark`: the turn that starts here is the one `no_spin(mark)` speaks about."""
        def havoc(loc):
            if earlier:
                s = vc.bool(f'{anchor}: some earlier turn suspended')
                g.paused = If(s, vc.bool('paused'), g.paused)
                g.soft.append(s)
            if mark is not None:
                setattr(g, mark, (g.susp, len(g.soft)))
            return {}
        return havoc

    def no_spin(mark):
        def at_backedge(loc):
            hard, soft = getattr(g, mark)
            vc.ensure('killer.no_spin', Or(g.susp > hard, *g.soft[soft:]))
        return at_backedge

    mark_cycle = summary('wait-for-pause cycles', 'cycle_mark', earlier=False)

    def outer_invariant(loc):
        # back edge of the outer loop: the stopping rounds were left -- only with the toggle observed off
        n = g.calls['outer'] = g.calls.get('outer', 0) + 1
        if n == 3:
            seen = [e[1] for e in vc.trace if e[0] == 'is_on']
            vc.ensure('killer.pause_rounds_while_on', bool(seen) and Not(seen[-1]))
        return True

    ld = vc.load('kopf._core.engines.daemons', 'daemon_killer', stubs={
        'aiotasks.Scheduler': Scheduler, 'stop_daemon': stop_daemon, 'asyncio.timeout': timeout,
        'sys.version_info': version_info,
    }, loops={
        1: LoopSpec('while True', invariant=outer_invariant, havoc=lambda loc: (havoc_shared(), mark_cycle(loc))[1],
                    at_backedge=no_spin('cycle_mark')),
        2: LoopSpec('operator_paused.is_on()', havoc=summary('stopping rounds', 'round_mark'),
                    at_backedge=no_spin('round_mark')),
        3: mem_loop('pausing: for memory'),
        4: daemon_loop('pausing: for daemon', SR.OPERATOR_PAUSING, 'killer.pause_stops_all'),
        5: mem_loop('exiting: for memory'),
        6: daemon_loop('exiting: for daemon', SR.OPERATOR_EXITING, 'killer.exit_stops_all'),
    })
    escaped = None
    try:
        vc.drive(ld.fn(settings=settings, memories=memories, operator_paused=Toggle()), lambda site: None)
    except BaseException as e:
        if isinstance(e, (PathEnd, Unsupported)):
            raise
        escaped = e
    # the killer is an endless root task: it ends by cancellation only (any other exception takes the operator down)
    vc.ensure('killer.crash_free', isinstance(escaped, asyncio.CancelledError))
    # Only the paths that leave the finally block normally arrive here (the others end at a back edge).
    tr = vc.trace
    names = [e[0] for e in tr]
    vc.ensure('killer.waits_before_close', names.count('sched.wait') >= 1 and names.count('sched.close') == 1)
    if 'sched.wait' in names and 'sched.close' in names:
        last_wait = max(i for i, n in enumerate(names) if n == 'sched.wait')
        vc.ensure('killer.waits_before_close', last_wait < names.index('sched.close')
                  and 'spawn' not in names[last_wait:])
    vc.canary('canary.killer.never_closes', 'sched.close' not in names)
    _killer_pause_guard(vc)
    return ('killer', type(escaped).__name__)


def _killer_pause_guard(vc):
    """every OPERATOR_PAUSING stopper is scheduled in a round that started with the toggle observed on"""
    last = None
    for e in vc.trace:
        if e[0] == 'is_on':
            last = e[1]
        elif e[0] == 'wait_for':
            last = None
        elif e[0] == 'spawn' and isinstance(e[1], Ghost) and e[1].kw.get('reason') is SR.OPERATOR_PAUSING:
            vc.ensure('killer.pause_only_when_paused', last is not None and last)


# =============================================================================================== H7
@harness('H7', targets='kopf._core.reactor.processing.process_spawning_cause', props=['C09', 'C10', 'C11', 'C06', 'C13', 'C15', 'C03'],
         prop_clauses={'C11': ['spawn_match_pause_order', 'excludes_forever_stopped', 'no_suspension_between_selection_and_spawning'], 'C06': ['deletion_stops_all', 'delays_passed_on', 'spawn_match_pause_order'], 'C13': ['spawn_match_pause_order'], 'C15': ['spawn_match_pause_order'], 'C03': ['delays_passed_on']},
         clauses=['no_suspension_between_selection_and_spawning', 'deletion_stops_all', 'spawn_match_pause_order', 'excludes_forever_stopped', 'body_before_spawn',
                  'delays_passed_on', 'idle_reset_iff_reset'],
         canaries=['canary.always_spawns', 'canary.never_resets'],
         trusted=['finalizers.is_deletion_ongoing by contract K2 (a boolean function of the body)',
                  'registry._spawning.get_handlers by contract R1/R3 (returns the matching handlers, none of the excluded ids)',
                  'daemons.spawn_daemons (D1), match_daemons / pause_daemons (D3), stop_daemons (D2) by contract: recorded, suspend, arbitrary delays'])
def H7(vc):
    """
    process_spawning_cause, per event of one object:
      deletion_stops_all       deletion mark => stop_daemons(all running daemons of the object, reason RESOURCE_DELETED)
                               and nothing is spawned, matched or paused;
      spawn_match_pause_order  otherwise: get_handlers -> spawn_daemons -> match_daemons -> pause_daemons, strictly in that
                               order, each once, all on the object's running-daemons dict, spawn and match with the
                               handlers just selected, pause with the operator's pause toggle;
      excludes_forever_stopped the handlers are selected with excluded = memory.forever_stopped (self-exited daemons
                               are never started again);
      no_suspension_between_selection_and_spawning
                               the selection is not stale when it is used: no suspension point lies between get_handlers
                               and the call of spawn_daemons (a daemon that ends for good meanwhile would be in the
                               selection, no longer in running_daemons, and be started again: C11 "ends it without retry");
      body_before_spawn        when spawn_daemons is called the memory holds a live body (its precondition);
      delays_passed_on         all delays of the callees are returned (C06: the finalizer stays while daemons exit);
      idle_reset_iff_reset     idle_reset_time := loop time of this call iff cause.reset, untouched otherwise (C10).
    """
    clock = Clock()
    settings = Opaque('settings')
    running = LiveDict('running_daemons', nonempty=vc.bool('some daemon or timer of the object is running'))
    forever = Opaque('forever_stopped')
    body = Opaque('cause-body')
    body0 = [None, Opaque('earlier-body')][vc.nondet(2, 'memory already holds a live body?')]
    idle0 = vc.real('idle_reset_time0')
    dm = TracedMemory(vc, live_fresh_body=body0, forever_stopped=forever, running_daemons=running, idle_reset_time=idle0)
    memory = Opaque('memory', daemons_memory=dm)
    reset = vc.bool('cause.reset')
    cause = Opaque('cause', body=body, reset=reset, logger=NullLogger())
    deleting = vc.bool('is_deletion_ongoing(body)')
    selected = Opaque('selected-handlers')
    paused = [None, Opaque('operator_paused')][vc.nondet(2, 'operator_paused given?')]
    t_in = clock.now

    def get_handlers(*a, **kw):
        kw.update(zip(('cause', 'excluded'), a))
        vc.emit('get_handlers', kw)
        return selected
    registry = Opaque('registry', _spawning=Opaque('spawning-registry', get_handlers=get_handlers))

    def callee(name):
        async def stub(**kw):
            delays = vc.seq(f'{name}.delays', 'real')
            vc.emit(name, kw, delays, dm.live_fresh_body)
            await suspend(name)
            return delays
        return stub

    def is_deletion_ongoing(b):
        vc.emit('is_deletion_ongoing', b)
        return deleting

    def on_suspend(site):
        vc.emit('suspended', site)
        clock.advance()

    ld = vc.load('kopf._core.reactor.processing', 'process_spawning_cause', stubs={
        'finalizers.is_deletion_ongoing': is_deletion_ongoing,
        'daemons.stop_daemons': callee('stop_daemons'), 'daemons.spawn_daemons': callee('spawn_daemons'),
        'daemons.match_daemons': callee('match_daemons'), 'daemons.pause_daemons': callee('pause_daemons'),
        'asyncio.get_running_loop': lambda: StubLoop(clock),
    })
    result = vc.drive(ld.fn(registry=registry, settings=settings, memory=memory, cause=cause, operator_paused=paused), on_suspend)
    t_out = clock.now
    tr = vc.trace
    names = [e[0] for e in tr if e[0] in ('get_handlers', 'stop_daemons', 'spawn_daemons', 'match_daemons', 'pause_daemons')]
    ev = {e[0]: e for e in tr}
    for e in tr:
        if e[0] == 'is_deletion_ongoing':
            vc.ensure('deletion_stops_all', e[1] is body)
    vc.ensure('deletion_stops_all', Implies(deleting, names == ['stop_daemons']))
    vc.ensure('spawn_match_pause_order', Implies(Not(deleting), names == ['get_handlers', 'spawn_daemons', 'match_daemons', 'pause_daemons']))
    vc.canary('canary.always_spawns', 'spawn_daemons' in names)
    marks = [e[0] for e in tr if e[0] in ('get_handlers', 'spawn_daemons', 'suspended')]
    if 'get_handlers' in marks and 'spawn_daemons' in marks:
        vc.ensure('no_suspension_between_selection_and_spawning',
                  'suspended' not in marks[marks.index('get_handlers'):marks.index('spawn_daemons')])
    else:
        vc.ensure('no_suspension_between_selection_and_spawning', 'spawn_daemons' not in marks)
    total = 0
    for n in ('stop_daemons', 'spawn_daemons', 'match_daemons', 'pause_daemons'):
        for e in tr:
            if e[0] == n:
                total = total + vc_len(e[2])
                vc.ensure('spawn_match_pause_order' if n != 'stop_daemons' else 'deletion_stops_all',
                          e[1].get('daemons') is running and e[1].get('settings') is settings)
    if 'stop_daemons' in ev:
        kw = ev['stop_daemons'][1]
        vc.ensure('deletion_stops_all', kw.get('reason', SR.RESOURCE_DELETED) is SR.RESOURCE_DELETED)
    if 'get_handlers' in ev:
        kw = ev['get_handlers'][1]
        vc.ensure('excludes_forever_stopped', kw.get('excluded') is forever and kw.get('cause') is cause)
    if 'spawn_daemons' in ev:
        kw = ev['spawn_daemons'][1]
        vc.ensure('spawn_match_pause_order', kw.get('handlers') is selected and kw.get('memory') is dm and kw.get('cause') is cause)
        vc.ensure('body_before_spawn', ev['spawn_daemons'][3] is not None)
        vc.ensure('body_before_spawn', ev['spawn_daemons'][3] is (body0 if body0 is not None else body))
    if 'match_daemons' in ev:
        vc.ensure('spawn_match_pause_order', ev['match_daemons'][1].get('handlers') is selected)
    if 'pause_daemons' in ev:
        vc.ensure('spawn_match_pause_order', ev['pause_daemons'][1].get('operator_paused') is paused)
    vc.ensure('delays_passed_on', Eq(vc_len(result), total))
    if names == ['stop_daemons']:
        vc.ensure('delays_passed_on', Eq(result, ev['stop_daemons'][2]))
    # -- idle reset (C10)
    new = dm.idle_reset_time
    vc.ensure('idle_reset_iff_reset', Implies(Not(reset), Eq(new, idle0)))
    vc.ensure('idle_reset_iff_reset', Implies(reset, Eq(new, t_in)))
    writes = [e for e in tr if e[0] == 'memory.write' and e[1] not in ('live_fresh_body', 'idle_reset_time')]
    vc.ensure('idle_reset_iff_reset', not writes)
    vc.canary('canary.never_resets', Eq(new, idle0))
    return ('spawning', names, vc_len(result))
