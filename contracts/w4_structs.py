"""Fourth-wave contracts (builder build4-structs): the small DATA STRUCTURES that lie in the cone of influence of several
properties and were so far only used natively (or through stubs) by the verified functions.  Form of every contract: "data
structure against an abstract view" -- the state is given as a plain-Python view (a list of items, a dict key -> values, ...),
every method is stated against the view (result) together with its frame (read-only methods change nothing).

  I10  diffs.Diff.__init__/__iter__/__len__/__eq__                                 C04 (all), C03 C05 (length / emptiness)
  I11  references.Resource.__eq__/__hash__                                         C01 C07 C13 C15 C17 C18 C19
  I12  references.Backbone.__getitem__                                             C13 C19
  I13  indexing.Index.__getitem__/__contains__/__iter__/__len__/__bool__           C17
  I14  indexing.Store.__bool__/__iter__/__len__                                    C17
  I15  indexing.OperatorIndices.__init__/__getitem__/__iter__/__len__/__contains__         C17
  I16  indexing.OperatorIndexers.ensure                                            C17
  I17  indexing.OperatorIndexers.make_key                                          C17

The methods under contract are the extracted real ones (vc.load); they are applied to REAL instances of the classes whose
state is set up directly from the view (never through the methods under contract).

NOTE on I16: the unchanged `ensure` RE-CREATES the indexer of an id that already exists (`self[handler.id] = OperatorIndexer()`),
it does not keep its content.  C17 does not demand either behaviour (the only call is at start-up, before anything is indexed,
and a restart re-lists everything), so the clause is "what it held or nothing -- never anything else"; both variants verify.
"""
import dataclasses

from pyvc import *
from pyvc.stubs import Opaque
from kopf._cogs.structs import bodies, diffs, references
from kopf._core.engines import indexing


class _Super:
    """`super()` inside an extracted method (no __class__ cell there): object.__init__ does nothing."""
    def __init__(self, *a, **kw):
        pass


def _alias_private(obj, cls, *names):
    """The extracted method is compiled outside its class body, so `self.__x` is not name-mangled there:
    give the real instance plain `__x` attributes that are the very same objects as its `_Cls__x` ones."""
    for n in names:
        setattr(obj, '__' + n, getattr(obj, f'_{cls}__{n}'))
    return obj


def _same(a, b):
    """Equality of two leaves without a fork: identical, or equal values (None equals only None)."""
    if a is b:
        return True
    if a is None or b is None:
        return False
    return Eq(a, b)


def _truth(res):
    """The truth value of what an `__eq__` returned between two objects of the SAME class: NotImplemented from both sides makes
    Python fall back to identity (the harness only compares distinct objects: False); a symbolic truth value forks."""
    if res is NotImplemented:
        return False
    return bool(res)


# =============================================================================================== I10
DI = diffs.DiffItem
OPS = list(diffs.DiffOperation)


def _item_eq(a, b):
    """Spec of the equality of two diff items: the four components (operation, field, old, new), pairwise."""
    return And(*[_same(x, y) for x, y in zip(a, b)])


@harness('I10', targets=['kopf._cogs.structs.diffs.Diff.__init__', 'kopf._cogs.structs.diffs.Diff.__iter__',
                         'kopf._cogs.structs.diffs.Diff.__len__', 'kopf._cogs.structs.diffs.Diff.__eq__'],
         props=['C03', 'C04', 'C05'],
         prop_clauses={'C03': ['length_is_item_count', 'falsy_iff_empty'], 'C05': ['length_is_item_count', 'falsy_iff_empty']},
         clauses=['items_kept_in_order', 'item_is_op_field_old_new', 'iteration_repeatable', 'length_is_item_count', 'falsy_iff_empty',
                  'equal_iff_same_items', 'read_only'],
         canaries=['canary.never_empty', 'canary.always_equal', 'canary.never_equal'],
         trusted=['tuple()/iter() over a concrete tuple; object truthiness = (__len__() != 0) when no __bool__ is defined'])
def I10(vc):
    """
    diffs.Diff against the view "the list of the given items": for 0..3 items (operation any DiffOperation, field paths incl.
    the empty one, old/new symbolic, None included), given as a list of plain 4-tuples, a tuple of DiffItems or a ONE-SHOT
    generator (the parameter is an Iterable):
      items_kept_in_order       iterating the new Diff yields as many items as were given, in the given order (C04: the diff
                                shown to handlers is the computed one);
      item_is_op_field_old_new  every yielded item is a DiffItem that unpacks as (operation, field, old, new) with exactly the
                                given components in these positions (C04: old and new are not swapped, `op, field, old, new = item`);
      iteration_repeatable      a second iteration yields the same items again (reduce_iter runs once per handler field);
      length_is_item_count      __len__() == the number of given items;
      falsy_iff_empty           the diff is falsy <=> no items (C03/C05: `not diff` is the NOOP/RESUME-vs-UPDATE decision of
                                detect_changing_cause, `bool(diff)` the daemon's idle reset): both by the extracted __len__ and
                                natively through bool() on the object (so that a __bool__ that disagrees does not go unnoticed);
      equal_iff_same_items      d == other <=> same length and pairwise equal items, for other = another Diff, a list/tuple of
                                plain tuples or DiffItems with separately drawn old/new values, a shorter/longer one, a
                                reordered one; a non-sequence (None, a number, a set) is never equal (NotImplemented or False);
      read_only                 __iter__/__len__/__eq__ leave the diff as it was (same item objects afterwards).
    """
    n = vc.nondet(4, 'number of items')
    form = vc.nondet(3, 'given as: list of plain tuples / tuple of DiffItems / one-shot generator')
    fields = [(), ('spec', 'field'), ('metadata', 'labels', vc.str('label'))]
    raw = [(vc.fin(f'op{i}', OPS), fields[i], None if i == 0 else vc.int(f'old{i}'), vc.int(f'new{i}')) for i in range(n)]
    given = [list(raw), tuple(DI(*r) for r in raw), (r for r in raw)][form]
    ld_init = vc.load('kopf._cogs.structs.diffs', 'Diff.__init__', stubs={'super': _Super})
    ld_iter = vc.load('kopf._cogs.structs.diffs', 'Diff.__iter__')
    ld_len = vc.load('kopf._cogs.structs.diffs', 'Diff.__len__')
    ld_eq = vc.load('kopf._cogs.structs.diffs', 'Diff.__eq__')
    d = diffs.Diff.__new__(diffs.Diff)
    ld_init.fn(d, given)

    seen = list(ld_iter.fn(d))
    vc.ensure('items_kept_in_order', len(seen) == n)
    vc.ensure('items_kept_in_order', all(it[1] is r[1] for it, r in zip(seen, raw)))     # the fields are pairwise distinct objects
    for it, r in zip(seen, raw):
        vc.ensure('item_is_op_field_old_new', isinstance(it, DI) and len(it) == 4)
        op, field, old, new = it
        vc.ensure('item_is_op_field_old_new', And(_same(op, r[0]), _same(field, r[1]), _same(old, r[2]), _same(new, r[3])))
        vc.ensure('item_is_op_field_old_new', And(_same(it.operation, r[0]), _same(it.field, r[1]), _same(it.old, r[2]), _same(it.new, r[3])))
    again = list(ld_iter.fn(d))
    vc.ensure('iteration_repeatable', len(again) == len(seen) and all(a is b for a, b in zip(again, seen)))

    length = ld_len.fn(d)
    vc.ensure('length_is_item_count', Eq(length, n))
    vc.ensure('falsy_iff_empty', Iff(Eq(length, 0), n == 0))
    vc.ensure('falsy_iff_empty', bool(d) is (n > 0) and len(d) == n)
    vc.canary('canary.never_empty', Not(Eq(length, 0)))

    # ---- equality by items
    kind = vc.nondet(6, 'other: same-content Diff / list with own values / tuple of DiffItems with own values / shorter / reversed / non-sequence')
    mine = [tuple(it) for it in seen]
    if kind == 0:
        other = diffs.Diff(list(raw)); theirs = list(raw)
    elif kind in (1, 2):
        theirs = [(r[0], r[1], r[2], vc.int(f'other.new{i}')) for i, r in enumerate(raw)]
        other = list(theirs) if kind == 1 else tuple(DI(*t) for t in theirs)
    elif kind == 3:
        theirs = list(raw[:-1]) if n > 0 else [(OPS[0], (), None, vc.int('extra.new'))]
        other = tuple(theirs)
    elif kind == 4:
        theirs = list(reversed(raw)); other = list(theirs)
    else:
        theirs = None; other = [None, 7, frozenset(), {}][vc.nondet(4, 'non-sequence: None / number / set / dict')]
    res = ld_eq.fn(d, other)
    if theirs is None:
        vc.ensure('equal_iff_same_items', res is NotImplemented or res is False)
        equal = False
    else:
        equal = _truth(res)
        expected = And(*[_item_eq(a, b) for a, b in zip(mine, theirs)]) if len(mine) == len(theirs) else False
        vc.ensure('equal_iff_same_items', res is not NotImplemented)
        vc.ensure('equal_iff_same_items', Iff(equal, expected))
    vc.canary('canary.always_equal', equal)
    vc.canary('canary.never_equal', Not(equal))

    final = list(ld_iter.fn(d))
    vc.ensure('read_only', len(final) == len(seen) and all(a is b for a, b in zip(final, seen)) and Eq(ld_len.fn(d), n))
    return ('diff', n, form, kind, equal)


# =============================================================================================== I11
class GhostHash:
    """
    The builtin hash() by contract, for the values a `__hash__` may combine: the hash of a str is a function of its VALUE, the
    hash of a tuple is a function of the hashes of its components in order, None/bools/numbers/frozensets of constants hash by
    value.  Nothing else is known about it (uninterpreted functions): two hashes are provably equal only if they are built from
    provably equal components in the same way.  In concrete mode (the CPython cross-check) it IS the builtin hash.
    """
    def __init__(self, vc):
        self.vc = vc
        if not vc.concrete:
            import z3
            self.z3 = z3
            self.of_str = z3.Function('hash.str', z3.StringSort(), z3.IntSort())
            self.of_int = z3.Function('hash.int', z3.IntSort(), z3.IntSort())
            self.pair = z3.Function('hash.pair', z3.IntSort(), z3.IntSort(), z3.IntSort())

    def _term(self, x):
        z3 = self.z3
        if isinstance(x, SFin):
            x = resolve(x)
        if isinstance(x, SStr):
            return self.of_str(x.term)
        if isinstance(x, SBool):
            return self.of_int(z3.If(x.term, z3.IntVal(1), z3.IntVal(0)))
        if isinstance(x, SNum):
            if not x.is_int:
                raise Unsupported('hash() of a symbolic real')
            return self.of_int(x.term)
        if isinstance(x, SV):
            raise Unsupported(f'hash() of a symbolic {type(x).__name__}')
        if type(x) is str:
            return self.of_str(z3.StringVal(x))
        if type(x) in (bool, int):
            return self.of_int(z3.IntVal(int(x)))
        if type(x) is tuple:
            t = z3.IntVal(len(x))
            for c in x:
                t = self.pair(t, self._term(c))
            return t
        return z3.IntVal(hash(x))      # None, frozensets of constants, other hashable constants: by value

    def __call__(self, x):
        if self.vc.concrete:
            return hash(x)
        return SNum(self._term(x), True)


def _draw_resource(vc, tag, plain):
    """A Resource with symbolic identifying fields; the informational fields are either all at their defaults (`plain`) or all set."""
    ident = dict(group=vc.str(f'{tag}.group'), version=vc.str(f'{tag}.version'), plural=vc.str(f'{tag}.plural'))
    if plain:
        return references.Resource(**ident)
    return references.Resource(**ident, kind=vc.str(f'{tag}.kind'), singular=vc.str(f'{tag}.singular'),
                               shortcuts=frozenset({f'{tag}-short'}), categories=frozenset({'all', tag}),
                               subresources=frozenset({'status'}), namespaced=vc.fin(f'{tag}.namespaced', [None, True, False]),
                               preferred=vc.bool(f'{tag}.preferred'), verbs=frozenset({'list', 'watch', tag}))


@harness('I11', targets=['kopf._cogs.structs.references.Resource.__eq__', 'kopf._cogs.structs.references.Resource.__hash__'],
         props=['C01', 'C07', 'C13', 'C15', 'C17', 'C18', 'C19'],
         prop_clauses={'C15': ['equal_iff_same_group_version_plural']},
         clauses=['equal_iff_same_group_version_plural', 'hash_consistent_with_eq', 'hash_stable'],
         canaries=['canary.never_equal', 'canary.always_equal', 'canary.hashes_always_equal'],
         trusted=['builtin hash() by contract (GhostHash): a function of the value of strings / of the component hashes of tuples'])
def I11(vc):
    """
    references.Resource as a dictionary key (streams, watcher tasks, EnsembleKey, indexed/webhook resource sets, toggles): for
    two ARBITRARY resources -- all three identifying fields symbolic strings (the empty group of core/v1 included), the
    informational fields (kind, singular, shortcuts, categories, subresources, namespaced, preferred, verbs: "remembered to match
    against resource selectors, for logging, and for informational purposes", class docstring) at their defaults or set, and
    DIFFERENT between the two --
      equal_iff_same_group_version_plural   a == b  <=>  group, version and plural are pairwise equal, in both orders: a
                                            re-scanned resource equals the one already served whatever else the discovery
                                            reported this time (no duplicate watcher/worker/peering task), resources that
                                            differ in any of the three are different keys;
      hash_consistent_with_eq               a == b  =>  hash(a) == hash(b) (otherwise dict/set lookups miss the equal key);
      hash_stable                           hashing the same resource twice gives the same value.
    The hash is judged through the contract of the builtin hash() (GhostHash): equal only if built from equal components.
    """
    shape = vc.nondet(3, 'informational fields: both default / a default, b set / both set (differently)')
    a = _draw_resource(vc, 'a', plain=shape in (0, 1))
    b = _draw_resource(vc, 'b', plain=shape == 0)
    ghost = GhostHash(vc)
    ld_eq = vc.load('kopf._cogs.structs.references', 'Resource.__eq__')
    ld_hash = vc.load('kopf._cogs.structs.references', 'Resource.__hash__', stubs={'hash': ghost})
    same_ident = And(Eq(a.group, b.group), Eq(a.version, b.version), Eq(a.plural, b.plural))
    ab = _truth(ld_eq.fn(a, b))
    ba = _truth(ld_eq.fn(b, a))
    vc.ensure('equal_iff_same_group_version_plural', Iff(ab, same_ident))
    vc.ensure('equal_iff_same_group_version_plural', Iff(ba, same_ident))
    vc.ensure('equal_iff_same_group_version_plural', _truth(ld_eq.fn(a, dataclasses.replace(a, verbs=frozenset({'get'}), preferred=False))))
    ha, hb, ha2 = ld_hash.fn(a), ld_hash.fn(b), ld_hash.fn(a)
    vc.ensure('hash_consistent_with_eq', Implies(same_ident, Eq(ha, hb)))
    vc.ensure('hash_stable', Eq(ha, ha2))
    vc.canary('canary.never_equal', Not(ab))
    vc.canary('canary.always_equal', ab)
    vc.canary('canary.hashes_always_equal', Eq(ha, hb))
    return ('resources', shape, ab, ba)


# =============================================================================================== I12
BACKBONE_SELECTORS = [references.NAMESPACES, references.CRDS, references.CLUSTER_PEERINGS_K, references.NAMESPACED_PEERINGS_K]


@harness('I12', targets='kopf._cogs.structs.references.Backbone.__getitem__', props=['C13', 'C19'],
         clauses=['found_selector_gives_its_resource', 'missing_selector_is_a_KeyError', 'read_only'],
         canaries=['canary.always_found', 'canary.never_found'],
         trusted=['dict lookup; collections.abc.Mapping.__contains__ (True iff __getitem__ does not raise KeyError)',
                  'Selector is a frozen dataclass compared and hashed by value (dataclasses)'])
def I12(vc):
    """
    references.Backbone.__getitem__ against the view "dict selector -> resource found for it by the cluster scan": for every
    subset of four backbone selectors (namespaces, CRDs, the two Kopf peering kinds) being resolved, and every selector asked
    for -- the very constant or an EQUAL copy of it --
      found_selector_gives_its_resource   backbone[s] is the resource recorded for s (not the one of another selector:
                                          orchestration.adjust_tasks and peering.touch_command take the peering resources from it);
      missing_selector_is_a_KeyError      a selector that is not resolved (yet) raises KeyError, so that `s in backbone` is False
                                          (Mapping.__contains__; `wait_for` waits on it, adjust_tasks filters with it) -- no
                                          None, no other selector's resource;
      read_only                           the lookup changes nothing.
    """
    bits = vc.nondet(2 ** len(BACKBONE_SELECTORS), 'which selectors are resolved')
    view = {s: references.Resource(group=s.group or '', version=f'v{i}', plural=s.any_name or f'plural{i}')
            for i, s in enumerate(BACKBONE_SELECTORS) if bits >> i & 1}
    ld = vc.load('kopf._cogs.structs.references', 'Backbone.__getitem__')

    class Backbone(references.Backbone):
        """The real class (Mapping mix-ins: __contains__, get, ...) over the extracted __getitem__."""
        def __getitem__(self, item):
            return ld.fn(self, item)
    bb = Backbone.__new__(Backbone)
    bb._items = dict(view)
    found_all, found_any = True, False
    for s in BACKBONE_SELECTORS:
        for asked in (s, dataclasses.replace(s)):
            try:
                got, raised = ld.fn(bb, asked), None
            except KeyError as e:
                got, raised = None, e
            if s in view:
                vc.ensure('found_selector_gives_its_resource', raised is None and got is view[s])
                vc.ensure('found_selector_gives_its_resource', asked in bb)
            else:
                vc.ensure('missing_selector_is_a_KeyError', raised is not None)
                vc.ensure('missing_selector_is_a_KeyError', asked not in bb)
            found_all, found_any = found_all and raised is None, found_any or raised is None
    vc.ensure('read_only', set(bb._items) == set(view) and all(bb._items[s] is r for s, r in view.items()))
    vc.canary('canary.always_found', found_all)
    vc.canary('canary.never_found', not found_any)
    return ('backbone', bits)


# =============================================================================================== I13
INDEX_KEYS = ['k1', ('k', 2), None]      # None is the key of scalar (non-dict) results, docs/indexing.rst
OBJECT_KEYS = [('ns', 'a', 'u1'), (None, 'b', 'u2')]


def _build_index(vc, present):
    """A real Index whose private maps are set directly from the view {(index key, object key)} (values symbolic)."""
    index = indexing.Index()
    items, reverse = index._Index__items, index._Index__reverse
    view = {}
    for k in INDEX_KEYS:
        for a in OBJECT_KEYS:
            if present[(k, a)]:
                store = items.get(k)
                if store is None:
                    store = items[k] = indexing.Store()
                view[(k, a)] = store._Store__items[a] = vc.int(f'value[{k},{a[1]}]')
                reverse.setdefault(a, set()).add(k)
    return _alias_private(index, 'Index', 'items', 'reverse'), view


def _index_view(index):
    return {(k, a): v for k, store in index._Index__items.items() for a, v in store._Store__items.items()}


@harness('I13', targets=['kopf._core.engines.indexing.Index.__getitem__', 'kopf._core.engines.indexing.Index.__contains__',
                         'kopf._core.engines.indexing.Index.__iter__', 'kopf._core.engines.indexing.Index.__len__',
                         'kopf._core.engines.indexing.Index.__bool__'], props=['C17'],
         clauses=['getitem_is_the_store_of_the_key', 'dead_key_is_a_KeyError', 'contains_iff_key_has_values', 'iter_is_the_live_keys',
                  'len_is_the_number_of_live_keys', 'read_only'],
         canaries=['canary.always_found', 'canary.never_found'],
         trusted=['key universe: 3 index keys (a string, a tuple, None) + 1 never-used key x 2 object keys; keys are used through hash/== only',
                  'well-formed index states only (I1/I1p: no empty store, reverse map consistent)'])
def I13(vc):
    """
    What handlers SEE of an index (the read-only protocol of kopf.Index) against the view {(index key, object) -> value} that
    I1/I1p maintain: for every well-formed index over 3 index keys x 2 objects (all 64 shapes, values symbolic) and every key
    asked for (the three keys and one that was never used) --
      getitem_is_the_store_of_the_key  index[k] is the Store whose values are exactly the view's values under k, one per object
                                       indexed under k (not another key's store, not a copy that later goes stale: the very store);
      dead_key_is_a_KeyError           a key without any value (never used, or all its objects removed) raises KeyError;
      contains_iff_key_has_values      k in index  <=>  at least one live object has a value under k;
      iter_is_the_live_keys            iteration yields every key with >= 1 value exactly once and nothing else;
      len_is_the_number_of_live_keys   len(index) == number of such keys, bool(index) <=> there is one;
      read_only                        none of them changes the index (same view, same stores).
    """
    present = {(k, a): vc.nondet(2, f'({k},{a[1]}) present?') == 1 for k in INDEX_KEYS for a in OBJECT_KEYS}
    index, view = _build_index(vc, present)
    stores0 = dict(index._Index__items)
    live = [k for k in INDEX_KEYS if any(present[(k, a)] for a in OBJECT_KEYS)]
    ld_get = vc.load('kopf._core.engines.indexing', 'Index.__getitem__')
    ld_in = vc.load('kopf._core.engines.indexing', 'Index.__contains__')
    ld_iter = vc.load('kopf._core.engines.indexing', 'Index.__iter__')
    ld_len = vc.load('kopf._core.engines.indexing', 'Index.__len__')
    ld_bool = vc.load('kopf._core.engines.indexing', 'Index.__bool__')
    found_all, found_any = True, False
    for k in INDEX_KEYS + ['never-used']:
        try:
            got, raised = ld_get.fn(index, k), None
        except KeyError as e:
            got, raised = None, e
        inside = ld_in.fn(index, k)
        if k in live:
            expected = {a: v for (k2, a), v in view.items() if k2 == k}
            vc.ensure('getitem_is_the_store_of_the_key', raised is None and isinstance(got, indexing.Store) and got is stores0[k])
            if isinstance(got, indexing.Store):
                stored = got._Store__items
                vc.ensure('getitem_is_the_store_of_the_key', set(stored) == set(expected) and all(stored[a] is v for a, v in expected.items()))
        else:
            vc.ensure('dead_key_is_a_KeyError', raised is not None)
        vc.ensure('contains_iff_key_has_values', Iff(inside, k in live))
        found_all, found_any = found_all and raised is None, found_any or raised is None
    keys = list(ld_iter.fn(index))
    vc.ensure('iter_is_the_live_keys', len(keys) == len(live) and all(any(k is l for k in keys) for l in live))
    vc.ensure('len_is_the_number_of_live_keys', Eq(ld_len.fn(index), len(live)))
    vc.ensure('len_is_the_number_of_live_keys', Iff(ld_bool.fn(index), len(live) > 0))
    after = _index_view(index)
    vc.ensure('read_only', set(after) == set(view) and all(after[ka] is v for ka, v in view.items()))
    vc.ensure('read_only', set(index._Index__items) == set(stores0) and all(index._Index__items[k] is s for k, s in stores0.items()))
    vc.ensure('read_only', index._Index__items is getattr(index, '__items') and index._Index__reverse is getattr(index, '__reverse'))
    vc.canary('canary.always_found', found_all)
    vc.canary('canary.never_found', not found_any)
    return ('index', sorted(map(repr, view)))


# =============================================================================================== I14
STORE_OBJECTS = [('ns', 'a', 'u1'), (None, 'b', 'u2'), ('ns', 'c', None)]


@harness('I14', targets=['kopf._core.engines.indexing.Store.__bool__', 'kopf._core.engines.indexing.Store.__iter__',
                         'kopf._core.engines.indexing.Store.__len__'], props=['C17'],
         clauses=['truthy_iff_it_holds_a_value', 'iter_yields_every_value_once', 'len_is_the_number_of_values', 'read_only'],
         canaries=['canary.always_truthy', 'canary.never_truthy'],
         trusted=['object universe: 3 object keys (used through hash/== only); values arbitrary, falsy ones included'])
def I14(vc):
    """
    indexing.Store (the values of ONE index key, one per object) against the view {object -> value}: for every subset of three
    objects being stored, with values that are symbolic numbers, FALSY constants (0, None, '' are legitimate index values,
    docs/indexing.rst) or one and the same value for all objects (colliding objects often index the same value) --
      truthy_iff_it_holds_a_value    bool(store) <=> at least one object has a value here -- whatever the values are (a store
                                     holding only 0/None/'' is NOT empty): Index._discard drops a key exactly when its store
                                     turned falsy, so this decides whether emptied keys vanish and colliding objects' values stay;
      iter_yields_every_value_once   iteration yields the value of every stored object, one per object (two objects with
                                     equal values give two values), and nothing else;
      len_is_the_number_of_values    len(store) == number of stored objects;
      read_only                      none of them changes the store.
    """
    kind = vc.nondet(3, 'values: symbolic numbers / falsy constants / one and the same value for every object')
    falsy = kind == 1
    constants = [0, None, ''] if falsy else ['same', 'same', 'same']
    model = {}
    store = indexing.Store()
    for i, a in enumerate(STORE_OBJECTS):
        if vc.nondet(2, f'{a[1]} stored?') == 1:
            model[a] = store._Store__items[a] = constants[i] if kind else vc.int(f'value[{a[1]}]')
    _alias_private(store, 'Store', 'items')
    ld_bool = vc.load('kopf._core.engines.indexing', 'Store.__bool__')
    ld_iter = vc.load('kopf._core.engines.indexing', 'Store.__iter__')
    ld_len = vc.load('kopf._core.engines.indexing', 'Store.__len__')
    truth = ld_bool.fn(store)
    vc.ensure('truthy_iff_it_holds_a_value', Iff(truth, len(model) > 0))
    vc.ensure('truthy_iff_it_holds_a_value', bool(store) is (len(model) > 0))
    values = list(ld_iter.fn(store))
    wanted = list(model.values())
    vc.ensure('iter_yields_every_value_once', len(values) == len(wanted))
    vc.ensure('iter_yields_every_value_once', all(sum(1 for v in values if v is w) == sum(1 for x in wanted if x is w) for w in wanted))
    vc.ensure('len_is_the_number_of_values', Eq(ld_len.fn(store), len(model)))
    after = store._Store__items
    vc.ensure('read_only', after is getattr(store, '__items') and set(after) == set(model) and all(after[a] is v for a, v in model.items()))
    vc.canary('canary.always_truthy', truth)
    vc.canary('canary.never_truthy', Not(truth))
    return ('store', kind, sorted(map(repr, model)))


# =============================================================================================== I15
def _indexer_with(content):
    """A real OperatorIndexer whose index holds `content` = {index key: value} for one object (set up directly)."""
    indexer = indexing.OperatorIndexer()
    a = ('ns', 'obj', 'uid')
    for k, v in content.items():
        store = indexer.index._Index__items[k] = indexing.Store()
        store._Store__items[a] = v
        indexer.index._Index__reverse.setdefault(a, set()).add(k)
    return indexer


@harness('I15', targets=['kopf._core.engines.indexing.OperatorIndices.__init__', 'kopf._core.engines.indexing.OperatorIndices.__getitem__', 'kopf._core.engines.indexing.OperatorIndices.__iter__',
                         'kopf._core.engines.indexing.OperatorIndices.__len__', 'kopf._core.engines.indexing.OperatorIndices.__contains__'],
         props=['C17'],
         clauses=['getitem_is_the_live_index_of_that_id', 'unknown_id_is_a_KeyError', 'iter_is_the_index_ids', 'len_and_contains_agree',
                  'view_is_live', 'read_only'],
         canaries=['canary.always_found', 'canary.never_found'],
         trusted=['id universe: 3 index ids + 1 unknown id (ids are used through hash/== only)',
                  'collections.abc.Mapping mix-ins (keys/items via __iter__ and __getitem__) for the native dict(indices) check'])
def I15(vc):
    """
    OperatorIndices, the read-only view through which handlers get the indices (unfolded into their kwargs by name), against
    the view {index id -> indexer} of the operator's OperatorIndexers: for every subset of three ids having an indexer --
      getitem_is_the_live_index_of_that_id  indices[id] is THE Index object of the indexer registered under id (not another
                                            id's, not a copy: the index the indexer keeps updating);
      unknown_id_is_a_KeyError              an id without an indexer raises KeyError;
      iter_is_the_index_ids                 iteration yields exactly the ids that have an indexer, each once; hence
                                            dict(indices) -- what invocation unfolds into kwargs -- maps every id to its Index;
      len_and_contains_agree                len == number of indexers; id in indices <=> it has an indexer;
      view_is_live                          the view is made (by the extracted __init__) over the still EMPTY indexers, as
                                            OperatorIndexers.__init__ does; every indexer is registered afterwards (as
                                            OperatorIndexers.ensure does) and must be visible through it;
      read_only                             the view's methods change neither the indexers nor their content.
    """
    IDS = ['by_label', 'by_name', 'fn/sub']
    indexers = indexing.OperatorIndexers()      # still without any indexer, as when OperatorIndexers.__init__ makes the view
    indices = indexing.OperatorIndices.__new__(indexing.OperatorIndices)
    vc.load('kopf._core.engines.indexing', 'OperatorIndices.__init__', stubs={'super': _Super}).fn(indices, indexers)
    if hasattr(indices, '__indexers'):          # extracted code is not name-mangled; the native mix-ins (dict(indices)) are
        indices._OperatorIndices__indexers = getattr(indices, '__indexers')
    model = {}
    for i, id in enumerate(IDS):
        if vc.nondet(2, f'{id} has an indexer?') == 1:
            model[id] = _indexer_with({f'key-of-{id}': vc.int(f'value[{id}]')} if i != 1 else {})
            dict.__setitem__(indexers, id, model[id])         # after the view was made
    ld_get = vc.load('kopf._core.engines.indexing', 'OperatorIndices.__getitem__')
    ld_iter = vc.load('kopf._core.engines.indexing', 'OperatorIndices.__iter__')
    ld_len = vc.load('kopf._core.engines.indexing', 'OperatorIndices.__len__')
    ld_in = vc.load('kopf._core.engines.indexing', 'OperatorIndices.__contains__')
    contents0 = {id: _index_view(ix.index) for id, ix in model.items()}
    found_all, found_any = True, False
    for id in IDS + ['unknown']:
        try:
            got, raised = ld_get.fn(indices, id), None
        except KeyError as e:
            got, raised = None, e
        if id in model:
            vc.ensure('getitem_is_the_live_index_of_that_id', raised is None and got is model[id].index)
            vc.ensure('view_is_live', raised is None)
        else:
            vc.ensure('unknown_id_is_a_KeyError', raised is not None)
        vc.ensure('len_and_contains_agree', Iff(ld_in.fn(indices, id), id in model))
        found_all, found_any = found_all and raised is None, found_any or raised is None
    ids = list(ld_iter.fn(indices))
    vc.ensure('iter_is_the_index_ids', sorted(ids) == sorted(model))
    unfolded = dict(indices)                    # natively, as invocation.build_kwargs does
    vc.ensure('iter_is_the_index_ids', set(unfolded) == set(model) and all(unfolded[id] is ix.index for id, ix in model.items()))
    vc.ensure('len_and_contains_agree', Eq(ld_len.fn(indices), len(model)))
    vc.ensure('read_only', set(indexers) == set(model) and all(indexers[id] is ix for id, ix in model.items()))
    vc.ensure('read_only', all(set(_index_view(ix.index)) == set(contents0[id]) and
                               all(_index_view(ix.index)[ka] is v for ka, v in contents0[id].items()) for id, ix in model.items()))
    vc.canary('canary.always_found', found_all)
    vc.canary('canary.never_found', not found_any)
    return ('indices', sorted(model))


# =============================================================================================== I16
def _content(indexer):
    return _index_view(indexer.index)


def _same_content(a, b):
    return set(a) == set(b) and all(a[k] is b[k] for k in a)


@harness('I16', targets='kopf._core.engines.indexing.OperatorIndexers.ensure', props=['C17'],
         clauses=['one_index_per_handler_id', 'new_indices_are_empty', 'indices_are_not_shared', 'other_ids_untouched',
                  'named_existing_kept_or_recreated_empty', 'visible_through_the_view', 'idempotent'],
         canaries=['canary.nothing_created', 'canary.every_index_empty'],
         trusted=['id universe: handler ids a, b, c + one id z that no handler has (ids are used through hash/== only)',
                  'OperatorIndexer() / Index() natively (a new Index is empty: I1p.initially_empty)',
                  'OperatorIndices by contract I15 (used natively here)'])
def I16(vc):
    """
    OperatorIndexers.ensure(handlers) -- called once at start-up with all indexing handlers of the registry, before anything is
    indexed (running.spawn_tasks) -- against the view {index id -> indexer}: for the handler sequences [], [a], [b], [a, b],
    [a, b, a] (one id registered twice), [c, b, a], given as a list, a tuple or a ONE-SHOT generator (the parameter is an
    Iterable), over indexers that are still empty or already hold an indexer for `a` (named by handlers) and/or `z` (named
    by none), each empty or with content:
      one_index_per_handler_id   afterwards every handler id has an OperatorIndexer with an Index (a missing one is a KeyError in
                                 OperatorIndexers.replace for every event of that kind: the index is never filled), and no id
                                 appears that neither existed before nor is a handler's;
      new_indices_are_empty      the index of an id that did not exist before is empty;
      indices_are_not_shared     different ids have different indexers and different Index objects (a shared one merges two indices);
      other_ids_untouched        an indexer whose id no handler names stays the very same object with its content;
      named_existing_kept_or_recreated_empty
                                 an id that existed before AND is named by a handler holds afterwards either what it held or
                                 nothing -- never anything else (both "keep" and "start afresh" mirror the cluster once the
                                 initial listing has been indexed; the unchanged code starts afresh);
      visible_through_the_view   indexers.indices[id] is the Index of the indexer now registered under id, for every id;
      idempotent                 a second ensure(handlers) with nothing indexed in between leaves the same ids with the same
                                 contents (all handler indices as after the first call).
    """
    SEQS = [[], ['a'], ['b'], ['a', 'b'], ['a', 'b', 'a'], ['c', 'b', 'a']]
    seq = SEQS[vc.nondet(len(SEQS), 'handler ids')]
    form = vc.nondet(3, 'given as: list / tuple / one-shot generator')
    handlers_ = [Opaque(f'handler-{i}-{hid}', id=hid) for i, hid in enumerate(seq)]
    mk = lambda: [list(handlers_), tuple(handlers_), (h for h in handlers_)][form]
    indexers = indexing.OperatorIndexers()
    before = {}
    for hid in ('a', 'z'):
        pre = vc.nondet(3, f'{hid} before: absent / empty indexer / indexer with content')
        if pre:
            before[hid] = _indexer_with({f'key-of-{hid}': vc.int(f'value[{hid}]')} if pre == 2 else {})
            dict.__setitem__(indexers, hid, before[hid])
    contents0 = {hid: _content(ix) for hid, ix in before.items()}
    ld = vc.load('kopf._core.engines.indexing', 'OperatorIndexers.ensure')
    ld.fn(indexers, mk())

    def check(tag):
        vc.ensure('one_index_per_handler_id', set(indexers) == set(before) | set(seq))
        vc.ensure('one_index_per_handler_id', all(isinstance(indexers.get(hid), indexing.OperatorIndexer) and
                                                  isinstance(indexers[hid].index, indexing.Index) for hid in seq))
        for hid in sorted(set(seq) & set(indexers)):
            now = _content(indexers[hid])
            if hid not in before:
                vc.ensure('new_indices_are_empty', now == {} and len(indexers[hid].index) == 0)
            else:
                vc.ensure('named_existing_kept_or_recreated_empty', now == {} or _same_content(now, contents0[hid]))
        all_ = list(indexers.values())
        vc.ensure('indices_are_not_shared', all(x is not y and x.index is not y.index
                                                for i, x in enumerate(all_) for y in all_[i + 1:]))
        for hid, ix in before.items():
            if hid not in seq:
                vc.ensure('other_ids_untouched', indexers.get(hid) is ix and _same_content(_content(ix), contents0[hid]))
        vc.ensure('visible_through_the_view', sorted(indexers.indices) == sorted(indexers) and
                  all(indexers.indices[hid] is indexers[hid].index for hid in indexers))
    check('first')
    snapshot = {hid: _content(ix) for hid, ix in indexers.items()}
    ld.fn(indexers, mk())
    check('second')
    vc.ensure('idempotent', set(indexers) == set(snapshot) and all(_same_content(_content(indexers[hid]), c) for hid, c in snapshot.items()))
    vc.canary('canary.nothing_created', set(indexers) == set(before))
    vc.canary('canary.every_index_empty', all(_content(ix) == {} for ix in indexers.values()))
    return ('ensured', seq, form, sorted(before), sorted(indexers))


# =============================================================================================== I17
def _draw_meta(vc, tag):
    """The identifying metadata of one object: namespace None (cluster-scoped) or a string, name, uid (None: one of "those rare
    objects that have no uid") -- plus which of the three keys are present in the dict at all (an absent one reads as None)."""
    ns = vc.opt(f'{tag}.namespace', vc.str)
    uid = vc.opt(f'{tag}.uid', vc.str)
    return {'namespace': ns, 'name': vc.str(f'{tag}.name'), 'uid': uid}


def _body_of(vc, ident, tag, event):
    """One watch-event body of the object `ident`: everything but the identity differs from event to event."""
    meta = {k: v for k, v in ident.items() if v is not None}       # the API omits absent fields
    meta['resourceVersion'] = vc.str(f'{tag}.rv{event}')
    meta['labels'] = {'l': vc.str(f'{tag}.label{event}')}
    meta['annotations'] = {} if event else {'a': 'b'}
    return bodies.Body({'apiVersion': 'v1', 'kind': 'K', 'metadata': meta, 'spec': {'x': vc.int(f'{tag}.spec{event}')},
                        'status': {} if event else {'s': 1}})


@harness('I17', targets='kopf._core.engines.indexing.OperatorIndexers.make_key', props=['C17'],
         clauses=['same_object_same_key', 'different_objects_different_keys', 'key_is_a_tuple_of_plain_leaves', 'read_only'],
         canaries=['canary.keys_always_equal', 'canary.keys_never_equal'],
         trusted=['bodies.Body is a read-only Mapping over the given dict (Body.get natively)'])
def I17(vc):
    """
    OperatorIndexers.make_key(body), the identity of an object inside all indices (Index.__reverse / Store.__items are keyed by
    it): for two ARBITRARY objects X and Y -- namespace a string or absent (cluster-scoped), name a string, uid a string or
    absent, all symbolic -- and two events of X whose bodies differ in everything else (resourceVersion, labels, annotations,
    spec, status):
      same_object_same_key              both events of X give equal keys (otherwise an edit looks like a new object and the old
                                        values stay in the index forever);
      different_objects_different_keys  if X and Y differ in namespace or name (a cluster-scoped object differs from every
                                        namespaced one), their keys differ (otherwise one object evicts the other's values);
      key_is_a_tuple_of_plain_leaves    the key is a tuple built from the body's leaves only ("no dataclasses or namedtuples,
                                        only builtins", docstring): hashable whenever the leaves are;
      read_only                         the body is not modified.
    """
    X, Y = _draw_meta(vc, 'X'), _draw_meta(vc, 'Y')
    x1, x2, y1 = _body_of(vc, X, 'X', 0), _body_of(vc, X, 'X', 1), _body_of(vc, Y, 'Y', 0)
    shapes0 = [repr(sorted(b['metadata'])) for b in (x1, x2, y1)]
    indexers = indexing.OperatorIndexers()
    ld = vc.load('kopf._core.engines.indexing', 'OperatorIndexers.make_key')
    kx1, kx2, ky1 = ld.fn(indexers, x1), ld.fn(indexers, x2), ld.fn(indexers, y1)
    leaves = lambda b: [v for v in b['metadata'].values() if not isinstance(v, dict)]
    for k, b in ((kx1, x1), (kx2, x2), (ky1, y1)):
        vc.ensure('key_is_a_tuple_of_plain_leaves', type(k) is tuple and
                  all(c is None or any(c is l for l in leaves(b)) for c in k))
    keys_equal = lambda p, q: And(len(p) == len(q), *[_same(a, b) for a, b in zip(p, q)])
    vc.ensure('same_object_same_key', keys_equal(kx1, kx2))
    same_ns_name = And(_same(X['namespace'], Y['namespace']), _same(X['name'], Y['name']))
    xy = keys_equal(kx1, ky1)
    vc.ensure('different_objects_different_keys', Implies(Not(same_ns_name), Not(xy)))
    vc.ensure('read_only', [repr(sorted(b['metadata'])) for b in (x1, x2, y1)] == shapes0)
    vc.canary('canary.keys_always_equal', xy)
    vc.canary('canary.keys_never_equal', Not(xy))
    return ('keys', X['namespace'] is None, X['uid'] is None, Y['namespace'] is None, Y['uid'] is None)
