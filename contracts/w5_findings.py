"""Round-11 contract: the finalizer / creation life cycle of ONE object in a closed loop (`sizes_only=True`).

H6n drives the REAL `processing.process_resource_event` (with everything below it: `process_resource_causes`, the real cause
detection, registries filled through the public decorators, `ResourceMemories`, default `OperatorSettings` with their real
storages, `application.apply`, `patching.patch_obj`, `Patch.as_json_patch`) natively, cycle after cycle, against a small in-memory
API server (merge-patch, JSON-patch with 422 on a failed `test`, a resourceVersion bump and a watch-event for every change, the
object is gone once it carries a deletionTimestamp and no finalizers).  A model of the per-object worker of `queueing.worker`
feeds the events in order and keeps `expected_version` / `consistency_time` the way the worker does.  Replaced in this harness'
own (forked) process: `kopf._cogs.clients.api.patch` (the server), `aiotime.sleep` (contract T1 on a ghost clock: nothing waits
in real time) and the event loop's clock (ghost).  The histories of external actors are enumerated; every clause is stated over
what the SERVER saw (writes with their pre-images, requests, 422s), which handlers ran, and what was carried in the object's
memory between the cycles.  Exhaustive for the enumerated histories, labelled B, never counted as proved.

Two genuine defects of the unchanged tree lie inside the enumerated histories (native reproductions: /verif/findings/F-C06-2.py,
/verif/findings/F-C03-3.py); their witness classes are computed from the observed history and excused, every violation outside
the classes is reported."""
import asyncio
import collections
import collections.abc
import copy
import logging

import jsonpatch

from pyvc import *
from pyvc.stubs import NullLogger

from contracts.w5_native import patched, _not_ours

NS, NAME, UID = 'ns1', 'obj1', 'uid-obj1'
STAMP = '2026-01-01T00:00:00Z'
MAX_CYCLES = 40

INIT = ['finalizer already there (restart)', 'absent: addition gets 200', 'absent: addition gets 422 (racing unrelated change)']
LABELS = ['stays', 'away', 'away, back before the next event is processed', 'away, quiet, back', 'away, back racing the removal (the 422 itself)']
DELETION = [None, 1, 2, 'quiet']
LISTING = ['conformant listing', 'duplicate ADDED of the listed version', 'another actor adds the same finalizer concurrently',
           'unrelated change races the addition']


def _merge(target, patch):      # RFC 7386
    if not isinstance(patch, dict):
        return copy.deepcopy(patch)
    if not isinstance(target, dict):
        target = {}
    for k, v in patch.items():
        if v is None:
            target.pop(k, None)
        else:
            target[k] = _merge(target.get(k), v)
    return target


class GhostLoop(asyncio.SelectorEventLoop):
    """The loop's clock is a ghost clock: it moves only when the (fake) sleeps move it."""
    ghost = 1000.0

    def time(self):
        return self.ghost


class Server:
    """A single-object K8s API server; the ghost trace of everything that happened to the object."""

    def __init__(self, obj, fin, errors):
        self.fin, self.errors = fin, errors
        self.rv = 1
        self.obj = copy.deepcopy(obj)
        self.obj['metadata']['resourceVersion'] = '1'
        self.backlog = collections.deque()
        self.pressure = asyncio.Event()
        self.trace = []                 # ('write', actor, pre, post, cycle) / ('gone',) / ('handler', name) / ('rejected', removal?, cycle) / ('delete-requested', matched, protected)
        self.requests = 0
        self.cycle = 0
        self.rejected = False           # some JSON-patch of ours got 422
        self.rejected_removal = False   # a JSON-patch removing our finalizer got 422 and no removal has landed since
        self.unguarded = []             # JSON-patches without a resourceVersion test
        self.hooks = []                 # racing actors: one is run just before the next JSON-patch lands

    # ---- observations
    def count(self, obj):
        return 0 if obj is None else list(obj['metadata'].get('finalizers', [])).count(self.fin)

    @staticmethod
    def deleting(obj):
        return obj is not None and 'deletionTimestamp' in obj['metadata']

    def snapshot(self):
        return copy.deepcopy(self.obj)

    def emit(self, type_, obj):
        self.backlog.append({'type': type_, 'object': copy.deepcopy(obj)})
        self.pressure.set()

    # ---- every change goes through here
    def _commit(self, new, actor):
        pre = self.obj
        if new == pre:
            return
        self.rv += 1
        new['metadata']['resourceVersion'] = str(self.rv)
        if not new['metadata'].get('finalizers'):
            new['metadata'].pop('finalizers', None)
        self.trace.append(('write', actor, copy.deepcopy(pre), copy.deepcopy(new), self.cycle))
        if self.deleting(new) and not new['metadata'].get('finalizers'):
            self.obj = None
            self.trace.append(('gone',))
            self.emit('DELETED', new)
        else:
            self.obj = new
            self.emit('MODIFIED', new)

    # ---- the external actors
    def ext_set_label(self, key, value):
        if self.obj is None:
            return
        new = self.snapshot()
        labels = new['metadata'].setdefault('labels', {})
        if value is None:
            labels.pop(key, None)
        else:
            labels[key] = value
        self._commit(new, 'extern')

    def ext_add_finalizer(self):
        if self.obj is None:
            return
        new = self.snapshot()
        fins = new['metadata'].setdefault('finalizers', [])
        if self.fin not in fins:
            fins.append(self.fin)
        self._commit(new, 'peer')

    def ext_delete(self, matched):
        if self.obj is None or self.deleting(self.obj):
            return False
        self.trace.append(('delete-requested', matched, self.count(self.obj) > 0))
        new = self.snapshot()
        new['metadata']['deletionTimestamp'] = STAMP
        self._commit(new, 'extern')
        return True

    # ---- the replacement of kopf._cogs.clients.api.patch
    async def patch(self, url, *, settings=None, payload=None, headers=None, timeout=None, logger=None, **_):
        self.requests += 1
        ctype = (headers or {}).get('Content-Type')
        if ctype == 'application/json-patch+json' and self.hooks:
            self.hooks.pop(0)()
        if self.obj is None:
            raise self.errors.APINotFoundError({'message': 'not found', 'code': 404}, status=404, headers={})
        new = self.snapshot()
        if ctype == 'application/merge-patch+json':
            new = _merge(new, payload)
        elif ctype == 'application/json-patch+json':
            ops = copy.deepcopy(list(payload))
            if not any(op.get('op') == 'test' and op.get('path') == '/metadata/resourceVersion' for op in ops):
                self.unguarded.append(ops)
            try:
                new = jsonpatch.JsonPatch(ops).apply(new)
            except (jsonpatch.JsonPatchTestFailed, jsonpatch.JsonPatchConflict) as e:
                removal = self.count(self._would_be(ops)) < self.count(self.obj)
                self.rejected = True
                self.rejected_removal = self.rejected_removal or removal
                self.trace.append(('rejected', removal, self.cycle))
                raise self.errors.APIUnprocessableEntityError({'message': str(e), 'code': 422}, status=422, headers={})
        else:
            raise AssertionError(ctype)
        if self.count(new) < self.count(self.obj):
            self.rejected_removal = False
        self._commit(new, 'kopf')
        return copy.deepcopy(self.obj if self.obj is not None else new)

    def _would_be(self, ops):
        try:
            return jsonpatch.JsonPatch([op for op in ops if op.get('op') != 'test']).apply(self.snapshot())
        except Exception:
            return self.snapshot()


def _effect(fn, fin):
    """What a carried transformation does: classified by its EFFECT on two probes."""
    a = {'metadata': {'name': 'probe', 'finalizers': ['other/a', fin]}}
    b = {'metadata': {'name': 'probe', 'finalizers': ['other/a']}}
    try:
        fn(a); fn(b)
    except Exception:
        return 'other'
    removed = fin not in a.get('metadata', {}).get('finalizers', [])
    added = fin in b.get('metadata', {}).get('finalizers', [])
    return 'allow' if removed and not added else 'block' if added and not removed else 'noop' if not removed and not added else 'other'


def _noop_on(fns, body):
    probe = copy.deepcopy(body)
    try:
        for fn in fns:
            fn(probe)
    except Exception:
        return False
    return probe == body


@harness('H6n', targets=['kopf._core.reactor.processing.process_resource_event', 'kopf._core.reactor.processing.process_resource_causes'],
         props=['C06', 'C03', 'C08'], sizes_only=True,
         prop_clauses={'C06': ['finalizer_present_while_required', 'delete_handler_runs_before_release', 'released_once_handlers_finished'],
                       'C03': ['creation_handled_without_unrelated_event', 'goes_quiet'],
                       'C08': ['carried_transformation_neither_lost_nor_duplicated']},
         clauses=['finalizer_present_while_required', 'delete_handler_runs_before_release', 'released_once_handlers_finished',
                  'creation_handled_without_unrelated_event', 'goes_quiet', 'carried_transformation_neither_lost_nor_duplicated'],
         canaries=['canary.no_conflict_ever', 'canary.never_released', 'canary.nothing_ever_carried'],
         trusted=['the API server (here: in-memory): merge-patch RFC 7386, JSON-patch RFC 6902 with 422 on a failed test, every change bumps the '
                  'resourceVersion and is echoed as one watch-event, an object with a deletionTimestamp and no finalizers is gone (DELETED event)',
                  'queueing.worker by contracts Q2/Q2n (here: a model: events in order, pressure set on arrival and cleared on the last event, '
                  'expected_version/consistency_time kept as the worker keeps them, a fresh worker after an idle period)',
                  'aiotime.sleep by contract T1 on a ghost clock (returns the full delay when the wake-up event is set, None after the deadline)',
                  'everything else below process_resource_event runs as real code'],
         assumes=['one object, no foreign finalizers, handlers that succeed at once; FINALIZER histories (a mandatory on.delete handler with '
                  'labels={managed: yes}): the object starts {with kopf\'s finalizer / without: the addition gets 200 / gets 422 by a racing unrelated '
                  'change} x the label {stays / is flipped away / away and back before the next event is processed / away, quiet, back / away '
                  'and back racing the removal} x {no racing change / an unrelated change races the next JSON-patch} x deletion requested {never / '
                  'after the 1st / after the 2nd cycle that follows the label action / after the system went quiet}; CREATION histories (on.create '
                  'and a mandatory on.delete, no criteria): {conformant listing / a duplicate ADDED of the listed version / another actor adds the '
                  'same finalizer while kopf adds it / an unrelated change races the addition} x {never deleted / deleted after quiet}'])
def H6n(vc):
    """
    One object, the real processing cycle run until the system is quiet, for every enumerated history of external actors.  With
      requires(b)  := a registered mandatory deletion handler matches the body b,
      quiet        := no watch-event is pending, the worker has gone idle, every sleep is done:
    finalizer_present_while_required   (C06 "never removed early under any interleaving of events, retries, write conflicts") every write of
                      the framework that takes kopf's finalizer off the object lands on a pre-image (the version its JSON-patch was tested
                      against) for which requires() is false, or which is being deleted with the deletion handler already succeeded; after every
                      cycle whose event body satisfied requires(), carried the finalizer and was not being deleted, the server-side object --
                      if it still satisfies requires() and is not being deleted -- carries it; at quiet an existing object that satisfies
                      requires() and is not being deleted carries it ("added when handlers start requiring").
                      EXCUSED F-C06-2: the removal carried over in the object's memory after a 422 (`memory.remaining_patch`) and applied in a
                      cycle whose body satisfies requires() again.
    delete_handler_runs_before_release (C06) an object that satisfied requires() when its deletion was requested, and that carried the
                      finalizer then (or had lost it by a write of the framework on a pre-image satisfying requires()), is not gone before
                      the deletion handler succeeded.  EXCUSED F-C06-2: the object was unprotected (or released) by a removal of that class.
    released_once_handlers_finished    (C06 "once all of them are finished it is removed so that deletion proceeds") at quiet an object whose
                      deletion was requested is gone.
    creation_handled_without_unrelated_event  (C03: level-triggered convergence) at quiet the creation handler of an existing object has been
                      invoked.  EXCUSED F-C03-3: a cycle that started with a carried-over patch of transformations only whose functions yield
                      no operations on the fresh body, so that no request was sent (and no event follows).
    goes_quiet                          (C03 "the framework itself stops writing") the closed loop reaches quiet within 40 cycles per phase.
    carried_transformation_neither_lost_nor_duplicated  (C08) kopf's finalizer is never on the object twice; every JSON-patch carries a test of
                      the resourceVersion; at quiet an existing object that is not being deleted carries the finalizer exactly once if
                      requires() and not at all otherwise (a transformation carried forward after a 422 is neither lost nor duplicated),
                      and nothing is left carried in the memory.
    """
    import kopf
    from kopf._cogs.aiokits import aiotime
    from kopf._cogs.clients import api, errors
    from kopf._cogs.configs.configuration import OperatorSettings
    from kopf._cogs.structs.ephemera import Memo
    from kopf._cogs.structs.references import Resource
    from kopf._core.engines.indexing import OperatorIndexers
    from kopf._core.reactor import processing
    from kopf._core.reactor.inventory import ResourceMemories

    # ---- the history (all draws up front)
    family = vc.nondet(2, 'history family: finalizer (labels, conflicts, deletion) / creation (listing anomalies)')
    if family == 0:
        init = vc.nondet(3, 'the object starts: ' + ' / '.join(INIT))
        label = vc.nondet(5, 'the label: ' + ' / '.join(LABELS))
        race = vc.nondet(2, 'an unrelated change races the next JSON-patch after the label action: no / yes') == 1 if label != 4 else False
        deletion = DELETION[vc.nondet(4, 'deletion requested: never / after cycle 1 / after cycle 2 of the label phase / after quiet')]
        listing = None
    else:
        listing = vc.nondet(4, 'the listing: ' + ' / '.join(LISTING))
        deletion = [None, 'quiet'][vc.nondet(2, 'deletion requested: never / after quiet')]
        init = label = race = None

    resource = Resource('kopf.dev', 'v1', 'kopfexamples', namespaced=True)
    settings = OperatorSettings()
    settings.posting.enabled = False
    settings.persistence.consistency_timeout = 0.5
    fin = settings.persistence.finalizer
    registry = kopf.OperatorRegistry()
    memories = ResourceMemories()
    indexers = OperatorIndexers()

    obj = {'apiVersion': 'kopf.dev/v1', 'kind': 'KopfExample',
           'metadata': {'namespace': NS, 'name': NAME, 'uid': UID, 'creationTimestamp': STAMP},
           'spec': {'field': 'value'}}
    if family == 0:
        obj['metadata']['labels'] = {'managed': 'yes'}
        if init == 0:
            obj['metadata']['finalizers'] = [fin]
    server = Server(obj, fin, errors)

    if family == 0:
        @kopf.on.delete('kopf.dev', 'v1', 'kopfexamples', labels={'managed': 'yes'}, registry=registry)
        async def delete_fn(**_):
            server.trace.append(('handler', 'delete'))

        def requires(o):
            return o is not None and o['metadata'].get('labels', {}).get('managed') == 'yes'
    else:
        @kopf.on.create('kopf.dev', 'v1', 'kopfexamples', registry=registry)
        async def create_fn(**_):
            server.trace.append(('handler', 'create'))

        @kopf.on.delete('kopf.dev', 'v1', 'kopfexamples', registry=registry)
        async def delete_fn(**_):
            server.trace.append(('handler', 'delete'))

        def requires(o):
            return o is not None

    ld1 = vc.load('kopf._core.reactor.processing', 'process_resource_event')
    ld2 = vc.load('kopf._core.reactor.processing', 'process_resource_causes')

    loop = GhostLoop()
    cycles = []                 # per cycle: dict(event, carried effects, t1, t2, after)
    quiets = []                 # the state at every quiet point
    state = dict(runaway=False, phase_cycles=0, in_label_phase=False, escaped=None)

    async def sleep(delays, wakeup=None):
        ds = [d for d in (delays if isinstance(delays, collections.abc.Collection) else [delays]) if d is not None]
        m = min(ds) if ds else 0
        if m <= 0:
            return None
        if wakeup is not None and wakeup.is_set():
            return m
        loop.ghost += m
        return None

    def request_deletion():
        server.ext_delete(requires(server.obj))

    def flip(value):
        # the label actions of the history end with the deletion request
        if server.obj is not None and not server.deleting(server.obj) and not any(t[0] == 'delete-requested' for t in server.trace):
            server.ext_set_label('managed', value)

    async def work(after_cycle=None):
        """The per-object worker: until no event is pending; then it idles out."""
        expected, ctime = None, None
        n = 0
        while server.backlog:
            n += 1
            if n > MAX_CYCLES:
                state['runaway'] = True
                server.backlog.clear()
                break
            ev = server.backlog.popleft()
            version = ev['object']['metadata'].get('resourceVersion')
            if expected is not None and expected == version:
                expected, ctime = None, None
            if not server.backlog:
                server.pressure.clear()
            server.cycle += 1
            mem = await memories.recall(ev['object'], ephemeral=True)
            carried = mem.remaining_patch
            c_fns = list(carried.fns) if carried else []
            c_keys = dict(carried) if carried else {}
            effects = [_effect(fn, fin) for fn in c_fns]
            t1 = server.rejected_removal and 'allow' in effects and requires(ev['object'])
            before = server.requests
            result = await processing.process_resource_event(
                lifecycle=kopf.lifecycles.all_at_once, registry=registry, settings=settings, resource=resource,
                indexers=indexers, memories=memories, memobase=Memo(), raw_event=ev, event_queue=asyncio.Queue(),
                stream_pressure=server.pressure, consistency_time=ctime)
            t2 = (server.rejected and bool(c_fns) and not c_keys and _noop_on(c_fns, ev['object'])
                  and server.requests == before and ev['type'] != 'DELETED')
            cycles.append(dict(no=server.cycle, event=ev, effects=effects, t1=t1, t2=t2, after=server.snapshot(),
                               requests=server.requests - before))
            if result is not None and settings.persistence.consistency_timeout:
                expected, ctime = result, loop.time() + settings.persistence.consistency_timeout
            if after_cycle is not None:
                after_cycle()
        loop.ghost += 10.0          # the worker idles out; later events start a fresh worker
        mem = await memories.recall({'metadata': {'uid': UID}}, ephemeral=True)
        quiets.append(dict(obj=server.snapshot(), left=mem.remaining_patch, n_trace=len(server.trace), n_cycles=len(cycles)))

    async def main():
        server.emit(None, server.obj)          # the initial listing
        if family == 0:
            if init == 2:
                server.hooks.append(lambda: server.ext_set_label('unrelated-0', 'x'))
            await work()
            server.hooks.clear()

            k = [0]

            def after_cycle():
                k[0] += 1
                if deletion == k[0]:
                    request_deletion()
                if label == 2 and k[0] == 1:
                    flip('yes')
            if race:
                server.hooks.append(lambda: server.ext_set_label('unrelated-1', 'x'))
            if label == 0:
                server.ext_set_label('unrelated-2', 'x')
            elif label == 4:
                server.hooks.append(lambda: flip('yes'))
                flip('no')
            else:
                flip('no')
            await work(after_cycle)
            if label == 3:
                flip('yes')
                await work(after_cycle)
        else:
            if listing == 1:
                server.emit('ADDED', server.obj)
            elif listing == 2:
                server.hooks.append(server.ext_add_finalizer)
            elif listing == 3:
                server.hooks.append(lambda: server.ext_set_label('unrelated-0', 'x'))
            await work()
        quiets[-1]['creation_point'] = True
        if deletion == 'quiet':
            request_deletion()
            await work()

    logging.disable(logging.CRITICAL)
    try:
        with patched(api, patch=server.patch), patched(aiotime, sleep=sleep):
            try:
                loop.run_until_complete(main())
            except BaseException as e:
                if _not_ours(e) or isinstance(e, (KeyboardInterrupt, SystemExit)):
                    raise
                state['escaped'] = e
    finally:
        logging.disable(logging.NOTSET)
        try:
            loop.run_until_complete(loop.shutdown_asyncgens())
        finally:
            loop.close()

    # ---- the verdicts, from the ghost trace
    tr = server.trace
    t1_cycles = {c['no'] for c in cycles if c['t1']}
    escaped = state['escaped']
    vc.ensure('goes_quiet', escaped is None and not state['runaway'])

    # (C06) every removal write of the framework, judged against its pre-image
    removals = []
    for i, ev in enumerate(tr):
        if ev[0] != 'write':
            continue
        _, actor, pre, post, cyc = ev
        vc.ensure('carried_transformation_neither_lost_nor_duplicated', server.count(post) <= 1)
        if actor == 'kopf' and server.count(pre) > 0 and server.count(post) == 0:
            handled = any(t[0] == 'handler' and t[1] == 'delete' for t in tr[:i])
            ok = not requires(pre) or (server.deleting(pre) and handled)
            removals.append((i, cyc, requires(pre)))
            vc.ensure('finalizer_present_while_required', ok, excuse={'F-C06-2': cyc in t1_cycles})
    for c in cycles:
        b, after = c['event']['object'], c['after']
        if c['event']['type'] != 'DELETED' and requires(b) and server.count(b) > 0 and not server.deleting(b):
            kept = after is None or not requires(after) or server.deleting(after) or server.count(after) > 0
            # (an object that is gone here was released by a write judged above or by its deletion handler)
            vc.ensure('finalizer_present_while_required', kept, excuse={'F-C06-2': c['no'] in t1_cycles})
    for q in quiets:
        o = q['obj']
        if o is not None and not server.deleting(o):
            vc.ensure('finalizer_present_while_required', not requires(o) or server.count(o) > 0)
            vc.ensure('carried_transformation_neither_lost_nor_duplicated', server.count(o) == (1 if requires(o) else 0))
        vc.ensure('carried_transformation_neither_lost_nor_duplicated', not q['left'])
    vc.ensure('carried_transformation_neither_lost_nor_duplicated', not server.unguarded)

    # (C06) deletion: handler before the object goes; gone at quiet
    req = [i for i, t in enumerate(tr) if t[0] == 'delete-requested']
    gone = [i for i, t in enumerate(tr) if t[0] == 'gone']
    if req:
        _, matched, protected = tr[req[0]]
        # the framework is answerable for an object it had under its finalizer when the deletion was requested, or from which it
        # had taken the finalizer although requires() held (an object that started matching and was deleted before the framework
        # has processed any event of it was never protected: nobody can help it)
        early = [(cyc, was_required) for i, cyc, was_required in removals if i < req[0]]
        unprotected_early = not protected and bool(early) and early[-1][1]
        if gone and matched and (protected or unprotected_early):
            handled_before = any(t[0] == 'handler' and t[1] == 'delete' for t in tr[:gone[0]])
            last_removal = [cyc for i, cyc, _ in removals if i < gone[0]]
            in_class = bool(last_removal) and last_removal[-1] in t1_cycles
            vc.ensure('delete_handler_runs_before_release', handled_before, excuse={'F-C06-2': in_class})
        else:
            vc.ensure('delete_handler_runs_before_release', True)
        vc.ensure('released_once_handlers_finished', bool(gone) or escaped is not None or state['runaway'])
    else:
        vc.ensure('delete_handler_runs_before_release', not gone)
        vc.ensure('released_once_handlers_finished', not gone)

    # (C03) creation handled at quiet without any further event
    if family == 1:
        for q in quiets:
            if q.get('creation_point') and q['obj'] is not None:
                created = any(t[0] == 'handler' and t[1] == 'create' for t in tr[:q['n_trace']])
                in_class = any(c['t2'] for c in cycles[:q['n_cycles']])
                vc.ensure('creation_handled_without_unrelated_event', created, excuse={'F-C03-3': in_class})
    else:
        vc.ensure('creation_handled_without_unrelated_event', not any(t[0] == 'handler' and t[1] == 'create' for t in tr))

    rejected = [t for t in tr if t[0] == 'rejected']
    vc.canary('canary.no_conflict_ever', not rejected)
    vc.canary('canary.never_released', not gone)
    vc.canary('canary.nothing_ever_carried', not any(c['effects'] for c in cycles))
    final = quiets[-1]['obj'] if quiets else None
    return ('history', family, init, label, race, deletion, listing, len(cycles), len(rejected), bool(gone),
            None if final is None else server.count(final), sorted({t[1] for t in tr if t[0] == 'handler'}),
            type(escaped).__name__ if escaped is not None else None)
