"""
Contracts for C15 "exactly the handlers whose declared criteria hold are invoked".

R4 (bounded): registry.get_handlers(cause) == { h | spec_match(h, cause) } for the five resource registries, where
              spec_match is an executable reading of docs/filters.rst written once in this file.
R3 (deductive): registries._deduplicated -- first occurrence per (fn, id) kept, order kept.
"""
import dataclasses
import itertools

from pyvc import *
from pyvc.bounded import bounded
from pyvc.stubs import Opaque

# =========================================================================== the criteria alphabet
UNSET = None                   # "the criterion is not declared"
FIELD = 'spec.x'


def cb_is_a(value, **_):       # per-value callbacks (docs: positional value, None when the value is absent)
    return value == 'a'


def cb_is_none(value, **_):
    return value is None


def when_y(spec, **_):         # whole-body callbacks
    return spec.get('y') == 1


def when_never(**_):
    return False


def _tokens():
    import kopf
    return kopf.PRESENT, kopf.ABSENT


@dataclasses.dataclass(frozen=True)
class Decl:
    """One handler declaration, as written with the public decorators."""
    kind: str                              # create update delete resume resume+deleted field | event index daemon timer | validate mutate
    labels: tuple = UNSET                  # (key, criterion) or UNSET
    annotations: tuple = UNSET
    field: str = UNSET
    value: object = UNSET
    old: object = UNSET
    new: object = UNSET
    when: object = UNSET
    selector: str = 'kopfexamples'

    @property
    def family(self):
        return {'event': 'watching', 'index': 'indexing', 'daemon': 'spawning', 'timer': 'spawning',
                'validate': 'webhooks', 'mutate': 'webhooks'}.get(self.kind, 'changing')


@dataclasses.dataclass(frozen=True)
class Facts:
    """One situation: the object, and for changing causes the reason and the old/new essences."""
    family: str
    reason: str = None                     # create update delete resume (changing) / validating mutating None (webhooks)
    initial: bool = False
    deleted: bool = False                  # metadata.deletionTimestamp is set
    labels: tuple = ()                     # ((key, value), ...)
    annotations: tuple = ()
    y: object = UNSET                      # spec.y
    new_x: tuple = ('absent',)             # state of spec.x now: ('absent',) | ('present', value)
    old_x: tuple = ('absent',)             # state of spec.x in the last-handled essence (changing causes; CREATE: no essence)
    plural: str = 'kopfexamples'


UPDATE_LIKE = ('update', 'field')          # docs/filters.rst: "the update handlers (@on.update, @on.field)"


def criterion_holds(criterion, state, absent_as=None):
    """docs/filters.rst "There are only a few kinds of checks": a literal value, kopf.PRESENT / kopf.ABSENT, or a per-value
    callback, which gets "None if the value is absent in the resource" (`absent_as` exists only to classify F-C15-2)."""
    PRESENT, ABSENT = _tokens()
    present = state[0] == 'present'
    if criterion is PRESENT:
        return present
    if criterion is ABSENT:
        return not present
    if callable(criterion):
        return bool(criterion(state[1] if present else absent_as))
    return present and state[1] == criterion


_SENTINEL = object()


def spec_match(d: Decl, f: Facts, *, dev_old_too=False, dev_sentinel=False) -> bool:
    """The executable reading of docs/filters.rst (+ the kind rules of docs/handlers.rst as proved in R1).
    "Multiple criteria are joined with AND".
    The two keyword switches are NOT part of the reading: they reproduce the two known deviations of the code
    (F-C15-1: value= of non-update handlers also tested on the old state; F-C15-2: field callbacks get a sentinel for an
    absent field) and are used only to decide whether an observed mismatch belongs to one of these known classes."""
    PRESENT, ABSENT = _tokens()
    absent_as = _SENTINEL if dev_sentinel else None
    # -- resource selector
    if d.selector != f.plural or d.family != f.family:
        return False
    # -- cause kind (R1): create/update/delete by reason; resume: only on the initial pass, and on objects being deleted only
    #    when declared with deleted=True; field handlers and all non-changing handlers: every cause of their family
    if d.family == 'changing':
        if d.kind in ('create', 'update', 'delete') and f.reason != d.kind:
            return False
        if d.kind.startswith('resume') and not (f.initial and (not f.deleted or d.kind == 'resume+deleted')):
            return False
    if d.family == 'webhooks' and f.reason is not None and f.reason != {'validate': 'validating', 'mutate': 'mutating'}[d.kind]:
        return False
    # -- metadata filters: value / PRESENT / ABSENT / callback; "empty strings ... are considered as present"
    for crit, content in ((d.labels, dict(f.labels)), (d.annotations, dict(f.annotations))):
        if crit is not UNSET:
            key, c = crit
            if not criterion_holds(c, ('present', content[key]) if key in content else ('absent',)):
                return False
    # -- field filters
    if d.field is not UNSET:
        value = PRESENT if d.value is UNSET else d.value        # "not specified ... is equivalent to value=kopf.PRESENT"
        old_x = ('absent',) if f.reason == 'create' else f.old_x    # a created object has no last-handled state
        if d.kind in UPDATE_LIKE and d.family == 'changing':
            # "restricts the update handlers to cases where the specified field is affected in any way: changed, added, or removed"
            # ("a change means ... also a change in whether the field is present or absent")
            if old_x == f.new_x:
                return False
            # "The value= filter applies to either the old or the new value"
            if not (criterion_holds(value, old_x, absent_as) or criterion_holds(value, f.new_x, absent_as)):
                return False
            # "the old and new values can be checked separately with the old=/new= filters"; "not specified ... is not checked"
            if d.old is not UNSET and not criterion_holds(d.old, old_x, absent_as):
                return False
            if d.new is not UNSET and not criterion_holds(d.new, f.new_x, absent_as):
                return False
        else:
            # "For all other handlers ... the field=/value= filters check the resource in its current ---and only--- state."
            ok = criterion_holds(value, f.new_x, absent_as)
            if dev_old_too and d.family == 'changing':
                ok = ok or criterion_holds(value, old_x, absent_as)
            if not ok:
                return False
    # -- whole-body callback
    if d.when is not UNSET:
        spec = {k: v for k, v in (('y', f.y),) if v is not UNSET}
        if not d.when(spec=spec):
            return False
    return True


# =========================================================================== building the real objects
def register(registry, d: Decl, n: int):
    """Declare the handler with the PUBLIC decorator of its kind; returns its id."""
    import kopf

    def fn(**_):
        return None
    fn.__name__ = fn.__qualname__ = f'h{n}'
    kw = dict(registry=registry, id=f'h{n}')
    if d.labels is not UNSET:
        kw['labels'] = {d.labels[0]: d.labels[1]}
    if d.annotations is not UNSET:
        kw['annotations'] = {d.annotations[0]: d.annotations[1]}
    for name in ('field', 'value', 'old', 'new', 'when'):
        if getattr(d, name) is not UNSET:
            kw[name] = getattr(d, name)
    if d.kind == 'resume+deleted':
        kopf.on.resume(d.selector, deleted=True, **kw)(fn)
    elif d.kind in ('validate', 'mutate'):
        getattr(kopf.on, d.kind)(d.selector, **kw)(fn)
    elif d.kind in ('daemon', 'timer'):
        getattr(kopf, d.kind)(d.selector, **kw)(fn)
    elif d.kind == 'index':
        kopf.index(d.selector, **kw)(fn)
    else:
        getattr(kopf.on, d.kind)(d.selector, **kw)(fn)
    return getattr(registry, '_' + d.family).get_all_handlers()[-1].id       # e.g. "h7/spec.x": the field is part of the id


def make_cause(f: Facts):
    from kopf._cogs.structs import bodies, diffs, patches, references
    from kopf._core.intents import causes

    def spec_of(state, other=None):
        spec = {}
        if f.y is not UNSET:
            spec['y'] = f.y
        if state[0] == 'present':
            spec['x'] = state[1]
        if other is not None:
            spec['z'] = other
        return spec
    meta = {'name': 'obj', 'namespace': 'ns', 'uid': 'uid'}
    if f.labels:
        meta['labels'] = dict(f.labels)
    if f.annotations:
        meta['annotations'] = dict(f.annotations)
    if f.deleted:
        meta['deletionTimestamp'] = '2020-01-01T00:00:00Z'
    raw = {'apiVersion': 'kopf.dev/v1', 'kind': 'KopfExample', 'metadata': meta, 'spec': spec_of(f.new_x, 2)}
    body = bodies.Body(raw)
    resource = references.Resource('kopf.dev', 'v1', f.plural, kind='KopfExample', singular='kopfexample')
    common = dict(logger=None, indices={}, memo=None, resource=resource, patch=patches.Patch(), body=body)
    if f.family == 'changing':
        def essence(state, other):
            e = {'spec': spec_of(state, other)}
            for k in ('labels', 'annotations'):
                if k in meta:
                    e.setdefault('metadata', {})[k] = dict(meta[k])
            return e
        new = essence(f.new_x, 2)
        # something else (spec.z) always differs on updates, so that an UPDATE cause exists even when spec.x did not change
        old = None if f.reason == 'create' else essence(f.old_x, 1 if f.reason == 'update' else 2)
        return causes.ChangingCause(**common, initial=f.initial, reason=causes.Reason(f.reason),
                                    diff=diffs.diff(old, new), old=old, new=new)
    if f.family == 'watching':
        return causes.WatchingCause(**common, type='MODIFIED', event={'type': 'MODIFIED', 'object': raw})
    if f.family == 'indexing':
        return causes.IndexingCause(**common)
    if f.family == 'spawning':
        return causes.SpawningCause(**common, reset=False)
    if f.family == 'webhooks':
        reason = None if f.reason is None else causes.WebhookType(f.reason)
        return causes.WebhookCause(**common, dryrun=False, reason=reason, webhook=None, headers={}, sslpeer={}, userinfo={},
                                   warnings=[], operation='CREATE', subresource=None)
    raise ValueError(f.family)


# =========================================================================== the universes
STATES = (('absent',), ('present', None), ('present', 'a'), ('present', 'b'))


def value_alphabet():
    PRESENT, ABSENT = _tokens()
    return (UNSET, 'a', PRESENT, ABSENT, cb_is_a, cb_is_none)


def meta_alphabet(key):
    PRESENT, ABSENT = _tokens()
    return (UNSET, (key, 'v'), (key, PRESENT), (key, ABSENT), (key, cb_is_a), (key, cb_is_none), (key, ''))


CHANGING_KINDS = ('create', 'update', 'delete', 'resume', 'resume+deleted', 'field')
OTHER_KINDS = ('event', 'index', 'daemon', 'timer', 'validate', 'mutate')


def field_decls(kinds, whens):
    """Universe A: every field/value/old/new declaration of every kind, x `when`."""
    vals = value_alphabet()
    for kind in kinds:
        for when in whens:
            if kind != 'field':          # @on.field cannot be declared without a field
                yield Decl(kind, when=when)
            for v in vals:
                yield Decl(kind, field=FIELD, value=v, when=when)
            if kind in UPDATE_LIKE:      # old=/new= exist only on the update handlers, and exclude value=
                for o, n in itertools.product(vals, vals):
                    if o is not UNSET or n is not UNSET:
                        yield Decl(kind, field=FIELD, old=o, new=n, when=when)


def meta_decls(kinds):
    """Universe B: every label x annotation criterion, with and without a field/when criterion."""
    for kind in kinds:
        fld = dict(field=FIELD) if kind == 'field' else {}      # @on.field cannot be declared without a field
        for lab, ann in itertools.product(meta_alphabet('l'), meta_alphabet('n')):
            yield Decl(kind, labels=lab, annotations=ann, **fld)
        for lab in meta_alphabet('l'):
            yield Decl(kind, labels=lab, field=FIELD, value='a', when=when_y)
        yield Decl(kind, selector='otherthings', **fld)
        yield Decl(kind, selector='otherthings', labels=('l', 'v'), **fld)


def changing_facts(states, ys, metas):
    for (labels, annotations), y in itertools.product(metas, ys):
        kw = dict(family='changing', labels=labels, annotations=annotations, y=y)
        for new_x in states:
            for initial in (False, True):
                yield Facts(reason='create', initial=initial, new_x=new_x, **kw)
            for old_x in states:
                for initial in (False, True):
                    yield Facts(reason='update', initial=initial, new_x=new_x, old_x=old_x, **kw)
                # deletion: the object is marked; resume handlers may be mixed in on the initial pass
                for initial in (False, True):
                    yield Facts(reason='delete', initial=initial, deleted=True, new_x=new_x, old_x=old_x, **kw)
            yield Facts(reason='resume', initial=True, new_x=new_x, old_x=new_x, **kw)


def other_facts(family, states, ys, metas):
    for (labels, annotations), y, new_x in itertools.product(metas, ys, states):
        if family == 'webhooks':
            for reason in (None, 'validating', 'mutating'):
                yield Facts(family=family, reason=reason, labels=labels, annotations=annotations, y=y, new_x=new_x)
        else:
            yield Facts(family=family, labels=labels, annotations=annotations, y=y, new_x=new_x)


METAS_SMALL = (((), ()), ((('l', 'v'),), (('n', 'v'),)))
METAS_FULL = tuple(itertools.product(((), (('l', 'v'),), (('l', 'a'),), (('l', ''),), (('other', 'v'),)),
                                     ((), (('n', 'v'),), (('n', 'a'),), (('n', ''),))))


@bounded('R4', targets=['kopf._core.intents.registries.match', 'kopf._core.intents.registries.prematch',
                        'kopf._core.intents.registries._matches_metadata', 'kopf._core.intents.registries._matches_field_values',
                        'kopf._core.intents.registries._matches_field_changes', 'kopf._core.intents.registries._matches_filter_callback',
                        'kopf._core.intents.registries.ResourceRegistry.get_handlers'],
         props=['C15', 'C02', 'C03', 'C04', 'C06', 'C14', 'C17', 'C18'],
         clauses=['changing_exact', 'watching_exact', 'indexing_exact', 'spawning_exact', 'webhooks_exact',
                  'prematch_covers_match', 'callbacks_get_none_for_absent'],
         universe='A (fields): 12 handler kinds x {no field, field spec.x with value in {unset,"a",PRESENT,ABSENT,cb==a,cb is None}, and for '
                  'update/field old x new over the same 6} x when in {unset, spec.y==1, never}; causes: reason create/update/delete/resume x '
                  'initial x old/new state of spec.x in {absent,None,"a","b"}^2 x spec.y in {unset,1} x 2 metadata shapes.  '
                  'B (metadata): 12 kinds x 7 label criteria x 7 annotation criteria (value,PRESENT,ABSENT,2 callbacks,"") + field/when '
                  'combinations + a foreign selector; causes: 5 label x 4 annotation shapes x 2 field states (x reasons).  C: seeded random '
                  'declarations combining all criteria x random causes (500x400 quick, 1500x1500 thorough, changing; a third of that for the others).  All handlers of a '
                  'family registered together with the public decorators; A and B exhaustive (~3*10^5 handler-cause pairs)')
def R4(b):
    """
    For every cause c and every registered declaration h:  h in registry.get_handlers(c)  <=>  spec_match(h, c), where
    spec_match (this file) reads docs/filters.rst: criteria are ANDed; metadata: value / PRESENT / ABSENT / callback;
    field= with value= (unset == PRESENT) on the CURRENT state -- for update handlers (@on.update, @on.field) on the old
    OR the new state, and only if the field is affected; old=/new= separately; per-value callbacks get None for an
    absent value; when= gets the kwargs.  Handler kinds as proved in R1.  One clause per registry:
      changing_exact / watching_exact / indexing_exact / spawning_exact / webhooks_exact
      prematch_covers_match    some handler matches  =>  ChangingRegistry.prematch(cause)  (the stealth gate never hides a match)
      callbacks_get_none_for_absent   the value handed to a per-value callback for an absent label/annotation/field is None
    Known finding: F-C15-1 (value= of create/resume/delete handlers is also tested against the OLD state).
    F-C15-2 (field callbacks received an internal sentinel instead of None for an absent field) was found by this check and is
    fixed in /repo (e434359); its excuse is inactive and the clauses must hold without it.
    Bounded stand-in (labelled B): match() walks handler/cause object graphs, user callbacks and lazily built kwargs.
    """
    import kopf
    from kopf._core.intents import registries
    F1, F2 = 'F-C15-1', 'F-C15-2'
    PRESENT, ABSENT = _tokens()
    seen_by_callbacks = []

    def run_universe(tag, decls_by_family, facts_iter):
        regs, ids = {}, {}
        for family, decls in decls_by_family.items():
            reg = kopf.OperatorRegistry()
            table = {}
            for n, d in enumerate(decls):
                table[register(reg, d, n)] = d
            regs[family], ids[family] = reg, table
        for f in facts_iter:
            reg, table = regs[f.family], ids[f.family]
            cause = make_cause(f)
            sub = getattr(reg, '_' + f.family)
            got = [h.id for h in sub.get_handlers(cause)]
            got_set = set(got)
            clause = f'{f.family}_exact'
            b.case(key=(tag, f))
            for hid, d in table.items():
                want = spec_match(d, f)
                have = hid in got_set
                if want == have:
                    b.check(clause, True)
                    continue
                b.check(clause, False, lambda: dict(handler=_show(d), cause=_show(f), spec_says=want, registry_selected=have),
                        excuse=_classify(d, f, want, have))
            b.check(clause, len(got) == len(got_set), lambda: dict(duplicates=got, cause=_show(f)))
            if f.family == 'changing':
                anyone = any(spec_match(d, f) for d in table.values())
                b.check('prematch_covers_match', (not anyone) or sub.prematch(cause), lambda: dict(cause=_show(f)))

    def _classify(d, f, want, have):
        """A mismatch belongs to a known class iff the registry's answer is exactly the reading with that one deviation
        switched on (both switched on: the two deviations together); anything else stays a violation."""
        if d.field is UNSET:
            return None
        if spec_match(d, f, dev_old_too=True) == have:
            return F1
        if spec_match(d, f, dev_sentinel=True) == have:
            return F2
        if spec_match(d, f, dev_old_too=True, dev_sentinel=True) == have:
            return F1
        return None

    # ---- universe A: fields
    whens = (UNSET, when_y, when_never)
    run_universe('A', {'changing': list(field_decls(CHANGING_KINDS, whens))},
                 changing_facts(STATES, (UNSET, 1), METAS_SMALL))
    for family, kinds in (('watching', ('event',)), ('indexing', ('index',)), ('spawning', ('daemon', 'timer')), ('webhooks', ('validate', 'mutate'))):
        run_universe('A', {family: list(field_decls(kinds, whens))}, other_facts(family, STATES, (UNSET, 1), METAS_SMALL))
    # ---- universe B: metadata
    run_universe('B', {'changing': list(meta_decls(CHANGING_KINDS))},
                 changing_facts((('absent',), ('present', 'a')), (1,), METAS_FULL))
    for family, kinds in (('watching', ('event',)), ('indexing', ('index',)), ('spawning', ('daemon', 'timer')), ('webhooks', ('validate', 'mutate'))):
        run_universe('B', {family: list(meta_decls(kinds))}, other_facts(family, (('absent',), ('present', 'a')), (UNSET, 1), METAS_FULL))

    # ---- universe C: seeded random declarations combining ALL criteria, against random causes
    n_decls, n_facts = (1500, 1500) if b.thorough else (500, 400)
    b.sampled(f'universe C: {n_decls} random declarations x {n_facts} random causes per family (seed {b.seed})')
    vals, rng = value_alphabet() + ('b',), b.rng

    def random_decl(kinds):
        kind = rng.choice(kinds)
        kw = dict(labels=rng.choice(meta_alphabet('l')), annotations=rng.choice(meta_alphabet('n')),
                  when=rng.choice((UNSET, UNSET, when_y, when_never)))
        if kind == 'field' or rng.random() < 0.7:
            kw['field'] = FIELD
            if kind in UPDATE_LIKE and rng.random() < 0.6:
                kw['old'], kw['new'] = rng.choice(vals), rng.choice(vals)
            else:
                kw['value'] = rng.choice(vals)
        return Decl(kind, **kw)

    def random_facts(family):
        labels, annotations = rng.choice(METAS_FULL)
        kw = dict(family=family, labels=labels, annotations=annotations, y=rng.choice((UNSET, 1, 2)), new_x=rng.choice(STATES))
        if family == 'changing':
            reason = rng.choice(('create', 'update', 'delete', 'resume'))
            old_x = kw['new_x'] if reason == 'resume' else ('absent',) if reason == 'create' else rng.choice(STATES)
            return Facts(reason=reason, initial=reason == 'resume' or rng.random() < 0.4, deleted=reason == 'delete', old_x=old_x, **kw)
        if family == 'webhooks':
            return Facts(reason=rng.choice((None, 'validating', 'mutating')), **kw)
        return Facts(**kw)
    for family, kinds in (('changing', CHANGING_KINDS), ('watching', ('event',)), ('indexing', ('index',)),
                          ('spawning', ('daemon', 'timer')), ('webhooks', ('validate', 'mutate'))):
        scale = 1 if family == 'changing' else 3
        run_universe('C', {family: [random_decl(kinds) for _ in range(n_decls // scale)]},
                     [random_facts(family) for _ in range(n_facts // scale)])

    # ---- what do per-value callbacks receive for an absent value?
    def probe(value, **_):
        seen_by_callbacks.append(value)
        return True
    for what, kw in (('label', dict(labels={'l': probe})), ('annotation', dict(annotations={'n': probe})),
                     ('field (event)', dict(field=FIELD, value=probe)), ('field (create)', dict(field=FIELD, value=probe)),
                     ('field old= (update)', dict(field=FIELD, old=probe))):
        reg = kopf.OperatorRegistry()
        deco = kopf.on.event if 'event' in what or what in ('label', 'annotation') else kopf.on.update if 'update' in what else kopf.on.create
        deco('kopfexamples', registry=reg, id='probe', **kw)(lambda **_: None)
        del seen_by_callbacks[:]
        if deco is kopf.on.event:
            reg._watching.get_handlers(make_cause(Facts(family='watching')))
        elif deco is kopf.on.create:
            reg._changing.get_handlers(make_cause(Facts(family='changing', reason='create')))
        else:
            reg._changing.get_handlers(make_cause(Facts(family='changing', reason='update', new_x=('present', 'a'))))
        b.case(key=('probe', what))
        b.check('callbacks_get_none_for_absent', bool(seen_by_callbacks) and all(v is None for v in seen_by_callbacks),
                lambda: dict(criterion=what, callback_received=[repr(v) for v in seen_by_callbacks]),
                excuse=F2 if what.startswith('field') else None)


def _show(x):
    d = {}
    for fld in dataclasses.fields(x):
        v = getattr(x, fld.name)
        if v != fld.default:
            d[fld.name] = repr(v) if not callable(v) else v.__name__
    return d


# =========================================================================== R3
class _AbstractSeen:
    """`seen_ids` at an arbitrary loop head: an arbitrary set -- membership of the one key in play is a free boolean."""
    def __init__(self, member):
        self.member, self.queries, self.added = member, [], []

    def __contains__(self, key):
        self.queries.append(key)
        return bool(self.member)          # forks the path

    def add(self, key):
        self.added.append(key)


@harness('R3', targets='kopf._core.intents.registries._deduplicated', props=['C15', 'C02', 'C05', 'C09', 'C11', 'C14', 'C17', 'C18', 'C20'],
         clauses=['starts_empty', 'yield_iff_unseen', 'remembers_exactly_this_key', 'bounded_reference', 'frame'],
         canaries=['canary.yields_everything', 'canary.bounded_keeps_all'],
         assumes=['id(handler.fn) identifies the function object for the duration of the call (CPython: the handlers hold references)'])
def R3(vc):
    """
    _deduplicated(src) yields the input minus later elements with an equal (id(fn), id) pair, order kept:
    "one function registered twice under the same id is invoked once" (C15).
    Branch 0 -- loop contract, any length: `seen_ids` is empty when the loop is first reached (starts_empty); in one arbitrary
      iteration from an arbitrary set `seen_ids`, the element h is yielded iff (id(h.fn), h.id) is not in seen_ids, at most once,
      and nothing else is yielded (yield_iff_unseen); afterwards seen_ids = seen_ids U {that key}: the only key ever added, only
      this membership is queried (remembers_exactly_this_key; that the key is an injective image of (fn, id) is pinned by branch 1);
      the source is iterated as given (frame).  By induction seen_ids at
      the head is exactly the key set of the elements consumed so far, hence the output is the list of first occurrences in order.
    Branch 1 -- the same statement checked directly against a reference for EVERY list of length 0..4 over 2 functions x 2 ids
      (all 341 lists; stated bound), through the public ActivityRegistry/ResourceRegistry-independent function itself.
    """
    from pyvc.loader import _STOP
    from kopf._core.intents import registries
    if vc.nondet(2, 'loop contract | lists up to 4') == 0:
        h = Opaque('handler', fn=Opaque('fn'), id='some-id')
        src = Opaque('src')
        member = vc.bool('key(h) in seen_ids@head')
        seen = _AbstractSeen(member)
        yielded = []

        def at_entry(loc):
            s = loc.get('seen_ids')
            vc.ensure('starts_empty', isinstance(s, (set, frozenset)) and len(s) == 0)

        def havoc(loc):
            return {'seen_ids': seen}

        def element(loc, iterable):
            vc.ensure('frame', iterable is src)
            return _STOP if vc.nondet(2, 'exhausted?') == 0 else h

        def at_backedge(loc):
            vc.ensure('yield_iff_unseen', Iff(len(yielded) == 1, Not(member)))
            vc.ensure('yield_iff_unseen', len(yielded) <= 1 and all(y is h for y in yielded))
            # which key is formed from (fn, id) is pinned by branch 1; here: ONE key per element, tested and remembered
            vc.ensure('remembers_exactly_this_key', len(seen.queries) >= 1 and all(q == seen.queries[0] for q in seen.queries))
            key = seen.queries[0] if seen.queries else None
            vc.ensure('remembers_exactly_this_key', Implies(Not(member), seen.added == [key]))
            vc.ensure('remembers_exactly_this_key', Implies(member, seen.added in ([], [key])))
            vc.ensure('remembers_exactly_this_key', loc.get('seen_ids') is seen)
            vc.canary('canary.yields_everything', len(yielded) == 1)
        ld = vc.load('kopf._core.intents.registries', '_deduplicated',
                     loops={1: LoopSpec('for handler in src', havoc=havoc, element=element, at_entry=at_entry,
                                        at_backedge=at_backedge, rebinds=('seen_ids',))})
        for y in ld.fn(src):
            yielded.append(y)
        vc.ensure('yield_iff_unseen', len(yielded) == 0)        # only reached when the source is exhausted at the havocked head
        return ('exhausted', len(yielded))
    # ---- branch 1: all lists up to length 4
    fns = [Opaque('fn-A'), Opaque('fn-B')]
    pool = [Opaque(f'h[{i}{j}]', fn=f, id=hid) for i, f in enumerate(fns) for j, hid in enumerate(('id-1', 'id-2'))]
    n = vc.nondet(5, 'length')
    picks = [vc.nondet(len(pool), f'element {i}') for i in range(n)]
    # distinct handler OBJECTS may share (fn, id): two registrations of one function under one id
    src = [Opaque(f'reg{i}', fn=pool[p].fn, id=pool[p].id) for i, p in enumerate(picks)]
    ld = vc.load('kopf._core.intents.registries', '_deduplicated')
    out = list(ld.fn(list(src)))
    ref = [h for i, h in enumerate(src) if not any(g.fn is h.fn and g.id == h.id for g in src[:i])]
    vc.ensure('bounded_reference', len(out) == len(ref) and all(a is b_ for a, b_ in zip(out, ref)))
    vc.canary('canary.bounded_keeps_all', len(out) == len(src))
    return ('list', n, tuple(picks), len(out))
