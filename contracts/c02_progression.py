"""Contracts for the recorded handler progress (C02/C11/C06): progression.HandlerState (G1, G2),
progression.State (G3), execution.execute_handlers_once (X2), the built-in lifecycles (X3) and
subhandling.execute (H8).

Time model (all harnesses here): `datetime.datetime` is a real number of seconds since an arbitrary
epoch (pyvc.stubs.SDt), `datetime.timedelta` a real number of seconds (STd), the event-loop clock a
ghost real (Clock);  now == basetime + loop.time().  Floats are mathematical reals (no rounding).
"""
import itertools

from pyvc import *
from pyvc.stubs import Opaque, NullLogger, Clock, StubLoop, STd, SDt, StubDatetimeModule
from kopf._core.actions import execution, progression

PROG = 'kopf._core.actions.progression'


def truthy(x):
    return x.truth() if isinstance(x, SV) else bool(x)


def is_none(x):
    return x is None


def time_stubs(clock, **extra):
    stubs = {'datetime': StubDatetimeModule, 'asyncio.get_running_loop': lambda: StubLoop(clock)}
    stubs.update(extra)
    return stubs


def load_handler_state(vc, clock, parse_iso8601=None):
    """
    The real dataclass progression.HandlerState, with the members under contract re-bound to their
    mechanically extracted real source (so that `self.finished` inside `sleeping`, `type(self)(...)`
    inside `with_outcome` etc. run the extracted code with the time stubs, too).  Everything else
    (fields, __init__, dataclasses.replace, as_active, with_purpose) is the real class.
    """
    stubs = time_stubs(clock)
    if parse_iso8601 is not None:
        stubs['parse_iso8601'] = parse_iso8601
    ld = {n: vc.load(PROG, f'HandlerState.{n}', stubs=stubs)
          for n in ('finished', 'sleeping', 'awakened', 'runtime', 'with_outcome', 'from_storage')}

    class HS(progression.HandlerState):
        finished = property(lambda self: ld['finished'].fn(self))
        sleeping = property(lambda self: ld['sleeping'].fn(self))
        awakened = property(lambda self: ld['awakened'].fn(self))
        runtime = property(lambda self: ld['runtime'].fn(self))

        def with_outcome(self, outcome):
            return ld['with_outcome'].fn(self, outcome)

        @classmethod
        def from_storage(cls, record, *, basetime):
            return ld['from_storage'].fn(cls, record, basetime=basetime)
    return HS


def draw_sdt(vc, name):
    return SDt(vc.real(name))


def draw_handler_state(vc, HS, basetime, name='s', retries_opt=False):
    """An arbitrary HandlerState (every field that the contracts mention is symbolic)."""
    retries = vc.int(f'{name}.retries')
    vc.assume(retries >= 0, 'recorded attempts are a count')
    return HS(active=vc.bool(f'{name}.active'), basetime=basetime,
              started=draw_sdt(vc, f'{name}.started'),
              stopped=vc.opt(f'{name}.stopped', lambda n: draw_sdt(vc, n)),
              delayed=vc.opt(f'{name}.delayed', lambda n: draw_sdt(vc, n)),
              purpose=vc.fin(f'{name}.purpose', [None, 'create', 'update']),
              retries=retries, success=vc.bool(f'{name}.success'), failure=vc.bool(f'{name}.failure'),
              message=None, subrefs=('h/sub-a',), _origin=None)


# ----------------------------------------------------------------------------------------------- G1
@harness('G1', targets=[f'{PROG}.HandlerState.finished', f'{PROG}.HandlerState.sleeping',
                        f'{PROG}.HandlerState.awakened', f'{PROG}.HandlerState.runtime',
                        f'{PROG}.HandlerState.from_storage'],
         props=['C02', 'C11', 'C10', 'C09', 'C03', 'C06', 'C14', 'C15', 'C16', 'C17', 'C18', 'C20'],
         clauses=['finished_def', 'sleeping_def', 'awakened_not_before_delay', 'awakened_when_due', 'runtime_def',
                  'from_storage_fields', 'from_storage_finished', 'from_storage_restart_independent'],
         canaries=['canary.never_sleeping', 'canary.never_awakened', 'canary.stored_never_finished'],
         trusted=['parse_iso8601 (iso8601.parse_date): None -> None, a string -> some datetime (uninterpreted; '
                  'round trip with format_iso8601 is the bounded clause G4)',
                  'datetime arithmetic as real arithmetic; loop.time() is the ghost clock'])
def G1(vc):
    """
    For an arbitrary handler state s and an arbitrary clock value (now = basetime + loop.time()):
      finished  <=> truthy(success) or truthy(failure);
      sleeping  <=> not finished and delayed is not None and delayed > now;
      awakened  ==> not finished and (delayed is None or delayed <= now)   -- a handler is never awakened
                    before its recorded delay, nor once its success/failure is recorded; and conversely
                    (awakened_when_due) an unfinished handler whose delay has passed is awakened;
      runtime   == now - started.
    from_storage(record, basetime): every field of the result is a function of the record, the basetime
    argument and the clock only (hence independent of the process' memory: restarts): finished <=>
    truthy(record.success) or truthy(record.failure); retries == record.retries or 0; delayed/stopped ==
    parse(record.delayed/stopped) (None for None/absent); started == parse(record.started) or now;
    purpose == record.purpose or None; the result is passive (active=False) and remembers the record as
    its origin; the record is not modified; nothing else is parsed.
    """
    clock = Clock('loop.time')
    basetime = draw_sdt(vc, 'basetime')
    parse_calls = []

    def parse_iso8601(val):
        if val is None:
            return None
        r = draw_sdt(vc, 'parse_iso8601()')          # uninterpreted: any datetime
        parse_calls.append((val, r))
        return r
    HS = load_handler_state(vc, clock, parse_iso8601)
    now = basetime.t + clock.now

    if vc.nondet(2, 'scenario: state predicates / from_storage') == 0:
        s = draw_handler_state(vc, HS, basetime)
        fin_spec = Or(s.success, s.failure)
        fin = s.finished
        vc.ensure('finished_def', Iff(fin, fin_spec))
        sl = s.sleeping
        due_later = False if s.delayed is None else (s.delayed.t > now)
        vc.ensure('sleeping_def', Iff(sl, And(Not(fin_spec), due_later)))
        aw = s.awakened
        vc.ensure('awakened_not_before_delay', Implies(aw, And(Not(fin_spec), Not(due_later))))
        vc.ensure('awakened_when_due', Implies(And(Not(fin_spec), Not(due_later)), aw))
        rt = s.runtime
        vc.ensure('runtime_def', Eq(rt.total_seconds(), now - s.started.t))
        vc.canary('canary.never_sleeping', Not(sl))
        vc.canary('canary.never_awakened', Not(aw))
        return ('predicates', fin, sl, aw)

    # ---- from_storage: an arbitrary record as written by for_storage (ProgressRecord; every value may
    # be None or the key may be missing altogether -- Kubernetes drops nulls)
    passive = resolve(vc.fin('rec.stopped/message/subrefs', [(False, None, None), (True, 'boo!', ['h/a', 'h/b'])]))
    rec_vals = dict(
        started=vc.opt('rec.started', vc.str), stopped=vc.str('rec.stopped') if passive[0] else None,
        delayed=vc.opt('rec.delayed', vc.str), purpose=vc.opt('rec.purpose', vc.str),
        retries=vc.opt('rec.retries', vc.int), success=vc.fin('rec.success', [None, False, True]),
        failure=vc.fin('rec.failure', [None, False, True]), message=passive[1], subrefs=passive[2])
    if rec_vals['retries'] is not None:
        vc.assume(rec_vals['retries'] >= 0, 'recorded attempts are a count')
    drop_nulls = vc.nondet(2, 'None-valued keys present / absent') == 1
    record = {k: v for k, v in rec_vals.items() if not (drop_nulls and v is None)}
    record_before = dict(record)
    st = HS.from_storage(record, basetime=basetime)

    def parsed_from(result, source):
        """`result` is the datetime that the trusted parser returned for exactly `source`"""
        if source is None:
            return result is None
        return any(r is result and v is source for v, r in parse_calls)
    rv = rec_vals
    vc.ensure('from_storage_fields', Eq(st.retries, 0 if rv['retries'] is None else rv['retries']))
    vc.ensure('from_storage_fields', parsed_from(st.delayed, rv['delayed']))
    vc.ensure('from_storage_fields', parsed_from(st.stopped, rv['stopped']))
    vc.ensure('from_storage_fields', parsed_from(st.started, rv['started']) if rv['started'] is not None
              else Eq(st.started.t, now))
    vc.ensure('from_storage_fields', Eq(truthy(st.success), truthy(rv['success'])))
    vc.ensure('from_storage_fields', Eq(truthy(st.failure), truthy(rv['failure'])))
    if rv['purpose'] is None:
        vc.ensure('from_storage_fields', st.purpose is None)
    else:
        vc.ensure('from_storage_fields', If(truthy(rv['purpose']), Eq(st.purpose, rv['purpose']), is_none(st.purpose))
                  if not is_none(st.purpose) else Not(truthy(rv['purpose'])))
    fin = st.finished
    vc.ensure('from_storage_finished', Iff(fin, Or(truthy(rv['success']), truthy(rv['failure']))))
    # restart independence: all remaining fields are determined by (record, basetime), too; the record is
    # only read; the parser is applied to the record's own values only.
    subrefs, message = rv['subrefs'], rv['message']
    vc.ensure('from_storage_restart_independent',
              st.active is False and st.basetime is basetime and st._origin is record
              and st.message == message and list(st.subrefs) == list(subrefs or ()))
    vc.ensure('from_storage_restart_independent',
              list(record) == list(record_before) and all(record[k] is record_before[k] for k in record))
    vc.ensure('from_storage_restart_independent',
              all(any(v is rv[k] for k in ('started', 'stopped', 'delayed')) for v, _ in parse_calls))
    vc.canary('canary.stored_never_finished', Not(fin))
    return ('from_storage', fin, st.retries, st.delayed is None)


# ----------------------------------------------------------------------------------------------- G2
class _HandlerBoom(Exception):
    pass


@harness('G2', targets=[f'{PROG}.HandlerState.with_outcome'], props=['C02', 'C11', 'C10', 'C09', 'C03', 'C06', 'C14', 'C17', 'C20'],
         clauses=['retries_incremented', 'success_iff_final_without_exception', 'failure_iff_final_with_exception',
                  'delayed_is_now_plus_delay', 'started_unchanged', 'stopped_iff_final', 'subrefs_accumulate',
                  'not_awakened_before_delay', 'frame'],
         canaries=['canary.always_finished', 'canary.never_delayed'],
         trusted=['datetime arithmetic as real arithmetic; loop.time() is the ghost clock'])
def G2(vc):
    """
    s' = s.with_outcome(outcome) at time now:  retries' == (retries or 0) + 1;  success' <=> final and
    exception is None;  failure' <=> final and exception is not None;  delayed' == now + delay (None when
    delay is None);  started', basetime', purpose', active', origin' unchanged;  if s was not stopped,
    stopped' is set (== now) iff final;  subrefs' == subrefs + outcome.subrefs as a set; s itself is not
    modified.  Composed with G1 (the extracted `awakened`): at every later clock value t, s' awakened
    implies not final and t >= now + delay -- never sooner than the requested delay.
    """
    clock = Clock('loop.time')
    basetime = draw_sdt(vc, 'basetime')
    HS = load_handler_state(vc, clock)
    s = draw_handler_state(vc, HS, basetime)
    if vc.nondet(2, 'retries is None (record without the counter)?') == 1:
        s = HS(**{**{f.name: getattr(s, f.name) for f in __import__('dataclasses').fields(s)}, 'retries': None})
    retries0 = s.retries
    final = vc.bool('outcome.final')
    delay = vc.opt('outcome.delay', vc.real)
    # every kind of exception an Outcome can carry (X1): the counter must not depend on the kind
    exc = vc.fin('outcome.exception', [None, _HandlerBoom('boom'), execution.TemporaryError('t', delay=1),
                                       execution.HandlerChildrenRetry('c', delay=1), execution.PermanentError('p'),
                                       execution.HandlerTimeoutError('to'), execution.HandlerRetriesError('rt')])
    exc = resolve(exc)
    out_subrefs = resolve(vc.fin('outcome.subrefs', [(), ('h/sub-b', 'h/sub-a')]))
    outcome = execution.Outcome(final=final, delay=delay, result=Opaque('result'), exception=exc, subrefs=out_subrefs)
    before = {f.name: getattr(s, f.name) for f in __import__('dataclasses').fields(s)}
    now = basetime.t + clock.now
    s2 = s.with_outcome(outcome)

    vc.ensure('retries_incremented', Eq(s2.retries, (0 if retries0 is None else retries0) + 1))
    vc.ensure('success_iff_final_without_exception', Iff(truthy(s2.success), And(final, exc is None)))
    vc.ensure('failure_iff_final_with_exception', Iff(truthy(s2.failure), And(final, exc is not None)))
    if delay is None:
        vc.ensure('delayed_is_now_plus_delay', s2.delayed is None)
    else:
        vc.ensure('delayed_is_now_plus_delay', s2.delayed is not None and Eq(s2.delayed.t, now + delay))
    vc.ensure('started_unchanged', s2.started is s.started)
    if s.stopped is None:
        vc.ensure('stopped_iff_final', Iff(s2.stopped is not None, final))
        vc.ensure('stopped_iff_final', s2.stopped is None or Eq(s2.stopped.t, now))
    else:
        vc.ensure('stopped_iff_final', s2.stopped is not None)
    vc.ensure('subrefs_accumulate', set(s2.subrefs) == set(s.subrefs) | set(out_subrefs)
              and len(list(s2.subrefs)) == len(set(s2.subrefs)))
    vc.ensure('frame', s2 is not s and s2.basetime is basetime and Eq(s2.purpose, s.purpose) and Eq(s2.active, s.active)
              and s2._origin is s._origin and type(s2) is type(s))
    vc.ensure('frame', all(getattr(s, k) is v for k, v in before.items()))
    # composed with `awakened` at any later time
    fin2 = s2.finished
    t_then = clock.now
    clock.advance(0)
    aw_later = s2.awakened
    vc.ensure('not_awakened_before_delay', Implies(aw_later, Not(final)))
    if delay is not None:
        vc.ensure('not_awakened_before_delay', Implies(aw_later, clock.now >= t_then + delay))
    vc.canary('canary.always_finished', fin2)
    vc.canary('canary.never_delayed', s2.delayed is None)
    return ('with_outcome', s2.retries, fin2, s2.delayed is None, aw_later)


# ----------------------------------------------------------------------------------------------- G3
def make_stub_handler_state(vc):
    """
    progression.HandlerState *by contract* (G1/G2), as seen by progression.State: `active`, `finished`
    are symbolic booleans, `delayed` an optional datetime; the derivations return fresh objects that
    remember how they were made: as_active (active' = True, rest kept), with_purpose (purpose' set, rest
    kept), with_outcome (G2: finished' <=> outcome.final, active kept), from_scratch (active, unfinished,
    no delay, the given purpose).
    """
    class StubHS:
        made = []

        def __init__(self, tag, *, active, finished, delayed=None, purpose=None, origin=None):
            self.tag, self.active, self.finished, self.delayed, self.purpose, self.origin = \
                tag, active, finished, delayed, purpose, origin
            self.subrefs = ()
            StubHS.made.append(self)

        def __repr__(self):
            return f'<hs {self.tag}>'

        @property
        def success(self):
            raise Unsupported('StubHS.success: not part of the contract used here')

        def as_active(self):
            return StubHS(self.tag + '.as_active', active=True, finished=self.finished, delayed=self.delayed,
                          purpose=self.purpose, origin=('as_active', self))

        def with_purpose(self, purpose):
            return StubHS(self.tag + '.with_purpose', active=self.active, finished=self.finished, delayed=self.delayed,
                          purpose=purpose, origin=('with_purpose', self, purpose))

        def with_outcome(self, outcome):
            return StubHS(self.tag + '.with_outcome', active=self.active, finished=outcome.final, delayed=None,
                          purpose=self.purpose, origin=('with_outcome', self, outcome))

        @classmethod
        def from_scratch(cls, *, basetime, purpose=None):
            return StubHS('scratch', active=True, finished=False, delayed=None, purpose=purpose,
                          origin=('from_scratch', basetime, purpose))

        @classmethod
        def draw(cls, name, *, active=None, with_delay=True):
            return StubHS(name, active=vc.bool(f'{name}.active') if active is None else active,
                          finished=vc.bool(f'{name}.finished'),
                          delayed=vc.opt(f'{name}.delayed', lambda n: draw_sdt(vc, n)) if with_delay else None,
                          purpose=None)
    return StubHS


def load_state(vc, clock, StubHS):
    """The real progression.State with the members under contract re-bound to their extracted source."""
    stubs = time_stubs(clock, HandlerState=StubHS)
    ld = {n: vc.load(PROG, f'State.{n}', stubs=stubs)
          for n in ('done', 'delays', 'delay', 'with_outcomes', 'with_handlers', 'with_purpose')}

    class St(progression.State):
        done = property(lambda self: ld['done'].fn(self))
        delays = property(lambda self: ld['delays'].fn(self))
        delay = property(lambda self: ld['delay'].fn(self))

        def with_outcomes(self, outcomes):
            return ld['with_outcomes'].fn(self, outcomes)

        def with_handlers(self, handlers):
            return ld['with_handlers'].fn(self, handlers)

        def with_purpose(self, purpose, handlers=()):
            return ld['with_purpose'].fn(self, purpose, handlers)
    return St


def all_active_finished(states):
    return And(True, *[Implies(s.active, s.finished) for s in states])


@harness('G3', targets=[f'{PROG}.State.done', f'{PROG}.State.delays', f'{PROG}.State.delay', f'{PROG}.State.with_outcomes',
                        f'{PROG}.State.with_handlers', f'{PROG}.State.with_purpose'],
         props=['C02', 'C06', 'C03', 'C14', 'C11', 'C10', 'C09', 'C05', 'C12', 'C15', 'C17', 'C18', 'C20'],
         prop_clauses={'C14': ['with_purpose_repurposes', 'done_iff_all_active_finished', 'with_outcomes_applies_exactly', 'with_handlers_activates_selected', 'closed_iff_selected_finished']},     # a superseded resume cycle must not lose its finished handlers' records
         clauses=['done_iff_all_active_finished', 'delays_empty_iff_all_active_finished', 'delays_cover_remaining', 'delay_is_min',
                  'with_outcomes_unknown_raises', 'with_outcomes_applies_exactly', 'with_handlers_activates_selected',
                  'with_purpose_repurposes', 'closed_iff_selected_finished', 'immutable'],
         canaries=['canary.always_done', 'canary.never_raises', 'canary.no_delays'],
         trusted=['progression.HandlerState by contract G1/G2 (finished/active/delayed; as_active, with_purpose, '
                  'with_outcome, from_scratch return fresh states)',
                  'dict/comprehension/all() semantics of CPython (the maps are real dicts of 0..3 entries)'],
         assumes=['G3 is proved for states maps of 0..3 entries (ids concrete and distinct, every entry fully '
                  'symbolic); the bodies are element-wise comprehensions, the generalisation to n entries is by '
                  'that structure and not machine-checked'])
def G3(vc):
    """
    progression.State over a map {id: handler state} of 0..3 arbitrary entries (entry contracts: G1/G2):
      done                <=> every ACTIVE entry is finished;
      delays == []        <=> every active entry is finished   (C06: an unfinished active handler always
                              yields a delay entry, so the finalizer cannot be released);
      delays              has exactly one entry per active unfinished handler, each >= 0 and >= the time
                              remaining until its `delayed`;  delay is None iff delays is empty, else its minimum;
      with_outcomes(o)    raises RuntimeError iff o mentions an id not in the state; otherwise the entry of
                              every id in o is replaced by entry.with_outcome(o[id]) (called once), all others
                              are the same objects, ids/purpose/basetime kept;
      with_handlers(hs)   every h in hs gets an active entry: the existing one .as_active(), or a fresh
                              from_scratch(basetime, purpose) one; other entries untouched;
      with_purpose(p, hs) purpose' = p, entries of hs re-purposed, others untouched;
      closed_iff_selected_finished: for a state as restored from storage (all entries passive),
                              s.with_purpose(p).with_handlers(sel).with_outcomes(o).done <=> every selected
                              handler's entry is finished -- neither earlier nor later;
      the receiver is never modified (immutable).
    """
    clock = Clock('loop.time')
    basetime = draw_sdt(vc, 'basetime')
    StubHS = make_stub_handler_state(vc)
    vc.used('progression.HandlerState.finished/active/delayed', 'G1'); vc.used('progression.HandlerState.with_outcome', 'G2')
    St = load_state(vc, clock, StubHS)
    now = basetime.t + clock.now
    scenario = ['done/delays', 'with_outcomes', 'with_handlers/with_purpose', 'cycle'][vc.nondet(4, 'scenario')]

    if scenario == 'done/delays':
        n = vc.nondet(4, 'entries')
        entries = {f'h{i}': StubHS.draw(f'h{i}') for i in range(n)}
        st = St(entries, basetime=basetime, purpose='update')
        spec = all_active_finished(entries.values())
        delays = st.delays
        done = st.done
        vc.ensure('done_iff_all_active_finished', Iff(done, spec))
        vc.ensure('delays_empty_iff_all_active_finished', Iff(len(delays) == 0, spec))
        pending = [e for e in entries.values() if bool(And(e.active, Not(e.finished)))]   # decided by `delays` already
        vc.ensure('delays_cover_remaining', len(delays) == len(pending))
        for d, e in zip(delays, pending):
            vc.ensure('delays_cover_remaining', d >= 0)
            if e.delayed is not None:
                vc.ensure('delays_cover_remaining', d >= e.delayed.t - now)
        delay = st.delay
        vc.ensure('delay_is_min', (delay is None) == (len(delays) == 0))
        if delay is not None:
            vc.ensure('delay_is_min', And(Or(*[Eq(delay, d) for d in delays]), *[delay <= d for d in delays]))
        vc.ensure('immutable', list(st._states.items()) == list(entries.items()))
        vc.canary('canary.always_done', done)
        vc.canary('canary.no_delays', len(delays) == 0)
        return ('done/delays', n, done, len(delays))

    def handler(i):
        return Opaque(f'handler-{i}', id=i)

    if scenario == 'with_outcomes':
        n = vc.nondet(3, 'entries')
        entries = {f'h{i}': StubHS.draw(f'h{i}', with_delay=False) for i in range(n)}
        st = St(entries, basetime=basetime, purpose='update')
        universe = list(entries) + ['zz']
        subsets = [c for r in range(len(universe) + 1) for c in itertools.combinations(universe, r)]
        ids = subsets[vc.nondet(len(subsets), 'ids with outcomes')]
        outcomes = {i: Opaque(f'outcome-{i}', final=vc.bool(f'outcome[{i}].final')) for i in reversed(ids)}
        n_made = len(StubHS.made)
        try:
            st2 = st.with_outcomes(outcomes)
            raised = None
        except RuntimeError as e:
            st2, raised = None, e
        vc.ensure('with_outcomes_unknown_raises', (raised is not None) == ('zz' in ids))
        vc.ensure('immutable', list(st._states.items()) == list(entries.items()))
        vc.canary('canary.never_raises', raised is None)
        if raised is not None:
            return ('with_outcomes', 'raise')
        derived = StubHS.made[n_made:]
        vc.ensure('with_outcomes_applies_exactly', list(st2) == list(entries) and st2.purpose == 'update'
                  and st2.basetime is basetime and st2 is not st and len(derived) == len(ids))
        for i in entries:
            if i in ids:
                vc.ensure('with_outcomes_applies_exactly', st2[i].origin == ('with_outcome', entries[i], outcomes[i])
                          and sum(1 for d in derived if d.origin[1] is entries[i]) == 1)
            else:
                vc.ensure('with_outcomes_applies_exactly', st2[i] is entries[i])
        return ('with_outcomes', 'return', len(ids))

    if scenario == 'with_handlers/with_purpose':
        n = vc.nondet(3, 'entries')
        entries = {f'h{i}': StubHS.draw(f'h{i}', with_delay=False) for i in range(n)}
        st = St(entries, basetime=basetime, purpose=resolve(vc.fin('state.purpose', [None, 'create'])))
        universe = list(entries) + ['new']
        subsets = [c for r in range(len(universe) + 1) for c in itertools.combinations(universe, r)]
        sel = subsets[vc.nondet(len(subsets), 'selected handlers')]
        hs = [handler(i) for i in reversed(sel)]
        if vc.nondet(2, 'with_handlers / with_purpose') == 0:
            st2 = st.with_handlers(iter(hs))
            vc.ensure('with_handlers_activates_selected', set(st2) == set(entries) | set(sel) and st2.purpose == st.purpose
                      and st2.basetime is basetime and st2 is not st)
            for i in st2:
                if i in sel and i in entries:
                    vc.ensure('with_handlers_activates_selected', st2[i].origin == ('as_active', entries[i]))
                elif i in sel:
                    vc.ensure('with_handlers_activates_selected', st2[i].origin == ('from_scratch', basetime, st.purpose))
                else:
                    vc.ensure('with_handlers_activates_selected', st2[i] is entries[i])
                if i in sel:
                    vc.ensure('with_handlers_activates_selected', st2[i].active is True)
        else:
            sel = tuple(i for i in sel if i in entries)     # call sites re-purpose only handlers already in the state
            hs = [handler(i) for i in reversed(sel)]
            st2 = st.with_purpose('resume', iter(hs))
            vc.ensure('with_purpose_repurposes', list(st2) == list(entries) and st2.purpose == 'resume'
                      and st2.basetime is basetime and st2 is not st)
            for i in entries:
                vc.ensure('with_purpose_repurposes', st2[i].origin == ('with_purpose', entries[i], 'resume') if i in sel
                          else st2[i] is entries[i])
        vc.ensure('immutable', list(st._states.items()) == list(entries.items()))
        return ('derive', len(sel))

    # ---- one whole handling cycle at the level of State (as process_changing_cause / subhandling.execute do):
    # restored from storage (G1: every entry passive) -> with_purpose -> with_handlers(selected) -> with_outcomes
    n = vc.nondet(3, 'stored entries')
    entries = {f'h{i}': StubHS.draw(f'h{i}', active=False, with_delay=False) for i in range(n)}
    st = St(entries, basetime=basetime)
    universe = list(entries) + ['new']
    subsets = [c for r in range(len(universe) + 1) for c in itertools.combinations(universe, r)]
    sel = subsets[vc.nondet(len(subsets), 'selected handlers')]
    hs = [handler(i) for i in sel]
    st1 = st.with_purpose('update').with_handlers(hs)
    done1 = st1.done
    vc.ensure('closed_iff_selected_finished', Iff(done1, And(True, *[st1[i].finished for i in sel])))
    vc.ensure('closed_iff_selected_finished', all(bool(Eq(st1[i].finished, entries[i].finished)) for i in sel if i in entries))
    subs = [c for r in range(len(sel) + 1) for c in itertools.combinations(sel, r)]
    executed = subs[vc.nondet(len(subs), 'handlers executed in this round')]
    outcomes = {i: Opaque(f'outcome-{i}', final=vc.bool(f'outcome[{i}].final')) for i in executed}
    st2 = st1.with_outcomes(outcomes)
    done2 = st2.done
    vc.ensure('closed_iff_selected_finished', Iff(done2, And(True, *[st2[i].finished for i in sel])))
    vc.ensure('closed_iff_selected_finished',
              Iff(done2, And(True, *[(outcomes[i].final if i in executed else st1[i].finished) for i in sel])))
    return ('cycle', len(sel), len(executed), done1, done2)


# ----------------------------------------------------------------------------------------------- X3
LIFE = 'kopf._core.actions.lifecycles'


def sub_permutations(items):
    """Every duplicate-free sequence over `items` (the lifecycle contract: plan within todo, no duplicates)."""
    return [p for r in range(len(items) + 1) for p in itertools.permutations(items, r)]


@harness('X3', targets=[f'{LIFE}.all_at_once', f'{LIFE}.one_by_one', f'{LIFE}.asap', f'{LIFE}.randomized', f'{LIFE}.shuffled'],
         props=['C02', 'C03', 'C06', 'C09', 'C10', 'C11', 'C14', 'C15', 'C17', 'C18', 'C20'],
         clauses=['never_raises', 'plan_within_todo', 'no_duplicates', 'progress', 'documented_choice', 'frame'],
         canaries=['canary.plans_everything'],
         trusted=['random.choice(seq): some element of a non-empty seq; random.sample(seq, k): k elements at '
                  'distinct positions of seq, in any order',
                  'sorted()/slicing semantics of CPython on real lists'],
         assumes=['X3 is proved for handler lists of 0..3 entries (all_at_once: additionally for an arbitrary opaque '
                  'collection); user-supplied lifecycles are outside the code base: X2 assumes this contract for them'])
def X3(vc):
    """
    The lifecycle contract that execute_handlers_once (X2) relies on, for each built-in lifecycle, on the list
    `todo` of awakened handlers (0..3 entries, arbitrary recorded retries incl. None) and arbitrary extra kwargs:
    no exception; the plan consists of members of todo only (by identity), without duplicates; a non-empty todo gives a
    non-empty plan (otherwise a due handler would never be invoked); todo and the state are not modified.
    Documented choice: all_at_once -> all of todo in order (for any collection: the same object), one_by_one
    -> the first, asap -> exactly one with the fewest recorded retries, randomized -> exactly one,
    shuffled -> all, each once.
    """
    which = ['all_at_once', 'one_by_one', 'asap', 'randomized', 'shuffled'][vc.nondet(5, 'lifecycle')]

    def choice(seq):
        if len(seq) == 0:
            raise IndexError('Cannot choose from an empty sequence')      # as random.choice does
        return seq[vc.nondet(len(seq), 'random.choice')]

    def sample(seq, k):
        if not 0 <= k <= len(seq):
            raise ValueError('Sample larger than population or is negative')      # as random.sample does
        perms = list(itertools.permutations(range(len(seq)), k))
        return [seq[i] for i in perms[vc.nondet(len(perms), 'random.sample')]]
    ld = vc.load(LIFE, which, stubs={'random.choice': choice, 'random.sample': sample})
    if which == 'all_at_once' and vc.nondet(2, 'bounded list / arbitrary collection') == 1:
        anything = Opaque('handlers of any length', truth=vc.bool('non-empty'))
        plan = ld.fn(anything, state=Opaque('state'), extra=1)
        vc.ensure('documented_choice', plan is anything)
        return ('arbitrary', which)
    n = vc.nondet(4, 'len(todo)')
    todo = [Opaque(f'handler-h{i}', id=f'h{i}') for i in range(n)]
    retries = {}
    for h in todo:
        r = vc.opt(f'retries[{h.id}]', vc.int)
        if r is not None:
            vc.assume(r >= 0, 'recorded attempts are a count')
        retries[h.id] = r
    state = {h.id: Opaque(f'state-{h.id}', retries=retries[h.id]) for h in todo}
    state['other'] = Opaque('state-other', retries=0)
    todo_before, state_before = list(todo), dict(state)
    try:
        plan = list(ld.fn(todo, state=state, body=Opaque('body'), logger=NullLogger(), retry=0))
    except Exception as e:
        vc.ensure('never_raises', False, note=repr(e))
        return ('raise', which, n, type(e).__name__)
    vc.ensure('never_raises', True)
    vc.ensure('plan_within_todo', all(any(p is h for h in todo) for p in plan))
    vc.ensure('no_duplicates', all(p is not q for i, p in enumerate(plan) for q in plan[:i]))
    vc.ensure('progress', len(plan) > 0 or n == 0)
    vc.ensure('frame', len(todo) == len(todo_before) and all(a is b for a, b in zip(todo, todo_before))
              and state == state_before)

    def recorded(h):
        r = retries[h.id]
        return 0 if r is None else r
    if which == 'all_at_once':
        vc.ensure('documented_choice', len(plan) == n and all(a is b for a, b in zip(plan, todo)))
    elif which == 'one_by_one':
        vc.ensure('documented_choice', len(plan) == min(n, 1) and all(p is todo[0] for p in plan))
    elif which == 'asap':
        vc.ensure('documented_choice', len(plan) == min(n, 1))
        for p in plan:
            vc.ensure('documented_choice', And(True, *[recorded(p) <= recorded(h) for h in todo]))
    elif which == 'randomized':
        vc.ensure('documented_choice', len(plan) == min(n, 1))
    else:
        vc.ensure('documented_choice', len(plan) == n)
    vc.canary('canary.plans_everything', len(plan) == n)
    return ('plan', which, n, [p.id for p in plan])


# ----------------------------------------------------------------------------------------------- X2
@harness('X2', targets='kopf._core.actions.execution.execute_handlers_once', props=['C02', 'C11', 'C09', 'C10', 'C20', 'C17', 'C18', 'C03', 'C05', 'C06', 'C08', 'C12', 'C14', 'C15'],
         clauses=['lifecycle_gets_awakened_only', 'invokes_only_awakened_members', 'state_of_that_handler',
                  'each_at_most_once', 'executes_the_plan', 'outcomes_by_id', 'passes_context', 'errors_propagate'],
         canaries=['canary.invokes_all_handlers', 'canary.never_raises'],
         trusted=['lifecycle(todo, state=, **kwargs): a duplicate-free sequence of members of todo -- proved for the '
                  'built-ins (X3), ASSUMED for user-supplied lifecycles',
                  'execute_handler_once by contract X1: returns an Outcome; only cancellation / non-Exception '
                  'BaseExceptions escape'],
         assumes=['X2 is proved for 0..3 registered handlers with arbitrary awakened flags, every plan allowed by the '
                  'lifecycle contract and every position of an escaping cancellation; precondition (all call sites: '
                  'state = ....with_handlers(handlers)): state[h.id] exists for every h in handlers'])
def X2(vc):
    """
    execute_handlers_once(lifecycle, settings, handlers, cause, state, ...): the lifecycle is asked exactly once,
    with todo == the handlers whose state[h.id].awakened holds (registration order), the state and cause.kwargs.
    Relative to the lifecycle contract (plan within todo, no duplicates) every call
    execute_handler_once(handler=h, state=s, ...) satisfies  h in handlers,  s is state[h.id],  s.awakened,  and
    no handler is executed twice -- so (with G1: awakened ==> not finished and not before `delayed`) a handler whose
    success/failure is recorded is never invoked, and the invoked one gets its own record (retry == its recorded
    attempts by X1).  All planned handlers are executed in plan order, the result maps exactly their ids to their
    outcomes, the context arguments are passed through, and an exception escaping from execute_handler_once
    (cancellation) propagates at once: no further handler is started.
    """
    n = vc.nondet(4, 'len(handlers)')
    handlers = [Opaque(f'handler-h{i}', id=f'h{i}') for i in range(n)]
    entries = {h.id: Opaque(f'state[{h.id}]', awakened=vc.bool(f'state[{h.id}].awakened')) for h in handlers}
    entries['unrelated'] = Opaque('state[unrelated]', awakened=vc.bool('state[unrelated].awakened'))
    lookups = []

    class State(execution.State):
        def __getitem__(self, k): lookups.append(k); return entries[k]
        def __iter__(self): return iter(entries)
        def __len__(self): return len(entries)
    state = State()
    cause = Opaque('cause', kwargs={'body': Opaque('body'), 'retry': 0}, logger=NullLogger())
    settings, extra_context = Opaque('settings'), Opaque('extra_context')
    default_errors = resolve(vc.fin('default_errors', list(execution.ErrorsMode)))
    lifecycle_calls = []

    def lifecycle(todo, **kw):
        lifecycle_calls.append((list(todo), kw))
        options = sub_permutations(list(todo))
        plans.append(list(options[vc.nondet(len(options), 'lifecycle plan (any allowed by its contract)')]))
        return iter(plans[-1])        # any iterable
    plans = []
    vc.used('lifecycle', 'X3')
    calls, results, boom = [], [], []

    async def execute_handler_once(**kw):
        calls.append(kw)
        await suspend('execute_handler_once')
        if vc.nondet(2, 'execute_handler_once: returns / cancelled') == 1:
            boom.append(__import__('asyncio').CancelledError())
            raise boom[0]
        results.append(Opaque(f'outcome#{len(results)}'))
        return results[-1]
    vc.used('execution.execute_handler_once', 'X1')
    ld = vc.load('kopf._core.actions.execution', 'execute_handlers_once', stubs={'execute_handler_once': execute_handler_once})
    escaped = out = None
    try:
        out = vc.drive(ld.fn(lifecycle=lifecycle, settings=settings, handlers=handlers, cause=cause, state=state,
                             extra_context=extra_context, default_errors=default_errors))
    except BaseException as e:
        if isinstance(e, (PathEnd, Unsupported)):
            raise
        escaped = e
    vc.ensure('lifecycle_gets_awakened_only', len(lifecycle_calls) == 1)
    if len(lifecycle_calls) != 1:
        return ('no-plan',)
    todo, lkw = lifecycle_calls[0]
    spec_todo = [h for h in handlers if bool(entries[h.id].awakened)]      # decided already by the function's own reads
    vc.ensure('lifecycle_gets_awakened_only', len(todo) == len(spec_todo) and all(a is b for a, b in zip(todo, spec_todo)))
    vc.ensure('lifecycle_gets_awakened_only', lkw.get('state') is state
              and {k: v for k, v in lkw.items() if k != 'state'} == cause.kwargs)
    for kw in calls:
        h = kw['handler']
        vc.ensure('invokes_only_awakened_members', any(h is x for x in handlers))
        vc.ensure('invokes_only_awakened_members', entries[h.id].awakened)
        vc.ensure('state_of_that_handler', kw['state'] is entries[h.id])
        vc.ensure('passes_context', kw['settings'] is settings and kw['cause'] is cause and kw['lifecycle'] is lifecycle
                  and kw['extra_context'] is extra_context and kw['default_errors'] is default_errors)
    vc.ensure('each_at_most_once', all(a['handler'] is not b['handler'] for i, a in enumerate(calls) for b in calls[:i]))
    vc.ensure('errors_propagate', (escaped is boom[0]) if boom else (escaped is None))
    vc.canary('canary.never_raises', escaped is None)
    if escaped is not None:
        vc.ensure('errors_propagate', calls[-1] is calls[len(results)] and len(calls) == len(results) + 1)
        return ('raise', len(calls))
    vc.ensure('executes_the_plan', len(calls) == len(plans[0]) and all(kw['handler'] is p for kw, p in zip(calls, plans[0])))
    vc.ensure('outcomes_by_id', isinstance(out, dict) and list(out) == [kw['handler'].id for kw in calls]
              and all(out[kw['handler'].id] is r for kw, r in zip(calls, results)))
    vc.canary('canary.invokes_all_handlers', len(calls) == n)
    return ('return', n, [kw['handler'].id for kw in calls])


# ----------------------------------------------------------------------------------------------- H8
class _Var:
    """contextvars.ContextVar by contract: a cell with get()/set()."""
    def __init__(self, name, value):
        self.name, self.value, self.sets = name, value, []

    def get(self, *default):
        return self.value

    def set(self, value):
        self.sets.append(value)
        self.value = value


class _CycleState:
    """progression.State by contract (G3) as seen by subhandling.execute: every derivation is a fresh abstract
    state that remembers how it was made; `done`/`delay`/the ids of the final state are symbolic/arbitrary."""
    def __init__(self, vc, tag, parent=None, args=None):
        self.vc, self.tag, self.parent, self.args = vc, tag, parent, args
        self._done = self._delay = None

    def _derive(self, tag, *args):
        s = _CycleState(self.vc, tag, self, args)
        self.vc.emit('state.' + tag, s)
        return s

    def with_purpose(self, purpose, handlers=()): return self._derive('with_purpose', purpose, handlers)
    def with_handlers(self, handlers): return self._derive('with_handlers', handlers)
    def with_outcomes(self, outcomes): return self._derive('with_outcomes', outcomes)

    def lineage(self):
        out, s = [], self
        while s is not None:
            out.append((s.tag, s.args)); s = s.parent
        return out[::-1]

    @property
    def done(self):
        if self._done is None:
            self._done = self.vc.bool(f'done[{self.tag}]')
        return self._done

    @property
    def delay(self):
        if self._delay is None:
            self._delay = (self.vc.opt(f'delay[{self.tag}]', self.vc.real),)
        return self._delay[0]

    KEYS = ('parent/sub-a', 'parent/sub-b', 'stale/other')

    def __iter__(self):
        return iter(self.KEYS)

    def store(self, body, patch, storage): self.vc.emit('store', self, body, patch, storage)


@harness('H8', targets='kopf._core.reactor.subhandling.execute', props=['C02', 'C11', 'C06', 'C03', 'C16', 'C08', 'C15'],
         prop_clauses={'C08': ['stored_before_escalation'], 'C15': ['state_threaded', 'registry_from_arguments']},
         clauses=['children_retry_iff_not_done', 'state_threaded', 'stored_before_escalation', 'subrefs_registered',
                  'implicit_once', 'registry_from_arguments', 'rejects_bad_usage', 'errors_propagate'],
         canaries=['canary.never_retries', 'canary.always_executes'],
         trusted=['progression.State by contract G3/G4 (from_storage/with_purpose/with_handlers/with_outcomes/done/delay/'
                  'store)', 'execution.execute_handlers_once by contract X2',
                  'registries.ChangingRegistry.append/get_resource_handlers/get_handlers by contract R1',
                  'contextvars as plain cells (set by execution.invoke_handler for the running handler)'])
def H8(vc):
    """
    kopf.execute() inside a handler: the sub-handlers are executed against the progress restored from the
    object -- from_storage(body=cause.body, storage=settings.persistence.progress_storage, handlers=<owned>)
    .with_purpose(cause.reason).with_handlers(<selected>) -- by execute_handlers_once (X2: only awakened ones,
    with their own records); the outcomes are merged and the new state is stored into cause.patch; then
    HandlerChildrenRetry(delay=state.delay) is raised IFF that state is not done -- so (X1) the parent's outcome
    is not final while any sub-handler is unfinished, and the parent can finish once they all are.  Every id of the
    final state is added to every subrefs container of the enclosing handlers (for the final purge).  Implicit
    use (no arguments) runs at most once per parent invocation.  Sub-handler ids are prefixed with the parent's
    id.  Wrong usage (several sources, fns of a wrong kind, a non-changing cause) raises before anything is
    executed or stored; an exception out of execute_handlers_once propagates with nothing stored.
    """
    from kopf._core.intents import causes, handlers as handlers_
    mode = ['implicit', 'implicit-again', 'fns-mapping', 'fns-iterable', 'fns-bad', 'handlers', 'registry', 'two-sources',
            'wrong-cause'][vc.nondet(9, 'usage')]
    body, patch, resource = Opaque('body'), Opaque('patch'), Opaque('resource')
    reason = resolve(vc.fin('cause.reason', [causes.Reason.CREATE, causes.Reason.UPDATE, causes.Reason.RESUME]))

    class ChangingCause(causes.ChangingCause):
        def __init__(self): pass
    cause = ChangingCause()
    cause.body, cause.patch, cause.resource, cause.reason, cause.logger = body, patch, resource, reason, NullLogger()
    if mode == 'wrong-cause':
        cause = Opaque('daemon-cause', body=body, patch=patch, resource=resource, reason=reason)
    parent = Opaque('parent-handler', id='parent')
    storage = Opaque('progress_storage')
    settings = Opaque('settings', persistence=Opaque('persistence', progress_storage=storage))
    default_lifecycle, context_lifecycle, given_lifecycle = Opaque('default-lifecycle'), Opaque('context-lifecycle'), Opaque('given-lifecycle')
    lc = vc.nondet(3, 'lifecycle: argument / context / default')
    containers = [{'grand/x'}, set()]
    containers_before = [set(c) for c in containers]
    V = dict(sublifecycle_var=_Var('sublifecycle', context_lifecycle if lc == 1 else None),
             cause_var=_Var('cause', cause), handler_var=_Var('handler', parent),
             subsettings_var=_Var('subsettings', settings), subrefs_var=_Var('subrefs', containers))
    subexecuted = _Var('subexecuted', mode == 'implicit-again')
    owned, selected = Opaque('owned_handlers'), Opaque('cause_handlers', truth=vc.bool('selected-nonempty'))

    class Registry:
        made = []

        def __init__(self):
            self.appended = []
            Registry.made.append(self)

        def append(self, handler): self.appended.append(handler)
        def get_resource_handlers(self, resource): vc.emit('get_resource_handlers', self, resource); return owned
        def get_handlers(self, cause): vc.emit('get_handlers', self, cause); return selected
    vc.used('registries.ChangingRegistry', 'R1')
    context_registry, given_registry = Registry(), Registry()
    Registry.made.clear()
    subregistry = _Var('subregistry', context_registry)

    def generate_id(fn, id, prefix=None, suffix=None):
        return f'{prefix}/{id if id is not None else fn.__name__}'
    s0 = _CycleState(vc, 'from_storage')

    class StateCls:
        @staticmethod
        def from_storage(*, body, storage, handlers):
            vc.emit('from_storage', body, storage, handlers); return s0
    outcomes = Opaque('outcomes')
    boom = []

    async def execute_handlers_once(**kw):
        vc.emit('execute', kw)
        await suspend('execute_handlers_once')
        if vc.nondet(2, 'execute_handlers_once: returns / cancelled') == 1:
            boom.append(__import__('asyncio').CancelledError())
            raise boom[0]
        return outcomes
    vc.used('execution.execute_handlers_once', 'X2'); vc.used('progression.State', 'G3')
    stubs = {f'execution.{k}': v for k, v in V.items()}
    stubs.update({'execution.execute_handlers_once': execute_handlers_once,
                  'lifecycles.get_default_lifecycle': lambda: default_lifecycle,
                  'subexecuted_var': subexecuted, 'subregistry_var': subregistry,
                  'registries.ChangingRegistry': Registry, 'registries.generate_id': generate_id,
                  'progression.State': StateCls,
                  'progression.deliver_results': lambda **kw: vc.emit('deliver_results', kw)})
    ld = vc.load('kopf._core.reactor.subhandling', 'execute', stubs=stubs)

    def fn_a(**_): pass
    def fn_b(**_): pass
    pre_made = handlers_.ChangingHandler(
        fn=fn_a, id='explicit-id', param=None, errors=None, timeout=None, retries=None, backoff=None, selector=None,
        labels=None, annotations=None, when=None, initial=None, deleted=None, requires_finalizer=None, reason=None,
        field=None, value=None, old=None, new=None, field_needs_change=None)
    kwargs = {'implicit': {}, 'implicit-again': {}, 'fns-mapping': {'fns': {'x': fn_a, 'y': fn_b}},
              'fns-iterable': {'fns': [fn_a, fn_b]}, 'fns-bad': {'fns': 42}, 'handlers': {'handlers': [pre_made]},
              'registry': {'registry': given_registry}, 'two-sources': {'fns': [fn_a], 'registry': given_registry},
              'wrong-cause': {'registry': given_registry}}[mode]
    if lc == 0:
        kwargs['lifecycle'] = given_lifecycle
    if vc.nondet(2, 'cause: from the context / as an argument') == 1:
        V['cause_var'].value = Opaque('another-cause-in-context')
        kwargs['cause'] = cause
    escaped = None
    try:
        result = vc.drive(ld.fn(**kwargs))
    except BaseException as e:
        if isinstance(e, (PathEnd, Unsupported)):
            raise
        escaped = e
    tr = vc.trace
    names = [ev[0] for ev in tr]
    executed = 'execute' in names
    vc.canary('canary.always_executes', executed)
    untouched = all(c == b for c, b in zip(containers, containers_before)) and 'store' not in names \
        and 'deliver_results' not in names
    if mode in ('fns-bad', 'two-sources', 'wrong-cause'):
        expected = {'fns-bad': ValueError, 'two-sources': TypeError, 'wrong-cause': RuntimeError}[mode]
        vc.ensure('rejects_bad_usage', type(escaped) is expected and not executed and untouched)
        return ('rejected', mode, type(escaped).__name__)
    if mode == 'implicit-again':
        vc.ensure('implicit_once', escaped is None and not executed and untouched and 'from_storage' not in names)
        return ('skipped', mode)
    if mode == 'implicit':
        vc.ensure('implicit_once', subexecuted.value is True)
    else:
        vc.ensure('implicit_once', subexecuted.value is False and not subexecuted.sets)
    vc.ensure('state_threaded', executed and names.count('execute') == 1)
    if not executed:
        return ('not-executed', mode)
    # which registry, built how
    reg = {'implicit': context_registry, 'registry': given_registry}.get(mode) or (Registry.made[0] if Registry.made else None)
    vc.ensure('registry_from_arguments', reg is not None and len(Registry.made) == (0 if mode in ('implicit', 'registry') else 1))
    if mode in ('fns-mapping', 'fns-iterable'):
        vc.ensure('registry_from_arguments', [(h.id, h.fn) for h in reg.appended] ==
                  ([('parent/x', fn_a), ('parent/y', fn_b)] if mode == 'fns-mapping' else [('parent/fn_a', fn_a), ('parent/fn_b', fn_b)]))
    elif mode == 'handlers':
        vc.ensure('registry_from_arguments', len(reg.appended) == 1 and reg.appended[0] is pre_made)
    else:
        vc.ensure('registry_from_arguments', reg.appended == [])
    for ev in tr:
        if ev[0] in ('get_resource_handlers', 'get_handlers'):
            vc.ensure('registry_from_arguments', ev[1] is reg and ev[2] is (resource if ev[0] == 'get_resource_handlers' else cause))
    # the state handed to the execution: restored from the object, for this purpose, with the selected handlers
    kw = [ev[1] for ev in tr if ev[0] == 'execute'][0]
    lifecycle_spec = [given_lifecycle, context_lifecycle, default_lifecycle][lc]
    vc.ensure('state_threaded', [ev[1:] for ev in tr if ev[0] == 'from_storage'] == [(body, storage, owned)])
    vc.ensure('state_threaded', isinstance(kw['state'], _CycleState) and kw['state'].lineage() ==
              [('from_storage', None), ('with_purpose', (reason, ())), ('with_handlers', (selected,))])
    vc.ensure('state_threaded', kw['handlers'] is selected and kw['cause'] is cause and kw['settings'] is settings
              and kw['lifecycle'] is lifecycle_spec)
    if boom:
        vc.ensure('errors_propagate', escaped is boom[0] and untouched)
        return ('cancelled', mode)
    final = [ev[1] for ev in tr if ev[0] == 'state.with_outcomes']
    vc.ensure('state_threaded', len(final) == 1 and final[0].parent is kw['state'] and final[0].args == (outcomes,))
    final = final[0]
    stores = [ev for ev in tr if ev[0] == 'store']
    vc.ensure('stored_before_escalation', len(stores) == 1 and stores[0][1:] == (final, body, patch, storage))
    delivered = [ev[1] for ev in tr if ev[0] == 'deliver_results']
    vc.ensure('stored_before_escalation', delivered == [{'outcomes': outcomes, 'patch': patch}])
    vc.ensure('subrefs_registered', all(c == b | set(final.KEYS) for c, b in zip(containers, containers_before))
              and V['subrefs_var'].value is containers and len(containers) == 2)
    retry = isinstance(escaped, execution.HandlerChildrenRetry)
    vc.ensure('children_retry_iff_not_done', Iff(retry, Not(final.done)))
    vc.ensure('children_retry_iff_not_done', retry or escaped is None)
    if retry:
        vc.ensure('children_retry_iff_not_done', escaped.delay is final.delay if final.delay is None
                  else Eq(escaped.delay, final.delay))
    vc.canary('canary.never_retries', not retry)
    return ('executed', mode, retry)
