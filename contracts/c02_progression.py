"""Contracts for the recorded handler progress (C02/C11/C06): progression.HandlerState (G1, G2),
progression.State (G3), execution.execute_handlers_once (X2), the built-in lifecycles (X3) and
subhandling.execute (H8).

Time model (all harnesses here): `datetime.datetime` is a real number of seconds since an arbitrary
epoch (pyvc.stubs.SDt), `datetime.timedelta` a real number of seconds (STd), the event-loop clock a
ghost real (Clock);  now == basetime + loop.time().  Floats are mathematical reals (no rounding).
"""
import itertools

from pyvc import *
from pyvc.stubs import Opaque, NullLogger, Clock, StubLoop, STd, SDt, StubDatetimeModule
from kopf._core.actions import execution, progression

PROG = 'kopf._core.actions.progression'


def truthy(x):
    return x.truth() if isinstance(x, SV) else bool(x)


def is_none(x):
    return x is None


def time_stubs(clock, **extra):
    stubs = {'datetime': StubDatetimeModule, 'asyncio.get_running_loop': lambda: StubLoop(clock)}
    stubs.update(extra)
    return stubs


def load_handler_state(vc, clock, parse_iso8601=None):
    """
    The real dataclass progression.HandlerState, with the members under contract re-bound to their
    mechanically extracted real source (so that `self.finished` inside `sleeping`, `type(self)(...)`
    inside `with_outcome` etc. run the extracted code with the time stubs, too).  Everything else
    (fields, __init__, dataclasses.replace, as_active, with_purpose) is the real class.
    """
    stubs = time_stubs(clock)
    if parse_iso8601 is not None:
        stubs['parse_iso8601'] = parse_iso8601
    ld = {n: vc.load(PROG, f'HandlerState.{n}', stubs=stubs)
          for n in ('finished', 'sleeping', 'awakened', 'runtime', 'with_outcome', 'from_storage')}

    class HS(progression.HandlerState):
        finished = property(lambda self: ld['finished'].fn(self))
        sleeping = property(lambda self: ld['sleeping'].fn(self))
        awakened = property(lambda self: ld['awakened'].fn(self))
        runtime = property(lambda self: ld['runtime'].fn(self))

        def with_outcome(self, outcome):
            return ld['with_outcome'].fn(self, outcome)

        @classmethod
        def from_storage(cls, record, *, basetime):
            return ld['from_storage'].fn(cls, record, basetime=basetime)
    return HS


def draw_sdt(vc, name):
    return SDt(vc.real(name))


def draw_handler_state(vc, HS, basetime, name='s', retries_opt=False):
    """An arbitrary HandlerState (every field that the contracts mention is symbolic)."""
    retries = vc.int(f'{name}.retries')
    vc.assume(retries >= 0, 'recorded attempts are a count')
    return HS(active=vc.bool(f'{name}.active'), basetime=basetime,
              started=draw_sdt(vc, f'{name}.started'),
              stopped=vc.opt(f'{name}.stopped', lambda n: draw_sdt(vc, n)),
              delayed=vc.opt(f'{name}.delayed', lambda n: draw_sdt(vc, n)),
              purpose=vc.fin(f'{name}.purpose', [None, 'create', 'update']),
              retries=retries, success=vc.bool(f'{name}.success'), failure=vc.bool(f'{name}.failure'),
              message=None, subrefs=('h/sub-a',), _origin=None)


# ----------------------------------------------------------------------------------------------- G1
@harness('G1', targets=[f'{PROG}.HandlerState.finished', f'{PROG}.HandlerState.sleeping',
                        f'{PROG}.HandlerState.awakened', f'{PROG}.HandlerState.runtime',
                        f'{PROG}.HandlerState.from_storage'],
         props=['C02', 'C11'],
         clauses=['finished_def', 'sleeping_def', 'awakened_not_before_delay', 'awakened_when_due', 'runtime_def',
                  'from_storage_fields', 'from_storage_finished', 'from_storage_restart_independent'],
         canaries=['canary.never_sleeping', 'canary.never_awakened', 'canary.stored_never_finished'],
         trusted=['parse_iso8601 (iso8601.parse_date): None -> None, a string -> some datetime (uninterpreted; '
                  'round trip with format_iso8601 is the bounded clause G4)',
                  'datetime arithmetic as real arithmetic; loop.time() is the ghost clock'])
def G1(vc):
    """
    For an arbitrary handler state s and an arbitrary clock value (now = basetime + loop.time()):
      finished  <=> truthy(success) or truthy(failure);
      sleeping  <=> not finished and delayed is not None and delayed > now;
      awakened  ==> not finished and (delayed is None or delayed <= now)   -- a handler is never awakened
                    before its recorded delay, nor once its success/failure is recorded; and conversely
                    (awakened_when_due) an unfinished handler whose delay has passed is awakened;
      runtime   == now - started.
    from_storage(record, basetime): every field of the result is a function of the record, the basetime
    argument and the clock only (hence independent of the process' memory: restarts): finished <=>
    truthy(record.success) or truthy(record.failure); retries == record.retries or 0; delayed/stopped ==
    parse(record.delayed/stopped) (None for None/absent); started == parse(record.started) or now;
    purpose == record.purpose or None; the result is passive (active=False) and remembers the record as
    its origin; the record is not modified; nothing else is parsed.
    """
    clock = Clock('loop.time')
    basetime = draw_sdt(vc, 'basetime')
    parse_calls = []

    def parse_iso8601(val):
        if val is None:
            return None
        r = draw_sdt(vc, 'parse_iso8601()')          # uninterpreted: any datetime
        parse_calls.append((val, r))
        return r
    HS = load_handler_state(vc, clock, parse_iso8601)
    now = basetime.t + clock.now

    if vc.nondet(2, 'scenario: state predicates / from_storage') == 0:
        s = draw_handler_state(vc, HS, basetime)
        fin_spec = Or(s.success, s.failure)
        fin = s.finished
        vc.ensure('finished_def', Iff(fin, fin_spec))
        sl = s.sleeping
        due_later = False if s.delayed is None else (s.delayed.t > now)
        vc.ensure('sleeping_def', Iff(sl, And(Not(fin_spec), due_later)))
        aw = s.awakened
        vc.ensure('awakened_not_before_delay', Implies(aw, And(Not(fin_spec), Not(due_later))))
        vc.ensure('awakened_when_due', Implies(And(Not(fin_spec), Not(due_later)), aw))
        rt = s.runtime
        vc.ensure('runtime_def', Eq(rt.total_seconds(), now - s.started.t))
        vc.canary('canary.never_sleeping', Not(sl))
        vc.canary('canary.never_awakened', Not(aw))
        return ('predicates', fin, sl, aw)

    # ---- from_storage: an arbitrary record as written by for_storage (ProgressRecord; every value may
    # be None or the key may be missing altogether -- Kubernetes drops nulls)
    passive = resolve(vc.fin('rec.stopped/message/subrefs', [(False, None, None), (True, 'boo!', ['h/a', 'h/b'])]))
    rec_vals = dict(
        started=vc.opt('rec.started', vc.str), stopped=vc.str('rec.stopped') if passive[0] else None,
        delayed=vc.opt('rec.delayed', vc.str), purpose=vc.opt('rec.purpose', vc.str),
        retries=vc.opt('rec.retries', vc.int), success=vc.fin('rec.success', [None, False, True]),
        failure=vc.fin('rec.failure', [None, False, True]), message=passive[1], subrefs=passive[2])
    if rec_vals['retries'] is not None:
        vc.assume(rec_vals['retries'] >= 0, 'recorded attempts are a count')
    drop_nulls = vc.nondet(2, 'None-valued keys present / absent') == 1
    record = {k: v for k, v in rec_vals.items() if not (drop_nulls and v is None)}
    record_before = dict(record)
    st = HS.from_storage(record, basetime=basetime)

    def parsed_from(result, source):
        """`result` is the datetime that the trusted parser returned for exactly `source`"""
        if source is None:
            return result is None
        return any(r is result and v is source for v, r in parse_calls)
    rv = rec_vals
    vc.ensure('from_storage_fields', Eq(st.retries, 0 if rv['retries'] is None else rv['retries']))
    vc.ensure('from_storage_fields', parsed_from(st.delayed, rv['delayed']))
    vc.ensure('from_storage_fields', parsed_from(st.stopped, rv['stopped']))
    vc.ensure('from_storage_fields', parsed_from(st.started, rv['started']) if rv['started'] is not None
              else Eq(st.started.t, now))
    vc.ensure('from_storage_fields', Eq(truthy(st.success), truthy(rv['success'])))
    vc.ensure('from_storage_fields', Eq(truthy(st.failure), truthy(rv['failure'])))
    if rv['purpose'] is None:
        vc.ensure('from_storage_fields', st.purpose is None)
    else:
        vc.ensure('from_storage_fields', If(truthy(rv['purpose']), Eq(st.purpose, rv['purpose']), is_none(st.purpose))
                  if not is_none(st.purpose) else Not(truthy(rv['purpose'])))
    fin = st.finished
    vc.ensure('from_storage_finished', Iff(fin, Or(truthy(rv['success']), truthy(rv['failure']))))
    # restart independence: all remaining fields are determined by (record, basetime), too; the record is
    # only read; the parser is applied to the record's own values only.
    subrefs, message = rv['subrefs'], rv['message']
    vc.ensure('from_storage_restart_independent',
              st.active is False and st.basetime is basetime and st._origin is record
              and st.message == message and list(st.subrefs) == list(subrefs or ()))
    vc.ensure('from_storage_restart_independent',
              list(record) == list(record_before) and all(record[k] is record_before[k] for k in record))
    vc.ensure('from_storage_restart_independent',
              all(any(v is rv[k] for k in ('started', 'stopped', 'delayed')) for v, _ in parse_calls))
    vc.canary('canary.stored_never_finished', Not(fin))
    return ('from_storage', fin, st.retries, st.delayed is None)


# ----------------------------------------------------------------------------------------------- G2
class _HandlerBoom(Exception):
    pass


@harness('G2', targets=[f'{PROG}.HandlerState.with_outcome'], props=['C02', 'C11'],
         clauses=['retries_incremented', 'success_iff_final_without_exception', 'failure_iff_final_with_exception',
                  'delayed_is_now_plus_delay', 'started_unchanged', 'stopped_iff_final', 'subrefs_accumulate',
                  'not_awakened_before_delay', 'frame'],
         canaries=['canary.always_finished', 'canary.never_delayed'],
         trusted=['datetime arithmetic as real arithmetic; loop.time() is the ghost clock'])
def G2(vc):
    """
    s' = s.with_outcome(outcome) at time now:  retries' == (retries or 0) + 1;  success' <=> final and
    exception is None;  failure' <=> final and exception is not None;  delayed' == now + delay (None when
    delay is None);  started', basetime', purpose', active', origin' unchanged;  if s was not stopped,
    stopped' is set (== now) iff final;  subrefs' == subrefs + outcome.subrefs as a set; s itself is not
    modified.  Composed with G1 (the extracted `awakened`): at every later clock value t, s' awakened
    implies not final and t >= now + delay -- never sooner than the requested delay.
    """
    clock = Clock('loop.time')
    basetime = draw_sdt(vc, 'basetime')
    HS = load_handler_state(vc, clock)
    s = draw_handler_state(vc, HS, basetime)
    if vc.nondet(2, 'retries is None (record without the counter)?') == 1:
        s = HS(**{**{f.name: getattr(s, f.name) for f in __import__('dataclasses').fields(s)}, 'retries': None})
    retries0 = s.retries
    final = vc.bool('outcome.final')
    delay = vc.opt('outcome.delay', vc.real)
    exc = vc.fin('outcome.exception', [None, _HandlerBoom('boom')])
    exc = resolve(exc)
    out_subrefs = resolve(vc.fin('outcome.subrefs', [(), ('h/sub-b', 'h/sub-a')]))
    outcome = execution.Outcome(final=final, delay=delay, result=Opaque('result'), exception=exc, subrefs=out_subrefs)
    before = {f.name: getattr(s, f.name) for f in __import__('dataclasses').fields(s)}
    now = basetime.t + clock.now
    s2 = s.with_outcome(outcome)

    vc.ensure('retries_incremented', Eq(s2.retries, (0 if retries0 is None else retries0) + 1))
    vc.ensure('success_iff_final_without_exception', Iff(truthy(s2.success), And(final, exc is None)))
    vc.ensure('failure_iff_final_with_exception', Iff(truthy(s2.failure), And(final, exc is not None)))
    if delay is None:
        vc.ensure('delayed_is_now_plus_delay', s2.delayed is None)
    else:
        vc.ensure('delayed_is_now_plus_delay', s2.delayed is not None and Eq(s2.delayed.t, now + delay))
    vc.ensure('started_unchanged', s2.started is s.started)
    if s.stopped is None:
        vc.ensure('stopped_iff_final', Iff(s2.stopped is not None, final))
        vc.ensure('stopped_iff_final', s2.stopped is None or Eq(s2.stopped.t, now))
    else:
        vc.ensure('stopped_iff_final', s2.stopped is not None)
    vc.ensure('subrefs_accumulate', set(s2.subrefs) == set(s.subrefs) | set(out_subrefs)
              and len(list(s2.subrefs)) == len(set(s2.subrefs)))
    vc.ensure('frame', s2 is not s and s2.basetime is basetime and Eq(s2.purpose, s.purpose) and Eq(s2.active, s.active)
              and s2._origin is s._origin and type(s2) is type(s))
    vc.ensure('frame', all(getattr(s, k) is v for k, v in before.items()))
    # composed with `awakened` at any later time
    fin2 = s2.finished
    t_then = clock.now
    clock.advance(0)
    aw_later = s2.awakened
    vc.ensure('not_awakened_before_delay', Implies(aw_later, Not(final)))
    if delay is not None:
        vc.ensure('not_awakened_before_delay', Implies(aw_later, clock.now >= t_then + delay))
    vc.canary('canary.always_finished', fin2)
    vc.canary('canary.never_delayed', s2.delayed is None)
    return ('with_outcome', s2.retries, fin2, s2.delayed is None, aw_later)
