"""Round-11 contracts: structure-independent companions (`sizes_only=True`) of contracts that are anchored to the loop
structure of their targets.

Round 11 asked for property-breaking changes in the SHAPE OF A REFACTORING.  Four of them left the anchored contracts
undecided (exit 2/3: "loop contract anchor does not match", "definition not found", "native iteration over an abstract
collection"): the registries' gates rewritten over a shared de-duplicating helper (C15-11), the two loops of
`OperatorIndexers.replace` merged into a `match` (C17-11), the peers parsed through a cached helper (C13-11), `keepalive`
split into a context manager and a rotated loop (C20-11).  The harnesses here state the same contracts on the real code
run NATIVELY -- real registries filled through the public decorators, real indices, real Peer objects, helpers the
refactoring introduces included -- for small stated sizes; module globals the code reaches from natively-run helpers
(`touch`, `asyncio.sleep`, `datetime`) are replaced in the (forked, per-harness) process.  Exhaustive for the sizes,
labelled B in the evidence, never counted as proved."""
import asyncio
import contextlib
import datetime as _dt
import types

from pyvc import *
from pyvc.stubs import Opaque, NullLogger

from kopf._cogs.structs import bodies
from kopf._core.actions import execution
from kopf._core.engines import indexing, peering
from kopf._core.intents import registries


@contextlib.contextmanager
def patched(module, **attrs):
    old = {k: getattr(module, k) for k in attrs}
    for k, v in attrs.items():
        setattr(module, k, v)
    try:
        yield
    finally:
        for k, v in old.items():
            setattr(module, k, v)


def _not_ours(e):
    return isinstance(e, (PathEnd, Unsupported))


# =============================================================================================== R2n
@harness('R2n', targets=['kopf._core.intents.registries.ChangingRegistry.prematch', 'kopf._core.intents.registries.ChangingRegistry.requires_finalizer',
                         'kopf._core.intents.registries.SpawningRegistry.requires_finalizer', 'kopf._core.intents.registries.ResourceRegistry.has_handlers',
                         'kopf._core.intents.registries.ResourceRegistry.iter_extra_fields'],
         props=['C15', 'C06'], sizes_only=True,
         clauses=['gate_is_any_registered_handler', 'finalizer_iff_some_requiring_handler', 'has_handlers_iff_some_serves',
                  'extra_fields_of_every_serving_handler'],
         canaries=['canary.gate_always_open', 'canary.gate_always_shut'],
         trusted=['registries.prematch / match / _matches_resource (module level) by contracts R12, R10, R11, R14 (run as real code here: they ARE the oracle per handler)',
                  'the public decorators kopf.on.* by contract R15 (run as real code)'],
         assumes=['two registrations on one resource kind through the public decorators; each: kind in {create, update, delete (mandatory), '
                  'delete (optional)}, labels criterion in {none, tier=gold, tier=silver}, field in {none, spec.x}; the SAME function and id for '
                  'all of them or distinct ones; objects with labels tier in {absent, gold, silver}; changing causes of the reasons create/update/delete'])
def R2n(vc):
    """
    The registry-level gates that processing.process_resource_causes asks before it looks at single handlers -- the stealth
    gate ChangingRegistry.prematch(cause), requires_finalizer(cause) of the changing and the spawning registry,
    has_handlers(resource), iter_extra_fields(resource) -- are quantifications over ALL registered handlers:
      gate_is_any_registered_handler        prematch(cause) iff SOME registered handler pre-matches the cause (module-level
                                            prematch(handler, cause)): an object that satisfies any registration is of interest --
                                            also a second registration of the same function under the same id with other
                                            criteria (C15: "exactly the handlers whose declared criteria hold"; the
                                            de-duplication by (fn, id) concerns invocation, after the criteria);
      finalizer_iff_some_requiring_handler  requires_finalizer(cause) iff some registered, not excluded handler requires a
                                            finalizer and (pre-)matches;
      has_handlers_iff_some_serves          has_handlers(resource) iff some registered handler's selector serves the resource;
      extra_fields_of_every_serving_handler iter_extra_fields(resource) yields the field of every serving handler that has one.
    """
    import kopf
    from contracts.c15_matching import Facts, make_cause
    reg = registries.OperatorRegistry()
    n = 2
    same_fn = vc.nondet(2, 'distinct functions | one function registered repeatedly under one id') == 1

    def shared(**_):
        return None
    kinds = ['create', 'update', 'delete', 'delete-optional']
    crits = [None, {'tier': 'gold'}, {'tier': 'silver'}]
    for i in range(n):
        kind = kinds[vc.nondet(len(kinds), f'registration {i}: kind')]
        labels = crits[vc.nondet(len(crits), f'registration {i}: labels')]
        field = [None, 'spec.x'][vc.nondet(2, f'registration {i}: field')] if kind in ('create', 'update') and i == 0 else None
        if same_fn:
            fn, hid = shared, 'shared'
        else:
            def fn(**_):
                return None
            fn.__name__ = fn.__qualname__ = f'h{i}'
            hid = f'h{i}'
        kw = dict(registry=reg, id=hid)
        if labels is not None:
            kw['labels'] = labels
        if field is not None:
            kw['field'] = field
        if kind == 'delete-optional':
            kopf.on.delete('kopfexamples', optional=True, **kw)(fn)
        else:
            getattr(kopf.on, kind)('kopfexamples', **kw)(fn)
    tier = [None, 'gold', 'silver'][vc.nondet(3, 'the object: tier label')]
    reason = ['create', 'update', 'delete'][vc.nondet(3, 'the cause: reason')]
    facts = Facts(family='changing', reason=reason, deleted=(reason == 'delete'), labels=(() if tier is None else (('tier', tier),)),
                  new_x=('present', 'a'), old_x=('present', 'b') if reason == 'update' else ('present', 'a'))
    cause = make_cause(facts)
    hs = reg._changing.get_all_handlers()
    other = cause.resource.__class__('other.dev', 'v1', 'others', kind='Other', singular='other')

    # the extracted METHODS are named like the module-level functions they call: keep those reachable by their names
    keep = {'prematch': registries.prematch, 'match': registries.match}
    ld = vc.load('kopf._core.intents.registries', 'ChangingRegistry.prematch', stubs=keep)
    # (the extracted def would shadow the module-level function of the same name that it calls: the real method is called as it is)
    got = bool(registries.ChangingRegistry.prematch(reg._changing, cause=cause))
    want = any(registries.prematch(handler=h, cause=cause) for h in hs)
    vc.ensure('gate_is_any_registered_handler', got == want)
    vc.canary('canary.gate_always_open', got)
    vc.canary('canary.gate_always_shut', not got)

    ld = vc.load('kopf._core.intents.registries', 'ChangingRegistry.requires_finalizer', stubs=keep)
    for excluded in (frozenset(), frozenset({hs[0].id})):
        got = bool(registries.ChangingRegistry.requires_finalizer(reg._changing, cause=cause, excluded=excluded))
        want = any(h.requires_finalizer and registries.prematch(handler=h, cause=cause) for h in hs if h.id not in excluded)
        vc.ensure('finalizer_iff_some_requiring_handler', got == want)

    ld = vc.load('kopf._core.intents.registries', 'ResourceRegistry.has_handlers')
    for res in (cause.resource, other):
        got = bool(ld.fn(reg._changing, resource=res))
        vc.ensure('has_handlers_iff_some_serves', got == any(registries._matches_resource(h, res) for h in hs))
    ld = vc.load('kopf._core.intents.registries', 'ResourceRegistry.iter_extra_fields')
    for res in (cause.resource, other):
        got = sorted(map(tuple, ld.fn(reg._changing, resource=res)))
        want = sorted(tuple(h.field) for h in hs if registries._matches_resource(h, res) and h.field)
        vc.ensure('extra_fields_of_every_serving_handler', set(got) == set(want))
    return ('gates', n, same_fn, tier, reason)


# =============================================================================================== I2n
@harness('I2n', targets=['kopf._core.engines.indexing.OperatorIndexers.replace'], props=['C17'], sizes_only=True,
         clauses=['outcome_table', 'other_objects_untouched'],
         canaries=['canary.always_removed', 'canary.always_kept'],
         trusted=['indexing.Index / Store / OperatorIndexer by contracts I1, I1p, I10-I17 (run as real code here)'],
         assumes=['three indices; per index: no outcome (filter mismatch) / PermanentError / TemporaryError / an ARBITRARY exception (as '
                  'execute_handler_once stores it under errors=PERMANENT or TEMPORARY) / HandlerTimeoutError / result None / a dict / a scalar / a '
                  'falsy result 0; one other object with its own entry in every index'])
def I2n(vc):
    """
    OperatorIndexers.replace(body, outcomes) on three real indices, every combination of the outcome kinds (docs/indexing.rst):
      outcome_table            no outcome for an index (the object stopped matching its filters) or an outcome with ANY exception
                               => the object's values are removed from that index; result None => kept as they are; a dict =>
                               replaced by its items; any other value v (also falsy ones) => replaced by {None: v};
      other_objects_untouched  the entries of another object in the same indices stay.
    """
    ids_ = ['a', 'b', 'c']
    ix = indexing.OperatorIndexers()
    ix.ensure([Opaque(f'handler-{i}', id=i) for i in ids_])
    body = bodies.Body({'metadata': {'namespace': 'ns', 'name': 'n1', 'uid': 'u1'}})
    key = ix.make_key(body)
    other = ('ns', 'n2', 'u2')
    for i in ids_:
        ix[i].replace(key, {'k': 'old'})
        ix[i].replace(other, {'k': 'other'})
    shapes = ['absent', 'permanent', 'temporary', 'arbitrary', 'timeout', 'none', 'dict', 'scalar', 'zero']
    chosen, outcomes = {}, {}
    for i in ids_:
        s = shapes[vc.nondet(len(shapes), f'index {i}: outcome')]
        chosen[i] = s
        if s == 'permanent':
            outcomes[i] = execution.Outcome(final=True, exception=execution.PermanentError('no'))
        elif s == 'temporary':
            outcomes[i] = execution.Outcome(final=False, exception=execution.TemporaryError('later', delay=5), delay=5)
        elif s == 'arbitrary':
            outcomes[i] = execution.Outcome(final=True, exception=ValueError('arbitrary'))
        elif s == 'timeout':
            outcomes[i] = execution.Outcome(final=True, exception=execution.HandlerTimeoutError('too long'))
        elif s == 'none':
            outcomes[i] = execution.Outcome(final=True, result=None)
        elif s == 'dict':
            outcomes[i] = execution.Outcome(final=True, result={'k2': 'new'})
        elif s == 'scalar':
            outcomes[i] = execution.Outcome(final=True, result='value')
        elif s == 'zero':
            outcomes[i] = execution.Outcome(final=True, result=0)
    ld = vc.load('kopf._core.engines.indexing', 'OperatorIndexers.replace')
    ld.fn(ix, body=body, outcomes=outcomes)

    def view(i):
        return {k: sorted(map(repr, vs)) for k, vs in ix.indices[i].items()}
    for i in ids_:
        s = chosen[i]
        mine = {'absent': {}, 'permanent': {}, 'temporary': {}, 'arbitrary': {}, 'timeout': {}, 'none': {'k': ['old']},
                'dict': {'k2': ['new']}, 'scalar': {None: ['value']}, 'zero': {None: [0]}}[s]
        want = {'k': ['other']}
        for k, vs in mine.items():
            want.setdefault(k, [])
            want[k] = want[k] + vs
        want = {k: sorted(map(repr, vs)) for k, vs in want.items()}
        got = view(i)
        vc.ensure('outcome_table', got == want)
        vc.ensure('other_objects_untouched', repr('other') in got.get('k', []))
        vc.canary('canary.always_removed', repr('old') not in got.get('k', []))
        vc.canary('canary.always_kept', repr('old') in got.get('k', []))
    return ('replace', tuple(chosen.values()))


# =============================================================================================== P1n
T0 = _dt.datetime(2020, 1, 1, 0, 0, 0, tzinfo=_dt.timezone.utc)


@harness('P1n', targets=['kopf._core.engines.peering.process_peering_event', 'kopf._core.engines.peering.Peer.__init__'],
         props=['C13'], sizes_only=True,
         clauses=['judged_by_the_current_time', 'pauses_for_live_peers', 'expired_records_cleaned', 'own_record_left_to_the_keepalive'],
         canaries=['canary.never_pauses', 'canary.never_resumes'],
         trusted=['peering.clean / peering.touch by contracts P3/P4 (here: recorded)', 'aiotime.sleep by contract T1 (here: returns the delay as unslept: woken by the next event)',
                  'aiotoggles.Toggle by contract O1u (a boolean cell)', 'datetime.datetime.now: the wall clock (set by the harness)'],
         assumes=['one foreign peer with priority above / equal to / below ours, lifetime 60 s, last seen at T0, never renewed (it was killed); the '
                  'peering object is processed at T0+10 s (twice: two events with the same content) and again at T0+100 s'])
def P1n(vc):
    """
    process_peering_event on real Peer objects, three events carrying the SAME record of a foreign peer that was killed after
    its last keep-alive (the content never changes): at T0+10 s, again at T0+10 s, and at T0+100 s.
      pauses_for_live_peers       while the record is alive a peer of higher or equal priority pauses this operator (the
                                  conflicts toggle is on), a lower one does not;
      judged_by_the_current_time  whether a record is alive is decided against the clock at THE TIME OF THE EVENT: after
                                  T0+60 s the killed peer is dead for this operator, it resumes (toggle off) -- however often
                                  it has seen the same record alive before ("resumes once a higher-priority peer's keep-alive
                                  has expired");
      expired_records_cleaned     the expired record is handed to clean();
      own_record_left_to_the_keepalive  the operator's OWN record -- also an expired one left behind by a killed predecessor under the
                                  same fixed identity -- is never handed to clean(): clean() is an unconditional merge patch
                                  {identity: null}; sent after the restarted operator's first keep-alive it erases the FRESH record,
                                  and for a whole keep-alive interval the peers do not see this operator ("each operator renews its
                                  record before it expires", "exactly the top one is active").
    """
    clock = [T0]

    class FakeDatetime(_dt.datetime):
        @classmethod
        def now(cls, tz=None):
            return clock[0]
    fake_dt = types.SimpleNamespace(datetime=FakeDatetime, timezone=_dt.timezone, timedelta=_dt.timedelta, date=_dt.date)
    ours = 100
    theirs = [200, 100, 50][vc.nondet(3, 'the foreign peer: higher / same / lower priority')]
    status = {'other-operator': {'priority': theirs, 'lastseen': '2020-01-01T00:00:00+00:00', 'lifetime': 60}}
    own_stale = vc.nondet(2, 'an expired record of the own identity is listed too (left by a killed predecessor)?') == 1
    if own_stale:
        status['me'] = {'priority': ours, 'lastseen': '2019-12-31T00:00:00+00:00', 'lifetime': 60}
    settings = types.SimpleNamespace(peering=types.SimpleNamespace(name='default', priority=ours, lifetime=60, stealth=False))
    cleaned, touched = [], []

    async def clean(*, peers, **kw):
        cleaned.append([str(p.identity) for p in peers])

    async def touch(**kw):
        touched.append(kw)

    async def sleep(delays, wakeup=None):
        ds = [delays] if isinstance(delays, (int, float)) else list(delays)
        return max(ds) if ds else None         # woken by the next event before the deadline

    class Toggle:
        def __init__(self):
            self.state = False

        def is_on(self): return self.state
        def is_off(self): return not self.state

        async def turn_to(self, v):
            self.state = bool(v)
    toggle = Toggle()
    fake_aiotime = types.SimpleNamespace(sleep=sleep)
    with patched(peering, datetime=fake_dt, clean=clean, touch=touch, aiotime=fake_aiotime, logger=NullLogger()):
        ld = vc.load('kopf._core.engines.peering', 'process_peering_event')

        def event():
            raw = {'type': 'MODIFIED', 'object': {'metadata': {'name': 'default'}, 'status': {k: dict(v) for k, v in status.items()}}}
            vc.drive(ld.fn(raw_event=raw, namespace='ns', resource=Opaque('resource'), identity=peering.Identity('me'),
                           settings=settings, conflicts_found=toggle), lambda site: None)
        for at in (10, 10):
            clock[0] = T0 + _dt.timedelta(seconds=at)
            event()
            vc.ensure('pauses_for_live_peers', toggle.is_on() == (theirs >= ours) and not any('other-operator' in c for c in cleaned))
        vc.canary('canary.never_pauses', toggle.is_off())
        clock[0] = T0 + _dt.timedelta(seconds=100)
        event()
        vc.ensure('judged_by_the_current_time', toggle.is_off())
        vc.ensure('expired_records_cleaned', any('other-operator' in c for c in cleaned))
        vc.ensure('own_record_left_to_the_keepalive', not any('me' in c for c in cleaned))
        vc.canary('canary.never_resumes', toggle.is_on())
    return ('peering', theirs, own_stale)


# =============================================================================================== P5n
@harness('P5n', targets=['kopf._core.engines.peering.keepalive'], props=['C13', 'C20'], sizes_only=True,
         clauses=['withdrawn_after_every_announcement', 'announces_first', 'renews_before_expiry', 'ends_by_cancellation'],
         canaries=['canary.never_withdraws', 'canary.cancelled_before_the_first_request'],
         trusted=['peering.touch by contract P4 (here: recorded; suspends while the request is in flight: the server may have stored the '
                  'record when a cancellation arrives)', 'asyncio.sleep suspends; asyncio.shield(x) completes with x',
                  'random.randint(5, 10) returns a value in 5..10'],
         assumes=['the task is cancelled once: while the 1st, 2nd or 3rd keep-alive request is in flight or during the 1st or 2nd sleep; '
                  'settings.peering.lifetime = 60'])
def P5n(vc):
    """
    keepalive() run natively (whatever its loop structure), cancelled at every suspension point of its first rounds:
      withdrawn_after_every_announcement  once an announcing touch() was STARTED -- also when the cancellation arrives while that
                                          request is in flight: the server may already have stored the record -- the LAST request
                                          of the task is the withdrawal touch(lifetime=0) ("when a stop is requested ... the
                                          peering record is withdrawn", "on exit removes it");
      announces_first                     the first thing the task does is an announcing touch (no sleep before it);
      renews_before_expiry                between two announcements it sleeps less than the lifetime and at least 1 s;
      ends_by_cancellation                the task ends with the CancelledError, never silently, never with another error.
    """
    lifetime = 60
    settings = types.SimpleNamespace(peering=types.SimpleNamespace(lifetime=lifetime, name='default', priority=100))
    cancel_at = vc.nondet(5, 'cancelled during: touch 1 / sleep 1 / touch 2 / sleep 2 / touch 3')
    sites = ['touch1', 'sleep1', 'touch2', 'sleep2', 'touch3']
    counter = dict(touch=0, sleep=0)
    log = []

    async def touch(**kw):
        if kw.get('lifetime') == 0:
            log.append(('withdraw', kw))
            await suspend('withdrawal in flight')
            return
        counter['touch'] += 1
        log.append(('announce', kw))
        await suspend(f"touch{counter['touch']}")

    async def sleep(delay, *a, **kw):
        counter['sleep'] += 1
        log.append(('sleep', delay))
        await suspend(f"sleep{counter['sleep']}")

    async def shield(aw):
        return await aw

    def on_suspend(site):
        if site == sites[cancel_at]:
            return asyncio.CancelledError()
        return None
    fake_asyncio = types.SimpleNamespace(sleep=sleep, shield=shield, CancelledError=asyncio.CancelledError, Event=asyncio.Event)
    fake_random = types.SimpleNamespace(randint=lambda a, b: [a, b, (a + b) // 2][vc.nondet(3, 'jitter')])
    escaped = None
    with patched(peering, touch=touch, asyncio=fake_asyncio, random=fake_random, logger=NullLogger()):
        ld = vc.load('kopf._core.engines.peering', 'keepalive')
        try:
            vc.drive(ld.fn(namespace='ns', resource=Opaque('resource'), identity=peering.Identity('me'), settings=settings), on_suspend)
        except BaseException as e:
            if _not_ours(e):
                raise
            escaped = e
    vc.ensure('ends_by_cancellation', isinstance(escaped, asyncio.CancelledError))
    kinds = [k for k, _ in log]
    vc.ensure('announces_first', bool(kinds) and kinds[0] == 'announce')
    vc.canary('canary.cancelled_before_the_first_request', 'announce' not in kinds)
    if 'announce' in kinds:
        vc.ensure('withdrawn_after_every_announcement', kinds[-1] == 'withdraw' and kinds.count('withdraw') == 1)
    vc.canary('canary.never_withdraws', 'withdraw' not in kinds)
    for k, v in log:
        if k == 'sleep':
            vc.ensure('renews_before_expiry', 1 <= v < lifetime)
        elif k == 'announce':
            vc.ensure('renews_before_expiry', v.get('lifetime') is None)
    for a, b in zip(kinds, kinds[1:]):
        if a == 'announce' and b == 'announce':
            vc.ensure('renews_before_expiry', False)
    return ('keepalive', sites[cancel_at], tuple(kinds))
